"""C04  Tiled images reassemble to the exact total pixel matrix.

Tie T: T3 (row/column normalisation), T5 (region -> tile selection and slice bounds), T6 (get_tile_array
bounds/padding), T7b (tile counts of compute_tile_positions_per_frame), T7e (z origin / loop nest of
iter_tiled_full_frame_data, from which the TILED_FULL frame table is derived), T4o (emptiness test of a float mask pixel for
omit_empty_frames vs the value stored for it), regenerated on every run.
Tie C: the composed model (Model/Tiling.lean: table selection, copy loop, TILED_FULL table, the tiling loop of
the Segmentation constructor) against
  L0  Image.get_total_pixel_matrix on synthetic tiled slide images (TILED_FULL / TILED_SPARSE, omitted tiles,
      permuted frame order, 1 or 3 samples, repeated tile positions), Segmentation(tile_pixel_array=True) -> get_total_pixel_matrix
      (BINARY / FRACTIONAL / LABELMAP, both organisations, omit_empty_frames, tile sizes, segment subsets),
  L1  what the constructor stores (NumberOfFrames, per-frame tile positions and segment numbers, frame pixels)
      observed through pydicom,
  L2  the private helpers `_standardize_row_column_indices` and `_iterate_indices_for_tiled_region`.
Oracle (independent of the model): numpy slice of the matrix the tiles were cut from / of the mask handed in,
with the request translated by `denote` below (Python slice semantics; 1-based numbers shifted by one).
"""
from __future__ import annotations

import io
import itertools

import numpy as np

PROP = 'C04'
TARGETS = ['T3', 'T5', 'T6', 'T7b', 'T7e', 'T4o', 'T5w', 'T5g', 'T4c', 'T4t', 'T4fi', 'T4fs', 'T4fv', 'T4fw']
LEAN_MODULES = ['HdVerif.Props.C04']
MODEL_MODULES = ['HdVerif.Model.TilingJson']
NAMESPACE = 'HdVerif.C04'
DRIVER = 'Drivers/C04.lean'
RULE = ('one case = one region request (row/column start/end in 1-based, 0-based, negative or None form) against one '
        'generated tiled image or tiled segmentation; non-trivial = accepted request returning a non-empty region with '
        'mixed content, distinct by (kind, organisation, matrix size, tile size, region residues modulo the tile size, '
        'argument forms, segment subset)')
ASSUMPTIONS = [
    'pixel values are opaque: decoding a stored frame to numbers (pydicom / C01, C05) is not part of this model',
    'numpy slice assignment with equal source and destination shapes copies element-wise (shapes are proved equal)',
    'SQLite returns exactly the FrameLUT rows matching the WHERE clause (the clause is pinned textually in T5)',
    'the temporary channel table behaves like the four-statement fragment `Tiling.tempOp` (DROP [IF EXISTS], CREATE [IF NOT EXISTS], INSERT [OR '
    'REPLACE] under one UNIQUE column, rollback of a failed executemany); compared with the rows of the real table after every step of every '
    'history; a table lock is modelled as one flag (an abandoned frame query: DROP TABLE then fails), set when the body of a read raises while its frame query has rows, '
    'the iterator does not close its cursor (regenerated, T4t) and the caller keeps the exception',
    'histories: whether the options of a call are refused by _get_pixels_by_seg_frame (inside the with-block) is an input of the model, computed '
    'from the mask on the oracle side (combine_segments: overlap / non-binary fractions in the region; C02 models that method)',
]
MODELLED_NOT_VERIFIED = ['SQLite query execution', 'numpy zeros / slice assignment / pad / any', 'pydicom dataset access and pixel decoding',
                         'Segmentation constructor outside the tiling loop (pixel casting, segment extraction: C01, C02)',
                         'ORDER BY of the region query (the model sorts with mergeSort; result proved order-independent)']



# ------------------------------------------------------------------------------------------ oracle side
def denote(v, n, as_idx, is_end):
    """What one argument means, independently of the library: a 0-based bound of the half-open interval, or
    None when the argument does not denote a row/column of an axis of length n (must be refused)."""
    if v is None:
        return n if is_end else 0
    if isinstance(v, bool):
        v = int(v)                  # a bool is an integer in Python
    if not isinstance(v, (int, np.integer)):
        return None                 # floats, strings ... do not denote a row or column
    v = int(v)
    if v < 0:
        i = n + v                   # last row/column is -1 in both conventions
    elif as_idx:
        i = v
    else:
        if v == 0:
            return None             # 0 is not a 1-based number
        i = v - 1
    hi = n if is_end else n - 1
    return i if 0 <= i <= hi else None


def oracle_region(R, C, req):
    """-> ('refuse',) | ('ok', r0, r1, c0, c1)  (r0 <= r1, c0 <= c1; equality = empty region)"""
    rs, re, cs, ce, ai = req
    b = [denote(rs, R, ai, False), denote(re, R, ai, True), denote(cs, C, ai, False), denote(ce, C, ai, True)]
    if any(x is None for x in b):
        return ('refuse',)
    if b[0] > b[1] or b[2] > b[3]:
        return ('refuse',)
    return ('ok', *b)


def forms(a, b, n, as_idx, rng):
    """argument values denoting [a, b) on an axis of length n, each in a random admissible form"""
    def start():
        opts = ['pos']
        if a < n:
            opts.append('neg')
        if a == 0:
            opts.append('none')
        f = rng.choice(opts)
        return (None if f == 'none' else a - n if f == 'neg' else a if as_idx else a + 1), f

    def end():
        opts = ['pos']
        if b < n:
            opts.append('neg')
        if b == n:
            opts.append('none')
        f = rng.choice(opts)
        return (None if f == 'none' else b - n if f == 'neg' else b if as_idx else b + 1), f
    (s, fs), (e, fe) = start(), end()
    return s, e, fs[0] + fe[0]


def random_requests(rng, R, C, th, tw, k):
    out = []
    for i in range(k):
        kind = rng.choice(['any', 'any', 'any', 'single', 'aligned', 'full', 'edge', 'bad', 'empty'])
        ai = rng.random() < 0.5
        if kind == 'bad':
            # a valid request with one argument pushed outside the matrix / set to 0 / the interval inverted
            a, b = sorted(rng.sample(range(R + 1), 2))
            c, d = sorted(rng.sample(range(C + 1), 2))
            rs, re, _ = forms(a, b, R, ai, rng)
            cs, ce, _ = forms(c, d, C, ai, rng)
            req = [rs, re, cs, ce]
            j = rng.randrange(4)
            n = R if j < 2 else C
            is_end = j % 2 == 1
            mode = rng.choice(['high', 'low', 'zero', 'inverted', 'type'])
            if mode == 'type':
                # an argument that is not an integer at all: must be refused, never truncated or parsed
                v = req[j] if req[j] is not None else 1
                req[j] = rng.choice([v + 0.5, float(v), str(v), [v], v + 0j])
                out.append((*req, ai))
                continue
            if mode == 'inverted':
                lo, hi = (a, b) if j < 2 else (c, d)
                if hi < n:
                    s_, e_, _ = forms(hi, lo, n, ai, rng)
                    req[(j // 2) * 2], req[(j // 2) * 2 + 1] = s_, e_
                else:
                    mode = 'low'
            if mode == 'high':
                req[j] = (n + 1 if is_end else n) + (0 if ai else 1) + rng.choice([0, 0, 1, 5])
            elif mode == 'low' or (mode == 'zero' and ai):
                req[j] = -n - 1 - rng.choice([0, 0, 1, 7])
            elif mode == 'zero':
                req[j] = 0
            out.append((*req, ai))
            continue
        if kind == 'full':
            a, b, c, d = 0, R, 0, C
        elif kind == 'single':
            a = rng.randrange(R); b = a + 1
            c = rng.randrange(C); d = c + 1
            if rng.random() < 0.5:
                c, d = sorted(rng.sample(range(C + 1), 2))
        elif kind == 'aligned':
            ta = sorted(rng.sample(range(0, R + th, th), 2)) if R + th > th else [0, th]
            tc_ = sorted(rng.sample(range(0, C + tw, tw), 2)) if C + tw > tw else [0, tw]
            a, b = ta[0], min(ta[1], R)
            c, d = tc_[0], min(tc_[1], C)
        elif kind == 'edge':
            a = rng.randrange(R); b = R
            c = rng.randrange(C); d = C
        elif kind == 'empty':
            a = b = rng.randrange(R + 1)
            c, d = sorted(rng.sample(range(C + 1), 2))
            if a == R:      # start == n is out of range for a start argument; use an end-only empty region instead
                a = b = rng.randrange(R)
        else:
            a, b = sorted(rng.sample(range(R + 1), 2))
            c, d = sorted(rng.sample(range(C + 1), 2))
        rs, re, _ = forms(a, b, R, ai, rng)
        cs, ce, _ = forms(c, d, C, ai, rng)
        out.append((rs, re, cs, ce, ai))
    return out


def exhaustive_requests(rng, R, C, pure_forms=False):
    """every non-empty region of an R x C matrix (with `pure_forms`: as 1-based numbers, as 0-based indices, as negative
    values, and) with argument forms drawn per request, both conventions; plus, per
    axis, every start/end value in -n-3 .. n+3 (and None) against a fixed other axis"""
    out = []
    for a, b in itertools.combinations(range(R + 1), 2):
        for c, d in itertools.combinations(range(C + 1), 2):
            if pure_forms:
                out.append((a + 1, b + 1, c + 1, d + 1, False))                                  # 1-based numbers
                out.append((a, b, c, d, True))                                                   # 0-based indices
                # negative wherever a negative alias exists (an end equal to the size has none: None)
                ai = rng.random() < 0.5
                out.append((a - R, b - R if b < R else None, c - C, d - C if d < C else None, ai))
            ai = rng.random() < 0.5
            rs, re, _ = forms(a, b, R, ai, rng)
            cs, ce, _ = forms(c, d, C, ai, rng)
            out.append((rs, re, cs, ce, ai))
    vals = lambda n: [None] + list(range(-n - 3, n + 4))   # noqa: E731
    for ai in (False, True):
        for s in vals(R):
            for e in vals(R):
                out.append((s, e, None, None, ai))
        for s in vals(C):
            for e in vals(C):
                out.append((None, None, s, e, ai))
    return out


LAYOUTS = ['C', 'F', 'transposed-view', 'strided-view', 'negative-stride', 'read-only']


def with_layout(a, layout):
    """the same values in another memory layout (the library must not care)"""
    a = np.asarray(a)
    if layout == 'F':
        return np.asfortranarray(a)
    if layout == 'transposed-view':
        return np.ascontiguousarray(np.moveaxis(a, -1, 0)).transpose(*range(1, a.ndim), 0) if a.ndim > 1 else a
    if layout == 'strided-view':
        big = np.zeros(tuple(2 * n for n in a.shape), dtype=a.dtype)
        sl = tuple(slice(0, None, 2) for _ in a.shape)
        big[sl] = a
        return big[sl]
    if layout == 'negative-stride':
        sl = tuple(slice(None, None, -1) for _ in a.shape)
        return np.ascontiguousarray(a[sl])[sl]
    if layout == 'read-only':
        b = a.copy()
        b.flags.writeable = False
        return b
    return np.ascontiguousarray(a)


def spell_int(v, how):
    """an integer argument as Python int / numpy integer"""
    if v is None or isinstance(v, bool) or not isinstance(v, (int, np.integer)):
        return v
    return {'int': int, 'np.int64': np.int64, 'np.int32': np.int32, 'np.uint16': (lambda x: np.uint16(x) if x >= 0 else np.int16(x))}[how](v)


def modelable(req):
    """requests whose arguments are integers or None travel to the Lean model; the others are for the oracle only"""
    return all(v is None or (isinstance(v, (int, np.integer)) and not isinstance(v, bool)) for v in req[:4])


KEPT_EXCEPTIONS = []      # exception objects (with their tracebacks, hence the frames of the failed call) a caller holds on to


def _fetch(fn, *a, **k):
    try:
        return ('ok', fn(*a, **k))
    except Exception as e:  # noqa: BLE001
        if KEPT_EXCEPTIONS and KEPT_EXCEPTIONS[0] == 'keep':
            KEPT_EXCEPTIONS.append(e)       # as `pytest.raises`, logging with exc_info, a REPL or `errors.append(e)` do
        return ('err', type(e).__name__ + ': ' + str(e)[:120])


def _res(m):
    return m['data'] if isinstance(m, dict) else m


def _cmp_model(ctx, layer, case, impl, ans, what):
    """impl: ('ok', nested list) | ('err', msg); ans: model answer {'ok': {'shape','data'}} | {'err'}"""
    if 'proto_err' in ans:
        ctx.disagree(layer, case, impl, ans, what + ': model protocol error')
        return
    mod = ('ok', ans['ok']) if 'ok' in ans else ('err', ans['err'])
    if impl[0] != mod[0]:
        ctx.disagree(layer, case, impl, mod, what + ': ok-vs-error')
    elif impl[0] == 'ok' and impl[1] != mod[1]:
        ctx.disagree(layer, case, impl, mod, what + ': value')


# ------------------------------------------------------------------------------------------ stream A: slide images
def _slide_config(ctx, idx):
    r = ctx.rng('slide', idx)
    small = r.random() < 0.75
    R = r.randint(1, 7) if small else r.randint(8, 14)
    C = r.randint(1, 7) if small else r.randint(8, 14)
    th, tw = r.randint(1, 6), r.randint(1, 6)
    # sizes with remainder exactly 1 / exactly tile - 1 / dividing are drawn explicitly (boundary residues)
    rem = r.choice(['any', 'any', 'one', 'minus-one', 'divides'])
    if rem != 'any':
        kr, kc = r.randint(0 if rem == 'one' else 1, 3), r.randint(0 if rem == 'one' else 1, 3)
        R = kr * th + {'one': 1, 'minus-one': th - 1, 'divides': 0}[rem]
        C = kc * tw + {'one': 1, 'minus-one': tw - 1, 'divides': 0}[rem]
        R, C = max(1, min(R, 14)), max(1, min(C, 14))
    full = r.random() < 0.45
    samples = 3 if r.random() < 0.15 else 1
    bits = 16 if (samples == 1 and r.random() < 0.3) else 8
    nth, ntw = -(-R // th), -(-C // tw)
    tiles = [(i, j) for i in range(nth) for j in range(ntw)]
    omit = []
    order = None
    if not full:
        if r.random() < 0.4 and len(tiles) > 1:
            omit = [t for t in tiles if r.random() < 0.3]
            if len(omit) == len(tiles):
                omit = omit[1:]
        kept = len(tiles) - len(omit)
        if r.random() < 0.5:
            order = list(range(kept))
            r.shuffle(order)
    return dict(idx=idx, R=R, C=C, th=th, tw=tw, full=full, samples=samples, bits=bits, omit=omit, order=order,
                int_spelling=r.choice(['int', 'int', 'np.int64', 'np.int32', 'np.uint16']),
                # DimensionOrganizationType of an image with explicit positions: 'TILED_SPARSE', or absent (the attribute is optional)
                org_attr='present' if full else r.choice(['present', 'present', 'absent']))


def _touches_omitted(cfg, r0, r1, c0, c1):
    th, tw = cfg['th'], cfg['tw']
    for (i, j) in cfg['omit']:
        if i * th < r1 and r0 < (i + 1) * th and j * tw < c1 and c0 < (j + 1) * tw:
            return True
    return False


def _px(a):
    """pixel array -> nested ints; 3 samples are folded into one opaque integer per pixel"""
    a = np.asarray(a).astype(np.int64)
    if a.ndim == 3:
        a = a[..., 0] + 256 * a[..., 1] + 65536 * a[..., 2]
    return a.tolist()


def _check_slide(ctx, cfg, requests, reqs, pending, exhaustive=False):
    import highdicom as hd
    import pydicom
    from gen.sources import slide_image
    from gen.images import to_bytes
    R, C, th, tw = cfg['R'], cfg['C'], cfg['th'], cfg['tw']
    ds, tpm = slide_image(R, C, th, tw, tiled_full=cfg['full'], samples=cfg['samples'], bits=cfg['bits'],
                          rng=ctx.np_rng('slidepix', cfg['idx']), omit=[tuple(t) for t in cfg['omit']], frame_order=cfg['order'])
    if cfg.get('org_attr', 'present') == 'absent' and not cfg['full']:
        del ds.DimensionOrganizationType
    want = tpm.copy()
    for (i, j) in cfg['omit']:
        want[i * th:(i + 1) * th, j * tw:(j + 1) * tw] = 0
    entry = ('Image.from_dataset', 'imread', 'Image.from_dataset(copy)', 'imread-lazy')[cfg['idx'] % 4] if not exhaustive else 'Image.from_dataset'
    if entry == 'imread':
        st, im = _fetch(lambda: hd.imread(io.BytesIO(to_bytes(ds))))
    elif entry == 'imread-lazy':
        st, im = _fetch(lambda: hd.imread(io.BytesIO(to_bytes(ds)), lazy_frame_retrieval=True))
    elif entry == 'Image.from_dataset(copy)':
        st, im = _fetch(hd.Image.from_dataset, pydicom.dcmread(io.BytesIO(to_bytes(ds))), copy=True)
    else:
        st, im = _fetch(hd.Image.from_dataset, ds, copy=False)
    if st == 'err':
        ctx.fail({'slide': cfg}, f'could not open generated tiled image: {im}', site='open')
        return
    # what a third party sees in the dataset: tile positions per frame (sparse) and the frames
    nfr = int(ds.NumberOfFrames)
    px = np.frombuffer(ds.PixelData, dtype={8: np.uint8, 16: np.uint16}[cfg['bits']])
    fshape = (nfr, th, tw) + ((3,) if cfg['samples'] == 3 else ())
    frames = px[:int(np.prod(fshape))].reshape(fshape)
    if cfg['full']:
        lut = []
    else:
        lut = [[int(f.PlanePositionSlideSequence[0].RowPositionInTotalImagePixelMatrix),
                int(f.PlanePositionSlideSequence[0].ColumnPositionInTotalImagePixelMatrix), k, 0]
               for k, f in enumerate(ds.PerFrameFunctionalGroupsSequence)]
    impls = []
    # a third of the images are read with the decoded frames already cached (`pixel_array` accessed before the region reads)
    cached = None
    if cfg['idx'] % 3 == 2 and not exhaustive and entry != 'imread-lazy':
        stc, pa = _fetch(lambda: im.pixel_array)
        if stc == 'ok':
            cached = np.array(pa, copy=True)
    snapshot = (bytes(ds.PixelData), int(ds.NumberOfFrames))
    spelling = cfg.get('int_spelling', 'int')
    first_ok = None
    for q, req in enumerate(requests):
        rs, re, cs, ce, ai = req
        orc = oracle_region(R, C, req)
        st, val = _fetch(im.get_total_pixel_matrix, row_start=spell_int(rs, spelling), row_end=spell_int(re, spelling),
                         column_start=spell_int(cs, spelling), column_end=spell_int(ce, spelling), as_indices=ai)
        if st == 'ok' and first_ok is None:
            first_ok = (req, np.array(val, copy=True))
        case = {'slide': cfg, 'request': list(req)}
        if orc[0] == 'refuse':
            cls = 'refuse'
        elif orc[1] == orc[2] or orc[3] == orc[4]:
            cls = 'empty'
        elif _touches_omitted(cfg, *orc[1:]):
            cls = 'missing-tile'
        else:
            cls = 'region'
        nontriv = None
        if cls == 'region' and st == 'ok':
            r0, r1, c0, c1 = orc[1:]
            sub = want[r0:r1, c0:c1]
            if sub.size and sub.min() != sub.max():
                formkey = tuple('n' if v is None else '-' if v < 0 else '+' for v in req[:4])  # only reached for accepted integer requests
                nontriv = ('slide', cfg['full'], R, C, th, tw, r0 % th, r1 % th, c0 % tw, c1 % tw, ai, formkey)
        ctx.case(sample=case if (cls == 'region' and ctx.evaluations % 211 == 0) else None, nontrivial_key=nontriv,
                 kind='slide', organisation='TILED_FULL' if cfg['full'] else 'TILED_SPARSE', request_class=cls,
                 argument_types='integers' if modelable(req) else 'non-integer:' + '/'.join(type(v).__name__ for v in req[:4] if v is not None and not modelable((v,))),
                 outcome='ok' if st == 'ok' else val.split(':')[0], convention='0-based' if ai else '1-based',
                 matrix=f'{min(R, 8)}x{min(C, 8)}' if not exhaustive else 'exhaustive', tile=f'{th}x{tw}', entry=entry,
                 pixel_array_cached=cached is not None, organisation_attribute=cfg.get('org_attr', 'present'),
                 remainder=(min(R % th, 2), min(C % tw, 2)),
                 divides=(R % th == 0, C % tw == 0))
        # ---- oracle
        if cls == 'refuse':
            if st == 'ok':
                ctx.fail(case, {'what': 'request outside the matrix was not refused', 'returned_shape': list(np.asarray(val).shape)},
                         site='Image.get_total_pixel_matrix')
        else:
            r0, r1, c0, c1 = orc[1:]
            exp = want[r0:r1, c0:c1]
            if st == 'ok':
                got = np.asarray(val)
                if got.shape != exp.shape or not np.array_equal(got.astype(np.int64), exp.astype(np.int64)):
                    ctx.fail(case, {'what': 'region differs from numpy slice of the total pixel matrix', 'got_shape': list(got.shape),
                                    'want_shape': list(exp.shape), 'got': got.astype(np.int64).tolist() if got.size <= 64 else '...',
                                    'want': exp.astype(np.int64).tolist() if exp.size <= 64 else '...'},
                             site='Image.get_total_pixel_matrix')
            elif cls == 'region':
                ctx.fail(case, {'what': 'valid region refused', 'error': val}, site='Image.get_total_pixel_matrix')
            elif cls == 'missing-tile' and not val.startswith('RuntimeError'):
                ctx.fail(case, {'what': 'region over an omitted tile failed in an unexpected way', 'error': val},
                         site='Image.get_total_pixel_matrix')
            # cls == 'empty': an empty array or a refusal are both fine
        impls.append(('ok', {'shape': list(np.asarray(val).shape[:2]), 'data': _px(val)}) if st == 'ok' else ('err', val))
    # ---- several calls on ONE object: the first successful read repeated after all the others (accepted and refused ones),
    #      and the object itself unchanged by reading
    if first_ok is not None and not exhaustive:
        rs, re, cs, ce, ai = first_ok[0]
        st, val = _fetch(im.get_total_pixel_matrix, row_start=rs, row_end=re, column_start=cs, column_end=ce, as_indices=ai)
        ctx.case(kind='slide', request_class='repeat-read', outcome='ok' if st == 'ok' else val.split(':')[0], int_spelling=spelling)
        if st != 'ok' or not np.array_equal(np.asarray(val), first_ok[1]):
            ctx.fail({'slide': cfg, 'request': list(first_ok[0]), 'repeat_after': len(requests)},
                     {'what': 'the same read repeated on the same object after other reads gives another result',
                      'second': val if st == 'err' else 'different array'}, site='Image.get_total_pixel_matrix')
    if (bytes(ds.PixelData), int(ds.NumberOfFrames)) != snapshot:
        ctx.fail({'slide': cfg}, {'what': 'reading regions modified the image'}, site='Image.get_total_pixel_matrix')
    if cached is not None:
        stc, pa = _fetch(lambda: im.pixel_array)
        if stc != 'ok' or not np.array_equal(np.asarray(pa), cached):
            ctx.fail({'slide': cfg}, {'what': 'reading regions modified the cached pixel_array of the image'}, site='Image.get_total_pixel_matrix')
    # ---- model (L0)
    reqs.append(('readRegions', {
        'frames': [_px(f) for f in frames], 'rows': R, 'cols': C, 'th': th, 'tw': tw, 'full': cfg['full'],
        'allow_missing': False, 'chan': None, 'channels': [1], 'lut': lut,
        'requests': [list(q) for q in requests if modelable(q)]}))
    pending.append(('multi', [{'slide': cfg, 'request': list(q)} for q in requests if modelable(q)],
                    [im_ for q, im_ in zip(requests, impls) if modelable(q)], 'L0', 'Image.get_total_pixel_matrix'))
    # ---- the caller EDITS the arrays it is handed: stored dtype, no value transform (nothing forces a copy), regions inside a single
    #      tile / aligned tiles / unaligned regions / the whole matrix; after every read the returned array is overwritten in place (when
    #      writeable) and every later read must still equal the stored total pixel matrix (decoded frames cached or not)
    if not exhaustive and cfg['samples'] == 1:
        er = ctx.rng('slideedit', cfg['idx'])
        raw_kw = dict(dtype={8: np.uint8, 16: np.uint16}[cfg['bits']], apply_modality_transform=False, apply_real_world_transform=False,
                      apply_voi_transform=False, apply_presentation_lut=False)
        nth_, ntw_ = -(-R // th), -(-C // tw)
        regs = []
        for _ in range(3):
            i, j = er.randrange(nth_), er.randrange(ntw_)
            a, b = i * th, min(R, (i + 1) * th)
            c, d = j * tw, min(C, (j + 1) * tw)
            regs.append((a, b, c, d))                                   # one whole tile
            a2 = er.randrange(a, b); c2 = er.randrange(c, d)
            regs.append((a2, er.randrange(a2 + 1, b + 1), c2, er.randrange(c2 + 1, d + 1)))   # inside that tile
        a, b = sorted(er.sample(range(R + 1), 2)); c, d = sorted(er.sample(range(C + 1), 2))
        regs += [(a, b, c, d), (0, R, 0, C)]
        er.shuffle(regs)
        regs.append((0, R, 0, C))
        for q, (a, b, c, d) in enumerate(regs):
            if _touches_omitted(cfg, a, b, c, d):
                continue
            st, val = _fetch(im.get_total_pixel_matrix, row_start=a, row_end=b, column_start=c, column_end=d, as_indices=True, **raw_kw)
            single = (a // th == (b - 1) // th) and (c // tw == (d - 1) // tw)
            ctx.case(kind='slide', request_class='edited-result:' + ('single-tile' if single else 'several-tiles'),
                     outcome='ok' if st == 'ok' else val.split(':')[0], pixel_array_cached=cached is not None)
            case = {'slide': cfg, 'edited_results': [list(x) for x in regs[:q + 1]]}
            if st != 'ok':
                ctx.fail(case, {'what': 'valid region refused (stored dtype, no transform)', 'error': val}, site='Image.get_total_pixel_matrix')
                continue
            got = np.asarray(val)
            if got.shape != want[a:b, c:d].shape or not np.array_equal(got.astype(np.int64), want[a:b, c:d].astype(np.int64)):
                ctx.fail(case, {'what': 'a read after the caller edited an array returned earlier differs from the stored total pixel matrix',
                                'region': [a, b, c, d]}, site='Image.get_total_pixel_matrix')
                break
            if isinstance(val, np.ndarray) and val.flags.writeable:
                val[...] = 0 if q % 2 else 1          # the caller's own in-place processing
    # ---- the other public accessor of a region: Image.get_volume (tiled branch: the request is normalised to 0-based indices and
    #      handed to get_total_pixel_matrix as indices).  A few requests per image; empty regions are left to the matrix read.
    gv = getattr(im, 'get_volume', None)
    if gv is not None and not exhaustive:
        vreqs, vimpls = [], []
        for req in requests[:5]:
            rs, re, cs, ce, ai = req
            orc = oracle_region(R, C, req)
            if orc[0] == 'ok' and (orc[1] == orc[2] or orc[3] == orc[4]):
                continue
            st, vol = _fetch(gv, row_start=spell_int(rs, spelling), row_end=spell_int(re, spelling), column_start=spell_int(cs, spelling),
                             column_end=spell_int(ce, spelling), as_indices=ai)
            case = {'slide': cfg, 'request': list(req), 'accessor': 'get_volume'}
            arr = None
            if st == 'ok':
                arr = np.asarray(vol.array)
                arr = arr[0] if arr.ndim >= 3 else arr
            cls = 'refuse' if orc[0] == 'refuse' else 'missing-tile' if _touches_omitted(cfg, *orc[1:]) else 'region'
            ctx.case(kind='slide', request_class='get_volume:' + cls, outcome='ok' if st == 'ok' else vol.split(':')[0],
                     organisation='TILED_FULL' if cfg['full'] else 'TILED_SPARSE')
            if cls == 'refuse':
                if st == 'ok':
                    ctx.fail(case, {'what': 'request outside the matrix was not refused', 'returned_shape': list(arr.shape)}, site='Image.get_volume')
            elif st == 'ok':
                exp = want[orc[1]:orc[2], orc[3]:orc[4]]
                if arr.shape[:2] != exp.shape[:2] or not np.array_equal(arr.astype(np.int64), exp.astype(np.int64)):
                    ctx.fail(case, {'what': 'region differs from numpy slice of the total pixel matrix', 'returned_shape': list(arr.shape),
                                    'want_shape': list(exp.shape)}, site='Image.get_volume')
            elif cls == 'region':
                ctx.fail(case, {'what': 'valid region refused', 'error': vol}, site='Image.get_volume')
            if modelable(req):
                vreqs.append(req)
                vimpls.append(('ok', {'shape': list(arr.shape[:2]), 'data': _px(arr)}) if st == 'ok' else ('err', vol))
        if vreqs:
            reqs.append(('readRegions', {
                'frames': [_px(f) for f in frames], 'rows': R, 'cols': C, 'th': th, 'tw': tw, 'full': cfg['full'],
                'allow_missing': False, 'chan': None, 'channels': [1], 'lut': lut, 'volume': True,
                'requests': [list(q) for q in vreqs]}))
            pending.append(('multi', [{'slide': cfg, 'request': list(q), 'accessor': 'get_volume'} for q in vreqs], vimpls, 'L0', 'Image.get_volume'))
    # ---- L2: the instruction list of the private iterator, a few requests per image
    it = getattr(im, '_iterate_indices_for_tiled_region', None)
    if it is not None and not cfg['full']:
        for req in [q for q in requests if modelable(q)][:3]:
            rs, re, cs, ce, ai = req
            try:
                with it(row_start=rs, row_end=re, column_start=cs, column_end=ce, as_indices=ai, allow_missing_combinations=True) as (g, shape):
                    ins = [[int(fi), a.start, a.stop, b.start, b.stop, o.start, o.stop, p.start, p.stop] for (fi, (a, b), (o, p), _) in g]
                impl = ('ok', {'shape': [int(shape[0]), int(shape[1])], 'instr': ins})
            except Exception as e:  # noqa: BLE001
                impl = ('err', type(e).__name__)
            reqs.append(('instructions', {'lut': lut, 'th': th, 'tw': tw, 'rows': R, 'cols': C, 'rs': rs, 're': re, 'cs': cs, 'ce': ce,
                                          'as_indices': ai}))
            pending.append(('one', {'slide': cfg, 'request': list(req), 'helper': '_iterate_indices_for_tiled_region'}, impl, 'L2',
                            'instruction list'))


# ------------------------------------------------------------------------------------------ stream A': repeated tile positions
def _check_duplicates(ctx, idx, reqs, pending):
    """Images in which two frames claim the same tile position (a second optical path in a TILED_FULL image, a repeated
    per-frame position in a TILED_SPARSE image): a read without a channel query cannot know which frame to show."""
    import copy
    import highdicom as hd
    from pydicom.dataset import Dataset
    from pydicom.sequence import Sequence
    from gen.sources import slide_image
    r = ctx.rng('dup', idx)
    R, C, th, tw = r.randint(1, 6), r.randint(1, 6), r.randint(1, 4), r.randint(1, 4)
    full = idx % 3 != 1
    planes = 2 if idx % 3 == 2 else 1
    ds, tpm = slide_image(R, C, th, tw, tiled_full=full, rng=ctx.np_rng('duppix', idx))
    n = int(ds.NumberOfFrames)
    fb = th * tw
    raw = bytes(ds.PixelData)[:n * fb]
    if planes == 2:
        # a TILED_FULL image with two focal planes: every tile position occurs once per plane
        ds.TotalPixelMatrixFocalPlanes = 2
        data = raw + raw
        ds.NumberOfFrames = 2 * n
        lut, channels = [], [1]
        k = None
    elif full:
        ds.NumberOfOpticalPaths = 2
        op = Dataset()
        op.OpticalPathIdentifier = '2'
        ds.OpticalPathSequence = Sequence(list(ds.OpticalPathSequence) + [op])
        data = raw + raw
        ds.NumberOfFrames = 2 * n
        lut, channels = [], [1, 2]
        k = None
    else:
        k = r.randrange(n)
        pf = list(ds.PerFrameFunctionalGroupsSequence)
        pf.append(copy.deepcopy(pf[k]))
        ds.PerFrameFunctionalGroupsSequence = Sequence(pf)
        data = raw + raw[k * fb:(k + 1) * fb]
        ds.NumberOfFrames = n + 1
        lut = [[int(f.PlanePositionSlideSequence[0].RowPositionInTotalImagePixelMatrix),
                int(f.PlanePositionSlideSequence[0].ColumnPositionInTotalImagePixelMatrix), i, 0] for i, f in enumerate(pf)]
        channels = [1]
    ds.PixelData = data + (b'\x00' if len(data) % 2 else b'')
    cfg = dict(idx=idx, R=R, C=C, th=th, tw=tw, full=full, duplicate='focal-plane' if planes == 2 else 'optical-path' if full else k)
    st, im = _fetch(hd.Image.from_dataset, ds, copy=False)
    if st == 'err':
        ctx.note(f'image with repeated positions could not be opened: {im}')
        return
    requests = [(None, None, None, None, False)] + [q for q in random_requests(r, R, C, th, tw, 3) if modelable(q)]
    impls = []
    for req in requests:
        rs, re, cs, ce, ai = req
        st, val = _fetch(im.get_total_pixel_matrix, row_start=rs, row_end=re, column_start=cs, column_end=ce, as_indices=ai)
        orc = oracle_region(R, C, req)
        ctx.case(kind='duplicates', organisation='TILED_FULL' if full else 'TILED_SPARSE', request_class='duplicate-positions',
                 duplicate_kind=str(cfg['duplicate']) if full else 'repeated-position',
                 outcome='ok' if st == 'ok' else val.split(':')[0])
        if st == 'ok':
            # both frames hold the same pixels here, so an answer, if any, must still be the matrix
            if orc[0] == 'refuse' or not np.array_equal(np.asarray(val).astype(np.int64), tpm[orc[1]:orc[2], orc[3]:orc[4]].astype(np.int64)):
                ctx.fail({'duplicates': cfg, 'request': list(req)}, 'read of an image with repeated tile positions returned a wrong region',
                         site='Image.get_total_pixel_matrix')
        impls.append(('ok', {'shape': list(np.asarray(val).shape[:2]), 'data': _px(val)}) if st == 'ok' else ('err', val))
    frames = np.frombuffer(data, dtype=np.uint8).reshape((-1, th, tw))
    reqs.append(('readRegions', {'frames': [_px(f) for f in frames], 'rows': R, 'cols': C, 'th': th, 'tw': tw, 'full': full,
                                 'allow_missing': False, 'chan': None, 'channels': channels, 'planes': planes, 'lut': lut,
                                 'requests': [list(q) for q in requests]}))
    pending.append(('multi', [{'duplicates': cfg, 'request': list(q)} for q in requests], impls, 'L0', 'Image.get_total_pixel_matrix (repeated positions)'))


# ------------------------------------------------------------------------------------------ stream B: tiled segmentations
def _seg_config(ctx, idx):
    r = ctx.rng('seg', idx)
    small = r.random() < 0.7
    R = r.randint(1, 7) if small else r.randint(8, 14)
    C = r.randint(1, 7) if small else r.randint(8, 14)
    typ = r.choice(['BINARY', 'BINARY', 'FRACTIONAL', 'LABELMAP', 'LABELMAP'])
    sth, stw = r.randint(1, 6), r.randint(1, 6)
    if r.random() < 0.35:
        tile = None
        th, tw = sth, stw
    else:
        th, tw = r.randint(1, 6), r.randint(1, 6)
        tile = (th, tw)
    rem = r.choice(['any', 'any', 'one', 'minus-one', 'divides'])
    if rem != 'any':
        kr, kc = r.randint(0 if rem == 'one' else 1, 3), r.randint(0 if rem == 'one' else 1, 3)
        R = max(1, min(kr * th + {'one': 1, 'minus-one': th - 1, 'divides': 0}[rem], 14))
        C = max(1, min(kc * tw + {'one': 1, 'minus-one': tw - 1, 'divides': 0}[rem], 14))
    org = r.choice(['TILED_FULL', 'TILED_SPARSE', 'TILED_SPARSE', None])
    omit_empty = r.random() < (0.15 if org == 'TILED_FULL' else 0.6)
    nseg = r.choice([1, 1, 2, 2, 3])
    style = 'labelmap' if typ == 'LABELMAP' else r.choice(['labelmap', 'stack'])
    if typ == 'FRACTIONAL' and r.random() < 0.4:
        style = 'quantisation-boundary'      # float fractions around the rounding boundaries in otherwise empty tiles
    p_empty = r.choice([0.0, 0.3, 0.6, 0.9])
    all_empty = r.random() < 0.04
    if org == 'TILED_FULL' and omit_empty and r.random() < 0.5:
        all_empty = True        # the one situation in which TILED_FULL with omit_empty_frames is accepted
    return dict(idx=idx, R=R, C=C, type=typ, src_tile=[sth, stw], tile=list(tile) if tile else None, th=th, tw=tw, org=org,
                omit_empty=omit_empty, nseg=nseg, style=style, p_empty=p_empty, all_empty=all_empty,
                src_full=r.random() < 0.5, roundtrip=r.random() < 0.3,
                layout=r.choice(LAYOUTS), org_spelling=r.choice(['str', 'enum']), tile_spelling=r.choice(['tuple', 'list', 'np.int64', 'np.uint8', 'np.uint16']),
                segnum_spelling=r.choice(['list', 'tuple', 'ndarray']), int_spelling=r.choice(['int', 'int', 'np.int64', 'np.int32']),
                entry=r.choice(['segread', 'Segmentation.from_dataset', 'segread-lazy']),
                mfv=r.choice([255, 255, 8, 16, 100]) if typ == 'FRACTIONAL' else None,
                float_dtype=r.choice(['float64', 'float32']),
                # which tiles hold anything: independent per tile ('bernoulli') or only 1-3 tiles, the bottom-right corner tile and
                # the tiles of the last tile row / column preferred ('few'); content of a live tile: dense or a single pixel
                live_mode=r.choice(['bernoulli', 'bernoulli', 'few', 'few-single-pixel']),
                # frame encoding of the tiles: native, or RLE Lossless (8-bit types only) encoded in the constructor's own loop
                # (workers = 0), by a process pool of 2 workers, or by an executor handed in
                codec=r.choice(['native', 'native', 'native', 'rle']) if typ != 'BINARY' else 'native',
                workers=r.choice([0, 2, 'thread-pool']))


def _seg_mask(ctx, cfg):
    """-> (array handed to the constructor, per-segment expected integer matrices E[s] as read back raw)"""
    r = ctx.rng('segmask', cfg['idx'])
    nr = ctx.np_rng('segmask', cfg['idx'])
    R, C, th, tw, n = cfg['R'], cfg['C'], cfg['th'], cfg['tw'], cfg['nseg']
    nth, ntw = -(-R // th), -(-C // tw)
    live = np.zeros((R, C), dtype=bool)
    mode = cfg.get('live_mode', 'bernoulli')
    if mode == 'bernoulli' or cfg['style'] == 'quantisation-boundary':
        for i in range(nth):
            for j in range(ntw):
                if r.random() >= cfg['p_empty']:
                    live[i * th:(i + 1) * th, j * tw:(j + 1) * tw] = True
    else:
        # few live tiles: the corner tile (partial in both directions when neither size divides) with probability 3/4, plus
        # 0-2 others drawn with a preference for the last tile row / column
        tiles = [(i, j) for i in range(nth) for j in range(ntw)]
        weights = [1 + 3 * (i == nth - 1) + 3 * (j == ntw - 1) for (i, j) in tiles]
        chosen = set()
        if r.random() < 0.75:
            chosen.add((nth - 1, ntw - 1))
        for _ in range(r.choice([0, 1, 1, 2])):
            chosen.add(r.choices(tiles, weights)[0])
        if not chosen:
            chosen.add(r.choice(tiles))
        for (i, j) in chosen:
            if mode == 'few-single-pixel':
                ii = r.randrange(i * th, min(R, (i + 1) * th))
                jj = r.randrange(j * tw, min(C, (j + 1) * tw))
                live[ii, jj] = True
            else:
                live[i * th:(i + 1) * th, j * tw:(j + 1) * tw] = True
    if cfg['all_empty']:
        live[:] = False
    few = mode != 'bernoulli' and cfg['style'] != 'quantisation-boundary'
    if cfg['style'] == 'labelmap':
        lab = nr.integers(0, n, size=(R, C), endpoint=True) * (nr.random((R, C)) < 0.6) * live
        if few:     # every live pixel carries a label (a single live pixel must not come out as background)
            lab = np.where(live & (lab == 0), nr.integers(1, n, size=(R, C), endpoint=True), lab)
        E = {s: (lab == s).astype(np.int64) for s in range(1, n + 1)}
        if cfg['type'] == 'FRACTIONAL':
            E = {s: e * (cfg.get('mfv') or 255) for s, e in E.items()}
        arr = lab.astype(np.uint8)[None]
    elif cfg['style'] == 'quantisation-boundary':
        # every tile is empty except for at most a few pixels whose fraction f = v * mfv sits around the quantisation boundaries:
        # f in (0, 0.5) -> stored 0 (tile may stay empty), f = 0.5 -> 0 (ties to even), f in (0.5, 1) -> 1, f = 1.5 -> 2, f = 2.5 -> 2.
        # Power-of-two mfv make v * mfv exact; for the others only fractions clear of a half are used.
        mfv = cfg.get('mfv') or 255
        exact = mfv in (8, 16)
        fr = [0.25, 0.5, 0.75, 1.0, 1.5, 2.5, float(mfv)] if exact else [0.2, 0.3, 0.7, 0.8, 1.0, 1.2, 2.7, float(mfv)]
        f = np.zeros((R, C, n), dtype=np.float64)
        for i in range(nth):
            for j in range(ntw):
                for s in range(n):
                    if r.random() < 0.55:
                        ii = min(R - 1, i * th + r.randrange(th))
                        jj = min(C - 1, j * tw + r.randrange(tw))
                        f[ii, jj, s] = r.choice(fr)
        if cfg['all_empty']:
            f[:] = 0
        arr = (f / float(mfv)).astype(cfg.get('float_dtype', 'float64'))[None]
        # what must be stored (and read back raw): the fraction rounded half to even, per pixel, as the library computes it
        stored = np.around(arr[0].astype(arr.dtype) * float(mfv)).astype(np.int64)
        E = {s: stored[..., s - 1] for s in range(1, n + 1)}
    else:
        if cfg['type'] == 'FRACTIONAL':
            mfv = cfg.get('mfv') or 255
            k = nr.integers(0, mfv, size=(R, C, n), endpoint=True) * (nr.random((R, C, n)) < 0.5) * live[..., None]
            if few:
                forced = np.eye(n, dtype=np.int64)[nr.integers(0, n, size=(R, C))] * live[..., None]
                k = np.where((forced > 0) & (k == 0), nr.integers(1, mfv, size=(R, C, n), endpoint=True), k)
            arr = (k / float(mfv)).astype(np.float64)[None]
            E = {s: k[..., s - 1].astype(np.int64) for s in range(1, n + 1)}
        else:
            k = (nr.random((R, C, n)) < 0.4) * live[..., None]
            if few:
                k = k | ((np.eye(n, dtype=np.int64)[nr.integers(0, n, size=(R, C))] * live[..., None]) > 0)
            arr = k.astype(np.uint8)[None]
            E = {s: k[..., s - 1].astype(np.int64) for s in range(1, n + 1)}
    return arr, E


def _refused_call(r, kind, typ, segs, R, C):
    """keyword arguments of a `get_total_pixel_matrix` call the library refuses BY DESIGN; every kind except the last is refused
    after the frame look-up (temporary channel table) has been set up, i.e. inside the context manager"""
    n = len(segs)
    if kind == 'combine-bool':                # bool cannot represent label 2
        return dict(combine_segments=True, dtype=np.bool_)
    if kind == 'combine-no-rescale':          # FRACTIONAL: combining needs rescaling
        return dict(combine_segments=True, rescale_fractional=False)
    if kind == 'rescaled-int-dtype':          # FRACTIONAL: rescaled fractions need a float dtype
        return dict(rescale_fractional=True, dtype=np.uint8)
    if kind == 'unknown-segment':
        return dict(segment_numbers=list(segs) + [n + 1] if r.random() < 0.5 else [n + 1], rescale_fractional=False)
    if kind == 'duplicate-segment':
        s_ = r.choice(segs)
        return dict(segment_numbers=[s_, s_] + ([x for x in segs if x != s_] if r.random() < 0.5 else []), rescale_fractional=False)
    if kind == 'duplicate-segment-combined':
        s_ = r.choice(segs)
        return dict(segment_numbers=[x for x in segs if x != s_] + [s_, s_], combine_segments=True, relabel=r.random() < 0.5)
    if kind == 'bad-dtype':
        return dict(dtype=r.choice([np.complex64, 'U1']), rescale_fractional=False)
    if kind == 'palette-without-combine':
        return dict(apply_palette_color_lut=True, rescale_fractional=False)
    if kind == 'region-out-of-range':         # refused BEFORE the look-up is set up
        return dict(row_start=R + 1 + r.randrange(3), rescale_fractional=False)
    raise KeyError(kind)


def _chan_data(segment_numbers, combine, relabel):
    """rows of the temporary channel table a segment-aware read creates: (output channel index or label, segment number)"""
    sn = [int(x) for x in segment_numbers]
    if combine:
        keys = list(range(1, len(sn) + 1)) if relabel else sn
    else:
        keys = list(range(len(sn)))
    return [[k, s_] for k, s_ in zip(keys, sn)]


def _temp_table_rows(reader):
    """the temporary channel table in the image's SQLite connection right now: None (absent) or its rows (private state, L2)"""
    try:
        con = reader._db_con
        if next(con.execute("SELECT COUNT(*) FROM sqlite_master WHERE type = 'table' AND name = 'TemporaryChannelTable0'"))[0] == 0:
            return None
        return [[int(a), int(b)] for a, b in con.execute('SELECT * FROM TemporaryChannelTable0')]
    except Exception as e:  # noqa: BLE001
        return 'unreadable: ' + type(e).__name__


def _seg_history(ctx, cfg, reader, E, segs, R, C, base_hist, reqs=None, pending=None, full=False):
    """A HISTORY of operations on ONE tiled segmentation object: `pixel_array` accessed at a random step (after which the decoded
    frames are cached and later reads work on views of that cache), region reads with different options -- stacked / combined
    (with and without relabel), raw / rescaled fractions, other dtypes -- for all segments or a SUBSET of them in any order, in
    random order, identical reads repeated, and calls that are REFUSED by design in between (most of them refused only after the
    temporary channel table of the frame look-up has been created, which then survives until the next read).  After EVERY step: the
    result against the oracle, the cached frames and PixelData unchanged, repeated reads equal."""
    r = ctx.rng('seghist', cfg['idx'])
    mfv = cfg.get('mfv') or 255
    typ = cfg['type']
    binaryish = all(set(np.unique(E[s]).tolist()) <= {0, mfv if typ == 'FRACTIONAL' else 1} for s in segs)
    lazy = cfg['roundtrip'] and cfg.get('entry') == 'segread-lazy'
    cache = None
    seen = {}
    refusals = ['combine-bool', 'unknown-segment', 'duplicate-segment', 'duplicate-segment-combined', 'bad-dtype',
                'palette-without-combine', 'region-out-of-range']
    if typ == 'FRACTIONAL':
        refusals += ['combine-no-rescale', 'combine-no-rescale', 'rescaled-int-dtype', 'rescaled-int-dtype']
    if len(segs) == 1:
        refusals = [k for k in refusals if k != 'combine-bool']     # bool represents label 1
    use_model = reqs is not None
    lm = typ == 'LABELMAP'                    # a label map is read without a channel table: `labelmap` steps of the state machine
    # does the caller hold on to the exceptions of refused calls for the rest of the history (their tracebacks keep the frames of the
    # failed read, and whatever those frames own, alive)?
    keep = cfg['idx'] % 2 == 0
    del KEPT_EXCEPTIONS[:]
    if keep:
        KEPT_EXCEPTIONS.append('keep')
    base_hist = dict(base_hist, exceptions_kept=keep)
    msteps, mimpl, mcases = [], [], []
    steps = ['pixel_array'] + [r.choice(['stacked', 'stacked', 'combined', 'combined', 'combined-relabel', 'rescaled', 'dtype', 'subset',
                                         'refused', 'refused', 'refused'])
                               for _ in range(ctx.n(7, 10))]
    r.shuffle(steps)
    after_refusal = None
    for step_no, step in enumerate(steps):
        if step == 'pixel_array':
            if lazy:
                continue
            st, pa = _fetch(lambda: reader.pixel_array)
            if st == 'ok' and cache is None:
                cache = np.array(pa, copy=True)
            ctx.case(request_class='history:pixel_array', outcome='ok' if st == 'ok' else pa.split(':')[0], **base_hist)
            continue
        if step == 'refused':
            kind = r.choice(refusals)
            kw = _refused_call(r, kind, typ, segs, R, C)
            # the refused call, too, may come through the other accessor of a region (Segmentation.get_volume, tiled branch)
            via_volume = r.random() < 0.3
            st, val = _fetch(reader.get_volume if via_volume else reader.get_total_pixel_matrix, **kw)
            ctx.case(request_class='history:refused:' + kind, outcome='ok' if st == 'ok' else val.split(':')[0],
                     history_accessor='get_volume' if via_volume else 'get_total_pixel_matrix', **base_hist)
            if st == 'ok' and kind == 'region-out-of-range':
                ctx.fail({'seg': cfg, 'history_step': step_no, 'steps': steps[:step_no + 1], 'refused_call': kind},
                         {'what': 'request outside the matrix was not refused'}, site='Segmentation.get_total_pixel_matrix')
            if st == 'err':
                after_refusal = kind
            # repeated segment numbers are refused before any query is made (/repo 4662006): such a call does not reach the state machine
            if use_model and not kind.startswith('duplicate-segment'):
                sn = kw.get('segment_numbers', segs)
                msteps.append({'data': [] if lm else _chan_data(sn, kw.get('combine_segments', False), kw.get('relabel', False)),
                               'nch': 1 if lm else len(sn), 'request': [[kw.get('row_start'), None, None, None, False]],
                               'refuses': kind != 'region-out-of-range', 'labelmap': lm})
                mimpl.append({'state': _temp_table_rows(reader), 'result': None, 'outcome': 'ok' if st == 'ok' else val.split(':')[0]})
                mcases.append({'seg': cfg, 'history_step': step_no, 'steps': steps[:step_no + 1], 'refused_call': kind})
            continue
        req = random_requests(r, R, C, cfg['th'], cfg['tw'], 1)[0] if r.random() < 0.7 else (None, None, None, None, False)
        if not modelable(req):
            continue
        rs, re, cs, ce, ai = req
        orc = oracle_region(R, C, req)
        # segment subset: all, or a proper subset in any order (a read directly after a refused call: mostly a smaller subset)
        p_sub = 0.8 if after_refusal else 0.4
        if len(segs) > 1 and (step == 'subset' or r.random() < p_sub):
            sub = r.sample(segs, r.randint(1, len(segs) - 1))
            if r.random() < 0.5:
                sub.sort()
        else:
            sub = list(segs)
            if len(sub) > 1 and r.random() < 0.3:
                r.shuffle(sub)          # all segments, in another order than stored
        disjoint = int(np.sum([(E[s] > 0) for s in sub], axis=0).max()) <= 1
        kw = dict(segment_numbers=sub, as_indices=ai)
        if step in ('combined', 'combined-relabel'):
            kw.update(combine_segments=True, relabel=(step == 'combined-relabel'))
        elif step == 'rescaled':
            kw.update(combine_segments=False, rescale_fractional=True)
        elif step == 'dtype':
            kw.update(combine_segments=False, rescale_fractional=False, dtype=r.choice([np.uint16, np.int32, np.float64]))
        else:
            kw.update(combine_segments=False, rescale_fractional=False)
        # a third of the non-empty reads go through Segmentation.get_volume (its own tiled branch: the request is normalised to 0-based
        # indices, handed to get_total_pixel_matrix as indices; the array gets a leading axis of length 1)
        via_volume = orc[0] == 'ok' and orc[1] < orc[2] and orc[3] < orc[4] and r.random() < 0.33
        if via_volume:
            st, val = _fetch(lambda: np.asarray(reader.get_volume(row_start=rs, row_end=re, column_start=cs, column_end=ce, **kw).array)[0])
        else:
            st, val = _fetch(reader.get_total_pixel_matrix, row_start=rs, row_end=re, column_start=cs, column_end=ce, **kw)
        case = {'seg': cfg, 'history_step': step_no, 'steps': steps[:step_no + 1], 'request': list(req), 'segments': sub,
                'after_refused_call': after_refusal, 'accessor': 'get_volume' if via_volume else 'get_total_pixel_matrix'}
        if use_model:
            combine = step in ('combined', 'combined-relabel')
            data = _chan_data(sub, combine, step == 'combined-relabel')
            refuses = False
            if orc[0] == 'ok':
                reg = [E[s_][orc[1]:orc[2], orc[3]:orc[4]] for s_ in sub]
                if combine:
                    # refused by design inside the `with` block: overlapping requested segments / non-binary fractions in the region
                    refuses = bool(reg[0].size and ((np.sum([g > 0 for g in reg], axis=0).max() > 1) or
                                                    (typ == 'FRACTIONAL' and any(((g != 0) & (g != mfv)).any() for g in reg))))
                elif step == 'rescaled' and typ == 'FRACTIONAL' and reg[0].size == 0:
                    refuses = True          # `out_array.max()` of an empty array raises inside the block
            if lm:
                data, refuses = [], False       # no table; overlap / binary-fraction refusals do not exist for label maps
            msteps.append({'data': data, 'nch': 1 if lm else (max(k for k, _ in data) + 1) if combine else len(sub), 'request': [list(req)],
                           'refuses': refuses, 'labelmap': lm})
            raw = st == 'ok' and step in ('stacked', 'subset', 'dtype')
            mimpl.append({'state': _temp_table_rows(reader), 'outcome': 'ok' if st == 'ok' else val.split(':')[0],
                          'result': [np.asarray(val)[..., k].astype(np.int64).tolist() for k in range(len(sub))] if raw else None,
                          'shape': list(np.asarray(val).shape[:2]) if raw else None})
            mcases.append(case)
        ctx.case(request_class='history:' + step, outcome='ok' if st == 'ok' else val.split(':')[0],
                 history_subset=('all' if len(sub) == len(segs) else 'subset') + ('-sorted' if sub == sorted(sub) else '-permuted'),
                 history_after=('refused:' + after_refusal) if after_refusal else 'read',
                 history_accessor='get_volume' if via_volume else 'get_total_pixel_matrix', **base_hist)
        designed_refusal = False
        key = (tuple(req), step, tuple(sub), str(kw.get('dtype')))
        # ---- oracle for this step
        if orc[0] == 'refuse':
            if st == 'ok':
                ctx.fail(case, {'what': 'request outside the matrix was not refused'}, site='Segmentation.get_total_pixel_matrix')
        elif st == 'ok' and orc[1] < orc[2] and orc[3] < orc[4]:
            r0, r1, c0, c1 = orc[1:]
            got = np.asarray(val)
            if step in ('combined', 'combined-relabel'):
                exp = np.zeros((r1 - r0, c1 - c0), dtype=np.int64)
                for pos, s_ in enumerate(sub, 1):
                    exp[E[s_][r0:r1, c0:c1] > 0] = pos if step == 'combined-relabel' else s_
                ok = got.shape == exp.shape and np.array_equal(got.astype(np.int64), exp)
            elif step == 'rescaled' and typ == 'FRACTIONAL':
                exp = np.stack([E[s_][r0:r1, c0:c1] for s_ in sub], axis=-1) / float(mfv)
                ok = got.shape == exp.shape and np.allclose(got, exp, rtol=0, atol=1e-6)
            else:
                exp = np.stack([E[s_][r0:r1, c0:c1] for s_ in sub], axis=-1)
                ok = got.shape == exp.shape and np.array_equal(got.astype(np.int64), exp)
            if not ok:
                ctx.fail(case, {'what': 'a read in a history of reads on one object differs from the mask handed in',
                                'got': got.tolist() if got.size <= 48 else '...', 'want': exp.tolist() if exp.size <= 48 else '...'},
                         site='Segmentation.get_total_pixel_matrix')
        elif st == 'err' and orc[0] == 'ok' and orc[1] < orc[2] and orc[3] < orc[4]:
            # combining is refused by design for overlapping segments (of the requested subset) or non-binary fractions
            designed_refusal = step in ('combined', 'combined-relabel') and (not disjoint or not binaryish)
            if not designed_refusal:
                ctx.fail(case, {'what': 'valid read refused in a history of reads on one object', 'error': val},
                         site='Segmentation.get_total_pixel_matrix')
        after_refusal = ('designed:' + step) if (st == 'err' and designed_refusal) else None if st == 'ok' else after_refusal
        # ---- repeated identical reads agree
        if st == 'ok':
            if key in seen and not (np.asarray(val).shape == seen[key].shape and np.array_equal(np.asarray(val), seen[key])):
                ctx.fail(case, {'what': 'an identical read repeated later on the same object gives another result'},
                         site='Segmentation.get_total_pixel_matrix')
            seen.setdefault(key, np.array(val, copy=True))
        # ---- reading must not touch the cached decoded frames
        if cache is not None:
            st2, pa = _fetch(lambda: reader.pixel_array)
            if st2 != 'ok' or not np.array_equal(np.asarray(pa), cache):
                ctx.fail(case, {'what': 'a region read modified the cached pixel_array of the segmentation'},
                         site='Segmentation.get_total_pixel_matrix')
                cache = np.array(pa, copy=True) if st2 == 'ok' else None
    del KEPT_EXCEPTIONS[:]
    if use_model and msteps:
        mats = [E[s_].tolist() for s_ in segs]
        msegs = list(segs)
        if lm:      # stored as ONE matrix of labels, channel 0
            mats, msegs = [sum(s_ * E[s_] for s_ in segs).tolist()], [0]
        reqs.append(('segHistory', {'matrices': mats, 'segments': msegs, 'rows': R, 'cols': C, 'th': cfg['th'], 'tw': cfg['tw'],
                                    'full': bool(full), 'omit_empty': bool(cfg['omit_empty']), 'steps': msteps, 'exceptions_kept': bool(keep)}))
        pending.append(('history', mcases, mimpl, 'L0', 'history of segment-aware reads'))


def _check_seg(ctx, cfg, reqs, pending):
    import highdicom as hd
    import pydicom
    from gen.sources import seg_description, slide_image
    R, C, th, tw, n = cfg['R'], cfg['C'], cfg['th'], cfg['tw'], cfg['nseg']
    src, _ = slide_image(R, C, cfg['src_tile'][0], cfg['src_tile'][1], tiled_full=cfg['src_full'])
    arr, E = _seg_mask(ctx, cfg)
    handed = with_layout(arr, cfg.get('layout', 'C'))
    if not np.array_equal(handed, arr):
        ctx.fail({'seg': cfg}, 'harness error: layout change altered the values', site='oracle')
    kw = {}
    if cfg['org'] is not None:
        # both spellings of the option: the string and the enum member
        kw['dimension_organization_type'] = cfg['org'] if cfg.get('org_spelling', 'str') == 'str' else \
            hd.DimensionOrganizationTypeValues(cfg['org'])
    if cfg['tile'] is not None:
        sp = cfg.get('tile_spelling', 'tuple')
        kw['tile_size'] = tuple(cfg['tile']) if sp == 'tuple' else list(cfg['tile']) if sp == 'list' else \
            tuple(getattr(np, sp[3:])(v) for v in cfg['tile'])
    if cfg.get('mfv'):
        kw['max_fractional_value'] = cfg['mfv']
    pool = None
    if cfg.get('codec', 'native') == 'rle':
        kw['transfer_syntax_uid'] = '1.2.840.10008.1.2.5'
        if cfg.get('workers', 0) == 'thread-pool':
            from concurrent.futures import ThreadPoolExecutor
            pool = ThreadPoolExecutor(2)
            kw['workers'] = pool
        else:
            kw['workers'] = cfg.get('workers', 0)
    st, seg = _fetch(hd.seg.Segmentation, [src], handed, cfg['type'], [seg_description(s) for s in range(1, n + 1)],
                     hd.UID(), 1, hd.UID(), 1, 'verif', 'model', '1', 'dev', tile_pixel_array=True,
                     omit_empty_frames=cfg['omit_empty'], **kw)
    if pool is not None:
        pool.shutdown()
    # TILED_FULL with omit_empty_frames is refused -- unless the whole mask is empty (omit_empty_frames is then switched off first)
    expect_refusal = cfg['org'] == 'TILED_FULL' and cfg['omit_empty'] and any(e.any() for e in E.values())
    full = cfg['org'] == 'TILED_FULL'
    base_hist = dict(kind='seg', seg_type=cfg['type'], organisation=str(cfg['org']), omit_empty=cfg['omit_empty'],
                     tile=f'{th}x{tw}', divides=(R % th == 0, C % tw == 0), style=cfg['style'], layout=cfg.get('layout', 'C'),
                     max_fractional_value=str(cfg.get('mfv')), float_dtype=cfg.get('float_dtype') if cfg['style'] == 'quantisation-boundary' else 'n/a',
                     org_spelling=cfg.get('org_spelling', 'str'), remainder=(min(R % th, 2), min(C % tw, 2)),
                     tile_spelling=cfg.get('tile_spelling', 'tuple') if cfg['tile'] is not None else 'default',
                     entry=cfg.get('entry', 'segread') if cfg['roundtrip'] else 'constructor',
                     live_tiles=cfg.get('live_mode', 'bernoulli') if cfg['style'] != 'quantisation-boundary' else 'n/a',
                     frame_encoding=cfg.get('codec', 'native') + ('/workers=' + str(cfg.get('workers', 0)) if cfg.get('codec') == 'rle' else ''))
    segs = list(range(1, n + 1))
    mats = [E[s].tolist() for s in segs]
    # the bottom-right corner tile: partial in both directions / one / none, and does it hold anything; how many tiles hold anything
    anyseg = np.sum([E[s] != 0 for s in segs], axis=0) > 0
    nth_, ntw_ = -(-R // th), -(-C // tw)
    live_tiles = sum(bool(anyseg[i * th:(i + 1) * th, j * tw:(j + 1) * tw].any()) for i in range(nth_) for j in range(ntw_))
    base_hist['corner_tile'] = (('partial-both' if R % th and C % tw else 'partial-one' if R % th or C % tw else 'whole') + '/' +
                                ('live' if anyseg[(nth_ - 1) * th:, (ntw_ - 1) * tw:].any() else 'empty') + '/' +
                                ('only' if live_tiles == 1 else 'few' if live_tiles <= 3 else 'many') + '-live-tiles')
    if st == 'err':
        ctx.case(outcome='constructor:' + seg.split(':')[0], request_class='construct', **base_hist)
        if not expect_refusal:
            ctx.fail({'seg': cfg}, {'what': 'Segmentation(tile_pixel_array=True) refused a valid mask', 'error': seg},
                     site='Segmentation.__init__')
        if expect_refusal:
            reqs.append(('tileThenRead', {'matrices': mats, 'segments': segs, 'rows': R, 'cols': C, 'th': th, 'tw': tw, 'full': True,
                                          'omit_empty': True, 'chans': segs[:1], 'requests': [[None, None, None, None, False]]}))
            pending.append(('refusal', {'seg': cfg}, ('err', seg), 'L0', 'TILED_FULL with omit_empty_frames'))
        return
    if expect_refusal:
        ctx.note(f'TILED_FULL with omit_empty_frames and a non-empty mask was accepted for {cfg} (not a property failure; the model comparison reports it)')
    bio0 = io.BytesIO()
    seg.save_as(bio0)
    if cfg['roundtrip']:
        entry = cfg.get('entry', 'segread')
        if entry == 'Segmentation.from_dataset':
            st2, seg2 = _fetch(lambda: hd.seg.Segmentation.from_dataset(pydicom.dcmread(io.BytesIO(bio0.getvalue()))))
        elif entry == 'segread-lazy':
            st2, seg2 = _fetch(hd.seg.segread, io.BytesIO(bio0.getvalue()), lazy_frame_retrieval=True)
        else:
            st2, seg2 = _fetch(hd.seg.segread, io.BytesIO(bio0.getvalue()))
        if st2 == 'err':
            ctx.fail({'seg': cfg}, {'what': 'written tiled segmentation could not be read', 'error': seg2}, site='segread')
            return
        reader = seg2
    else:
        reader = seg
    # ---- L1: what was stored (through pydicom)
    nfr = int(seg.NumberOfFrames)
    stored_org = seg.get('DimensionOrganizationType')
    if stored_org == 'TILED_FULL':
        stored_lut = None
    else:
        stored_lut = []
        for k, f in enumerate(seg.PerFrameFunctionalGroupsSequence):
            pp = f.PlanePositionSlideSequence[0]
            ch = 0 if cfg['type'] == 'LABELMAP' else int(f.SegmentIdentificationSequence[0].ReferencedSegmentNumber)
            stored_lut.append([int(pp.RowPositionInTotalImagePixelMatrix), int(pp.ColumnPositionInTotalImagePixelMatrix), k, ch])
    st3, pa = _fetch(lambda: pydicom.dcmread(io.BytesIO(bio0.getvalue())).pixel_array)
    stored_frames = None
    if st3 == 'ok':
        pa = np.asarray(pa)
        pa = pa.reshape((nfr, th, tw)) if pa.ndim == 2 else pa
        stored_frames = pa.astype(np.int64)
    # model of the constructor: per segment matrices as they are stored (label map: one matrix with labels)
    if cfg['type'] == 'LABELMAP':
        lab = sum(s * E[s] for s in segs)
        cmats, csegs = [lab.tolist()], [0]
    else:
        cmats, csegs = mats, segs
    reqs.append(('cutSegments', {'matrices': cmats, 'segments': csegs, 'rows': R, 'cols': C, 'th': th, 'tw': tw,
                                 'omit_empty': cfg['omit_empty']}))
    pending.append(('stored', {'seg': cfg}, {'org': stored_org, 'nfr': nfr, 'lut': stored_lut,
                                             'frames': stored_frames.tolist() if stored_frames is not None else None,
                                             'full': full}, 'L1', 'stored frames'))
    if (str(seg.SOPClassUID), (int(seg.TotalPixelMatrixRows), int(seg.TotalPixelMatrixColumns)), (int(seg.Rows), int(seg.Columns))) != \
            (str(seg.SOPClassUID), (R, C), (th, tw)):
        ctx.fail({'seg': cfg}, {'what': 'stored matrix / tile size differ from the request',
                                'stored': [int(seg.TotalPixelMatrixRows), int(seg.TotalPixelMatrixColumns), int(seg.Rows), int(seg.Columns)]},
                 site='Segmentation.__init__')
    # ---- reads
    r = ctx.rng('segreq', cfg['idx'])
    requests = [(None, None, None, None, False)] + random_requests(r, R, C, th, tw, ctx.n(5, 8))
    subsets = [segs]
    if n > 1:
        sub = sorted(r.sample(segs, r.randint(1, n - 1)))
        if r.random() < 0.5:
            sub.reverse()
        subsets.append(sub)
    impls, cases = [], []
    mreq_requests, mreq_chans = [], []
    snap = (bytes(reader.PixelData), int(reader.NumberOfFrames)) if not (cfg['roundtrip'] and cfg.get('entry') == 'segread-lazy') else None
    ssp, isp = cfg.get('segnum_spelling', 'list'), cfg.get('int_spelling', 'int')
    first_ok = None
    for req in requests:
        rs, re, cs, ce, ai = req
        orc = oracle_region(R, C, req)
        for sub in subsets:
            sub_arg = list(sub) if ssp == 'list' else tuple(sub) if ssp == 'tuple' else np.array(sub)
            st, val = _fetch(reader.get_total_pixel_matrix, row_start=spell_int(rs, isp), row_end=spell_int(re, isp),
                             column_start=spell_int(cs, isp), column_end=spell_int(ce, isp),
                             segment_numbers=sub_arg, combine_segments=False, rescale_fractional=False, as_indices=ai)
            if st == 'ok' and first_ok is None:
                first_ok = (req, sub, np.array(val, copy=True))
            case = {'seg': cfg, 'request': list(req), 'segments': sub}
            cls = 'refuse' if orc[0] == 'refuse' else 'empty' if (orc[1] == orc[2] or orc[3] == orc[4]) else 'region'
            nontriv = None
            if cls == 'region':
                r0, r1, c0, c1 = orc[1:]
                exp = np.stack([E[s][r0:r1, c0:c1] for s in sub], axis=-1)
                if st == 'ok' and exp.min() != exp.max():
                    formkey = tuple('n' if v is None else '-' if v < 0 else '+' for v in req[:4])  # only reached for accepted integer requests
                    nontriv = ('seg', cfg['type'], str(cfg['org']), cfg['omit_empty'], R, C, th, tw, r0 % th, r1 % th, c0 % tw, c1 % tw,
                               ai, formkey, tuple(sub))
            ctx.case(sample=case if (cls == 'region' and ctx.evaluations % 211 == 0) else None, nontrivial_key=nontriv,
                     request_class=cls, outcome='ok' if st == 'ok' else val.split(':')[0], convention='0-based' if ai else '1-based',
                     subset='all' if sub == segs else 'subset', roundtrip=cfg['roundtrip'], **base_hist)
            if cls == 'refuse':
                if st == 'ok':
                    ctx.fail(case, {'what': 'request outside the matrix was not refused', 'returned_shape': list(np.asarray(val).shape)},
                             site='Segmentation.get_total_pixel_matrix')
            else:
                r0, r1, c0, c1 = orc[1:]
                exp = np.stack([E[s][r0:r1, c0:c1] for s in sub], axis=-1)
                if st == 'ok':
                    got = np.asarray(val)
                    if got.shape != exp.shape or not np.array_equal(got.astype(np.int64), exp):
                        ctx.fail(case, {'what': 'mask region read back differs from the mask handed in', 'got_shape': list(got.shape),
                                        'want_shape': list(exp.shape), 'got': got.astype(np.int64).tolist() if got.size <= 64 else '...',
                                        'want': exp.tolist() if exp.size <= 64 else '...'}, site='Segmentation.get_total_pixel_matrix')
                elif cls == 'region':
                    ctx.fail(case, {'what': 'valid region refused', 'error': val}, site='Segmentation.get_total_pixel_matrix')
            if not modelable(req):
                continue            # oracle only
            if st == 'ok':
                got = np.asarray(val).astype(np.int64)
                impls.append([('ok', {'shape': list(got.shape[:2]), 'data': got[..., k].tolist()}) for k in range(len(sub))])
            else:
                impls.append([('err', val)] * len(sub))
            cases.append(case)
            mreq_requests.append(list(req))
            mreq_chans.append(sub)
    if first_ok is not None:
        rs, re, cs, ce, ai = first_ok[0]
        st, val = _fetch(reader.get_total_pixel_matrix, row_start=rs, row_end=re, column_start=cs, column_end=ce,
                         segment_numbers=first_ok[1], combine_segments=False, rescale_fractional=False, as_indices=ai)
        ctx.case(request_class='repeat-read', outcome='ok' if st == 'ok' else val.split(':')[0], **base_hist)
        if st != 'ok' or not np.array_equal(np.asarray(val), first_ok[2]):
            ctx.fail({'seg': cfg, 'request': list(first_ok[0]), 'segments': first_ok[1], 'repeat_after': len(cases)},
                     {'what': 'the same read repeated on the same object after other reads gives another result'},
                     site='Segmentation.get_total_pixel_matrix')
    _seg_history(ctx, cfg, reader, E, segs, R, C, base_hist, reqs, pending, full)
    if snap is not None and (bytes(reader.PixelData), int(reader.NumberOfFrames)) != snap:
        ctx.fail({'seg': cfg}, {'what': 'reading regions modified the segmentation'}, site='Segmentation.get_total_pixel_matrix')
    if not np.array_equal(handed, arr):
        ctx.note('constructor changed the array handed in (C20) for ' + str(cfg['idx']))
    # model: one request per (segment subset) group
    for sub in subsets:
        idxs = [i for i, c in enumerate(mreq_chans) if c == sub]
        if cfg['type'] == 'LABELMAP':
            # a label map is stored as one matrix of labels (channel 0); segment s is read back as (label == s)
            reqs.append(('tileThenRead', {'matrices': cmats, 'segments': csegs, 'rows': R, 'cols': C, 'th': th, 'tw': tw, 'full': full,
                                          'omit_empty': cfg['omit_empty'], 'chans': [0], 'requests': [mreq_requests[i] for i in idxs]}))
            pending.append(('labelmap', [cases[i] for i in idxs], [impls[i] for i in idxs], 'L0', sub))
        else:
            reqs.append(('tileThenRead', {'matrices': mats, 'segments': segs, 'rows': R, 'cols': C, 'th': th, 'tw': tw, 'full': full,
                                          'omit_empty': cfg['omit_empty'], 'chans': sub, 'requests': [mreq_requests[i] for i in idxs]}))
            pending.append(('chans', [cases[i] for i in idxs], [impls[i] for i in idxs], 'L0', sub))


# ------------------------------------------------------------------------------------------ stream C: helpers
def _helper_rowcol(ctx, reqs, pending):
    from highdicom.image import _Image
    f = getattr(_Image, '_standardize_row_column_indices', None)
    if f is None:
        ctx.note('L2 helper _standardize_row_column_indices not found; skipped')
        return
    sizes = [(1, 1), (3, 2), (5, 5)] if ctx.tier == 'quick' else [(1, 1), (1, 4), (2, 3), (3, 2), (5, 5), (7, 4)]
    r = ctx.rng('rowcol', 0)
    for rows, cols in sizes:
        rv = [None] + list(range(-rows - 3, rows + 4))
        cv = [None] + list(range(-cols - 3, cols + 4))
        combos = [(a, b, None, None) for a in rv for b in rv] + [(None, None, a, b) for a in cv for b in cv]
        combos += [(r.choice(rv), r.choice(rv), r.choice(cv), r.choice(cv)) for _ in range(ctx.n(150, 1500))]
        for (a, b, c, d) in combos:
            for ai in (False, True):
                oi = r.random() < 0.5
                st, val = _fetch(f, a, b, c, d, rows=rows, columns=cols, as_indices=ai, outputs_as_indices=oi)
                impl = ('ok', [int(x) for x in val]) if st == 'ok' else ('err', val)
                reqs.append(('stdRowCol', {'rs': a, 're': b, 'cs': c, 'ce': d, 'rows': rows, 'cols': cols, 'as_indices': ai, 'out_idx': oi}))
                pending.append(('one', {'helper': '_standardize_row_column_indices', 'args': [a, b, c, d, rows, cols, ai, oi]}, impl, 'L2',
                                'row/column normalisation'))
                # the helper against the independent reading of the arguments (not a region oracle: start > end is legal here)
                den = [denote(a, rows, ai, False), denote(b, rows, ai, True), denote(c, cols, ai, False), denote(d, cols, ai, True)]
                ok = all(x is not None for x in den)
                ctx.case(kind='helper', request_class='rowcol', outcome='ok' if st == 'ok' else 'refused')
                if ok != (st == 'ok') or (ok and [x + (0 if oi else 1) for x in den] != impl[1]):
                    ctx.disagree('L2', {'helper': '_standardize_row_column_indices', 'args': [a, b, c, d, rows, cols, ai, oi]}, impl,
                                 ('ok', [x + (0 if oi else 1) for x in den]) if ok else ('err', 'refuse'),
                                 'row/column normalisation vs Python slice reading')
    ctx.exhaustive.append('_standardize_row_column_indices: per axis every (start, end) in {None} + -n-3..n+3, both conventions, '
                          f'for sizes {sizes}')


def _public_escalation(ctx):
    """An L2 disagreement on the normalisation helper is replayed through the public API on a small image."""
    import highdicom as hd
    from gen.sources import slide_image
    for d in list(ctx.l2_disagreements):
        c = d['case']
        if not isinstance(c, dict) or c.get('helper') != '_standardize_row_column_indices':
            continue
        a, b, cc, dd, rows, cols, ai, _ = c['args']
        cfg = dict(idx=-1, R=rows, C=cols, th=2, tw=2, full=True, samples=1, bits=8, omit=[], order=None)
        ds, tpm = slide_image(rows, cols, 2, 2, tiled_full=True)
        im = hd.Image.from_dataset(ds, copy=False)
        req = (a, b, cc, dd, ai)
        orc = oracle_region(rows, cols, req)
        st, val = _fetch(im.get_total_pixel_matrix, row_start=a, row_end=b, column_start=cc, column_end=dd, as_indices=ai)
        case = {'slide': cfg, 'request': list(req), 'escalated_from': 'L2'}
        if orc[0] == 'refuse' and st == 'ok':
            ctx.fail(case, {'what': 'request outside the matrix was not refused', 'returned_shape': list(np.asarray(val).shape)},
                     site='Image.get_total_pixel_matrix')
        elif orc[0] == 'ok' and st == 'ok':
            exp = tpm[orc[1]:orc[2], orc[3]:orc[4]]
            if np.asarray(val).shape != exp.shape or not np.array_equal(np.asarray(val).astype(np.int64), exp.astype(np.int64)):
                ctx.fail(case, {'what': 'region differs from numpy slice of the total pixel matrix'}, site='Image.get_total_pixel_matrix')
        elif orc[0] == 'ok' and st == 'err' and orc[1] < orc[2] and orc[3] < orc[4]:
            ctx.fail(case, {'what': 'valid region refused', 'error': val}, site='Image.get_total_pixel_matrix')
        # the other public accessor that hands the same four arguments to the same helper (outputs_as_indices=True)
        gv = getattr(im, 'get_volume', None)
        if gv is not None:
            st, vol = _fetch(gv, row_start=a, row_end=b, column_start=cc, column_end=dd, as_indices=ai)
            case = {'slide': cfg, 'request': list(req), 'escalated_from': 'L2', 'accessor': 'get_volume'}
            if st == 'ok':
                arr = np.asarray(vol.array)
                arr = arr[0] if arr.ndim >= 3 else arr
                if orc[0] == 'refuse':
                    ctx.fail(case, {'what': 'request outside the matrix was not refused', 'returned_shape': list(arr.shape)},
                             site='Image.get_volume')
                else:
                    exp = tpm[orc[1]:orc[2], orc[3]:orc[4]]
                    if arr.shape[:2] != exp.shape[:2] or not np.array_equal(arr.astype(np.int64), exp.astype(np.int64)):
                        ctx.fail(case, {'what': 'region differs from numpy slice of the total pixel matrix', 'returned_shape': list(arr.shape),
                                        'want_shape': list(exp.shape)}, site='Image.get_volume')


# ------------------------------------------------------------------------------------------ run
def _model(ctx, reqs):
    """the driver is an interpreted `lean --run` over oleans other builds may be replacing at that moment: retry before giving up"""
    import time
    for attempt in range(3):
        answers = ctx.model(reqs)
        if answers is not None:
            return answers
        ctx.note(f'model driver failed (attempt {attempt + 1}); retrying')
        time.sleep(15 * (attempt + 1))
        ctx.model_available = True
    ctx.model_available = False
    return None


def _settle(ctx, reqs, pending):
    answers = _model(ctx, reqs)
    if answers is None:
        return
    for (kind, case, impl, layer, what), ans in zip(pending, answers):
        if 'proto_err' in ans:
            ctx.disagree(layer, case if isinstance(case, dict) else {'cases': case[:1]}, None, ans, f'{what}: model protocol error')
            continue
        if kind == 'one':
            mod = ('ok', ans['ok']) if 'ok' in ans else ('err', ans['err'])
            if impl[0] != mod[0]:
                ctx.disagree(layer, case, impl, mod, f'{what}: ok-vs-error')
            elif impl[0] == 'ok' and impl[1] != mod[1]:
                ctx.disagree(layer, case, impl, mod, f'{what}: value')
        elif kind == 'multi':
            if 'ok' not in ans:
                ctx.disagree(layer, {'cases': case[:1]}, None, ans, f'{what}: model refused the image')
                continue
            for c, im, a in zip(case, impl, ans['ok']):
                _cmp_model(ctx, layer, c, im, a, what)
        elif kind in ('chans', 'labelmap'):
            sub = what
            if 'ok' not in ans:
                ctx.disagree(layer, {'cases': case[:1]}, None, ans, 'tileThenRead: model refused')
                continue
            for c, ims, arow in zip(case, impl, ans['ok']):
                if kind == 'chans':
                    for im, a in zip(ims, arow):
                        _cmp_model(ctx, layer, c, im, a, 'Segmentation.get_total_pixel_matrix')
                else:
                    a = arow[0]
                    for s, im in zip(sub, ims):
                        if 'ok' in a:
                            lab = np.asarray(a['ok']['data'], dtype=np.int64).reshape(a['ok']['shape'])
                            a_s = {'ok': {'shape': a['ok']['shape'], 'data': (lab == s).astype(np.int64).tolist()}}
                        else:
                            a_s = a
                        _cmp_model(ctx, layer, c, im, a_s, 'Segmentation.get_total_pixel_matrix (label map)')
        elif kind == 'history':
            if 'ok' not in ans:
                ctx.disagree(layer, {'cases': case[:1]}, None, ans, 'segHistory: model refused the segmentation')
                continue
            for c, im, res, stt in zip(case, impl, ans['ok']['results'], ans['ok']['states']):
                # L2 (private state): the temporary channel table left in the connection after the step
                if im['state'] != stt:
                    ctx.disagree('L2', c, im['state'], stt, 'temporary channel table after a step of a history of reads')
                # L0: accepted vs refused, and the stacked result channel by channel
                if (im['outcome'] == 'ok') != ('ok' in res):
                    ctx.disagree(layer, c, im['outcome'], res if 'err' in res else 'ok', 'history of reads: ok-vs-error')
                elif im['result'] is not None and 'ok' in res:
                    ctx.hist('history_results_compared_with_model', c.get('seg', {}).get('type'))
                    mod = [ch['ok']['data'] if 'ok' in ch else ch for ch in res['ok']]
                    shapes = [ch['ok']['shape'] for ch in res['ok'] if 'ok' in ch]
                    if c.get('seg', {}).get('type') == 'LABELMAP' and len(mod) == 1 and isinstance(mod[0], list):
                        # the model returns the stored labels; segment s is read back as (label == s), one channel per requested segment
                        lab = np.asarray(mod[0], dtype=np.int64).reshape(shapes[0])
                        mod = [(lab == s_).astype(np.int64).tolist() for s_ in c['segments']]
                        shapes = shapes * len(mod)
                    if mod != im['result'] or any(sh != im['shape'] for sh in shapes):
                        ctx.disagree(layer, c, im['result'] if len(str(im['result'])) < 1500 else '...',
                                     mod if len(str(mod)) < 1500 else '...', 'history of reads: stacked result')
        elif kind == 'refusal':
            a = ans['ok'][0][0] if 'ok' in ans else ans
            if 'err' not in a:
                ctx.disagree(layer, case, impl, 'model accepts', what)
        elif kind == 'stored':
            if 'ok' not in ans:
                ctx.disagree(layer, case, impl, ans, 'constructor accepted, model refuses')
                continue
            m = ans['ok']
            if impl['nfr'] != len(m['frames']):
                ctx.disagree(layer, case, impl['nfr'], len(m['frames']), 'NumberOfFrames')
                continue
            if impl['lut'] is not None and impl['lut'] != m['lut']:
                ctx.disagree(layer, case, impl['lut'], m['lut'], 'per-frame tile positions / segment numbers')
            if impl['frames'] is not None:
                mf = m['frames']
                got = impl['frames']
                if got != mf:
                    ctx.disagree(layer, case, got if len(str(got)) < 2000 else '...', mf if len(str(mf)) < 2000 else '...', 'stored frame pixels')


def _exhaustive_configs(ctx):
    """(R, th) x (C, tw) coverings for the exhaustive region enumeration"""
    if ctx.tier == 'quick':
        return [dict(R=4, C=5, th=2, tw=3, pure=False), dict(R=5, C=3, th=3, tw=1, pure=False)]
    # every (matrix size <= 7, tile size <= 6) pair on each axis; tile sizes above the matrix size add nothing new on that axis
    rows = [(R, th) for R in range(1, 8) for th in range(1, 7) if th <= R + 1]
    out = []
    for rep in range(2):        # two independent pairings of the row axis list with the column axis list
        r = ctx.rng('exh', rep)
        cols = rows[:]
        r.shuffle(cols)
        out += [dict(R=a[0], th=a[1], C=b[0], tw=b[1], pure=(rep == 0)) for a, b in zip(rows, cols)]
    return out


def _corpus(ctx, reqs, pending):
    """minimised past failures (corpus/C04/*.json) run first on every run"""
    import glob
    import json
    import os
    root = os.path.join(os.path.dirname(os.path.dirname(os.path.dirname(os.path.abspath(__file__)))), 'corpus', 'C04')
    for f in sorted(glob.glob(os.path.join(root, '*.json'))):
        c = json.load(open(f))['case']
        if 'slide' in c:
            _check_slide(ctx, c['slide'], [tuple(q) for q in c['requests']], reqs, pending)
        elif 'seg' in c:
            _check_seg(ctx, c['seg'], reqs, pending)


def _n(ctx, quick, thorough, cap):
    """budget for this tier; the x10 of the failing-input search is capped so that a thorough search stays inside the time limit"""
    return min(ctx.n(quick, thorough), 4 * quick if ctx.tier == 'quick' else cap)


def run(ctx):
    reqs, pending = [], []
    _corpus(ctx, reqs, pending)
    _helper_rowcol(ctx, reqs, pending)
    _settle(ctx, reqs, pending)
    if ctx.l2_disagreements:
        _public_escalation(ctx)
    reqs, pending = [], []
    # exhaustive region enumeration on small matrices
    for k, e in enumerate(_exhaustive_configs(ctx)):
        r = ctx.rng('exhreq', k)
        full = k % 2 == 0
        order = None
        if not full:
            nt = (-(-e['R'] // e['th'])) * (-(-e['C'] // e['tw']))
            order = list(range(nt))
            r.shuffle(order)
        cfg = dict(idx=100000 + k, R=e['R'], C=e['C'], th=e['th'], tw=e['tw'], full=full, samples=1, bits=8, omit=[], order=order)
        _check_slide(ctx, cfg, exhaustive_requests(r, e['R'], e['C'], pure_forms=e['pure']), reqs, pending, exhaustive=True)
        ctx.exhaustive.append(f"all regions of {e['R']}x{e['C']} tiled {e['th']}x{e['tw']} "
                              + ('in 1-based, 0-based, negative and a mixed form ' if e['pure'] else 'in a mixed form ') +
                              f"({'TILED_FULL' if full else 'TILED_SPARSE, permuted frames'}) + every per-axis start/end in -n-3..n+3")
        if len(reqs) > 200:
            _settle(ctx, reqs, pending)
            reqs, pending = [], []
    # random slide images
    for idx in range(_n(ctx, 100, 900, 5000)):
        cfg = _slide_config(ctx, idx)
        r = ctx.rng('slidereq', idx)
        # every read decodes each touched frame through pydicom (~1 ms per frame): fewer requests for images with many frames
        nframes = (-(-cfg['R'] // cfg['th'])) * (-(-cfg['C'] // cfg['tw']))
        nreq = max(8, min(ctx.n(24, 36), 1200 // nframes))
        _check_slide(ctx, cfg, random_requests(r, cfg['R'], cfg['C'], cfg['th'], cfg['tw'], nreq), reqs, pending)
        if len(reqs) > 200:
            _settle(ctx, reqs, pending)
            reqs, pending = [], []
    for idx in range(_n(ctx, 8, 100, 300)):
        _check_duplicates(ctx, idx, reqs, pending)
    # tiled segmentations
    for idx in range(_n(ctx, 150, 1500, 9000)):
        cfg = _seg_config(ctx, idx)
        _check_seg(ctx, cfg, reqs, pending)
        if len(reqs) > 200:
            _settle(ctx, reqs, pending)
            reqs, pending = [], []
    _settle(ctx, reqs, pending)


def replay(ctx, case):
    """Re-run one stored case on the implementation -> failure detail or None."""
    sub = type(ctx)(ctx.prop, ctx.tier, ctx.seed, 1, ctx.driver)
    if 'slide' in case and case.get('escalated_from'):
        a, b, c, d, ai = case['request']
        sub.l2_disagreements.append({'case': {'helper': '_standardize_row_column_indices',
                                              'args': [a, b, c, d, case['slide']['R'], case['slide']['C'], ai, False]}})
        _public_escalation(sub)
    elif 'slide' in case:
        _check_slide(sub, case['slide'], [tuple(case['request'])], [], [])
    elif 'seg' in case:
        _check_seg(sub, case['seg'], [], [])
    elif case.get('helper') == '_standardize_row_column_indices':
        _helper_rowcol(sub, [], [])
    return sub.failures[:3] or None
