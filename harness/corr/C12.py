"""C12  All tiling helpers describe one and the same tiling.

Tie T: T6 (get_tile_array bounds/padding), T7a (tile counts of tile_pixel_matrix: int(np.ceil(n / t))), T7b (tile counts of
compute_tile_positions_per_frame: (n - 1) // t + 1), T7c (offsets of compute_plane_position_tiled_full), T7d (the two loop
bodies, the initial values and the range arguments of are_plane_positions_tiled_full), T7e (z origin of a focal plane in
iter_tiled_full_frame_data; its loop nest, channel lists, call and yield are pinned textually), T7f (the islice by which
_get_spatial_information takes the position of frame k from that iteration), regenerated on every run.
Tie C (L0, public functions): the hand-written enumerations around them (Model/Tiling.lean) against
spatial.tile_pixel_matrix, spatial.compute_tile_positions_per_frame, spatial.get_tile_array,
spatial.iter_tiled_full_frame_data, PixelToReferenceTransformer.for_image(image, frame_number=k) / for_total_pixel_matrix=True
(the per-frame transformers behind which _get_spatial_information sits), utils.compute_plane_position_tiled_full,
utils.compute_plane_position_slide_per_frame,
utils.are_plane_positions_tiled_full -- EXHAUSTIVELY for all matrix and tile sizes 1..24 per dimension in the thorough tier
(1..10 in quick).
Oracle (independent of the model): the row-major grid written down directly (tiles start at 1 + k * tile size), painted
into a count array (every matrix pixel exactly once); every helper must describe that grid; positions must be the affine
image of the 0-based offsets; cut-and-paste must reproduce the zero-padded matrix; the full-tiling test must accept the
grid and reject every permuted / incomplete list that is not itself a grid.
"""
from __future__ import annotations

import itertools
from fractions import Fraction
from types import SimpleNamespace

import numpy as np

PROP = 'C12'
TARGETS = ['T3', 'T5', 'T6', 'T7a', 'T7b', 'T7c', 'T7d', 'T7e', 'T7f', 'T7g', 'T7h', 'T7i', 'T7j', 'T7k', 'T7l', 'T7m']
LEAN_MODULES = ['HdVerif.Props.C12']
MODEL_MODULES = ['HdVerif.Model.TilingJson', 'HdVerif.Model.TilingSlideJson']
NAMESPACE = 'HdVerif.C12'
DRIVER = 'Drivers/C12.lean'
RULE = ('one case = one helper evaluated on one (matrix rows, matrix columns, tile rows, tile columns[, geometry, channels, focal '
        'planes, position list]); every size combination in the stated range is enumerated; non-trivial = more than one tile '
        'and at least one axis not divided by its tile size, distinct by (helper, sizes, geometry class)')
ASSUMPTIONS = [
    'geometry values are dyadic rationals (exact in float64) with signed-permutation orientations, so positions are compared exactly; '
    '3-4-5 rotations are compared with relative tolerance 2^-40',
    'PixelToReferenceTransformer / map_pixel_into_coordinate_system are the affine map origin + column*spacing[1]*row_direction + '
    'row*spacing[0]*column_direction (C10 proves that; here it is exercised on every case)',
    'tile sizes and matrix sizes are >= 1 (0 divides by zero in the code; negative sizes are outside the property)',
    'tile_pixel_matrix computes n / t in float64, the translated definition over exact rationals: they agree for sizes below 2^52 '
    '(tile_pixel_matrix(2**53 + 1, 1, 2**52, 1) has 2 tiles, compute_tile_positions_per_frame 3); sizes generated here are <= 24, '
    'so wrap-around of numpy integer spellings (np.uint8(200) + np.uint8(100)) is out of reach of this check as well',
]
ASSUMPTIONS += [
    'compute_plane_position_tiled_full accepts slice_index <= 0 (z = (slice_index - 1) * spacing; the regenerated planePositionZ says the same); '
    'generated slice indices are 1..planes',
    'SOP-class / non-TILED_FULL refusals and the TotalPixelMatrixFocalPlanes default of iter_tiled_full_frame_data are checked by the oracle only '
    '(stream options-and-refusals); the number of segments / optical paths is an input of the model (channels)',
    'injectivity of tile -> physical position is proved over exact rationals; float positions of distinct tiles may coincide for spacings below '
    'the float resolution of the origin (not generated)',
]
MODELLED_NOT_VERIFIED = ['numpy meshgrid / stack / reshape ordering', 'itertools.product ordering', 'np.pad',
                         'PlanePositionSequence attribute storage', 'PixelToReferenceTransformer (affine map, C10)']

ORIENTATIONS = [(1, 0, 0, 0, 1, 0), (0, -1, 0, -1, 0, 0), (0, 1, 0, 1, 0, 0), (-1, 0, 0, 0, -1, 0), (0, 0, 1, 1, 0, 0), (0, 1, 0, 0, 0, -1)]
INEXACT_ORIENTATIONS = [(0.6, 0.8, 0, -0.8, 0.6, 0), (0.8, 0.0, 0.6, 0.0, 1.0, 0.0)]


LAYOUTS = ['C', 'F', 'transposed-view', 'strided-view', 'negative-stride', 'read-only']


def with_layout(a, layout):
    """the same values in another memory layout"""
    a = np.asarray(a)
    if layout == 'F':
        return np.asfortranarray(a)
    if layout == 'transposed-view':
        return np.ascontiguousarray(np.moveaxis(a, -1, 0)).transpose(*range(1, a.ndim), 0) if a.ndim > 1 else a
    if layout == 'strided-view':
        big = np.zeros(tuple(2 * n for n in a.shape), dtype=a.dtype)
        sl = tuple(slice(0, None, 2) for _ in a.shape)
        big[sl] = a
        return big[sl]
    if layout == 'negative-stride':
        sl = tuple(slice(None, None, -1) for _ in a.shape)
        return np.ascontiguousarray(a[sl])[sl]
    if layout == 'read-only':
        b = a.copy()
        b.flags.writeable = False
        return b
    return np.ascontiguousarray(a)


def grid(R, C, tr, tc):
    """the row-major grid, stated directly: (row position, column position), 1-based"""
    return [(1 + tr * i, 1 + tc * j) for i in range(-(-R // tr)) for j in range(-(-C // tc))]


def enum_preview(spatial, R, C, tr, tc):
    try:
        return [list(map(int, x)) for x in list(spatial.tile_pixel_matrix(R, C, tr, tc))[:8]]
    except Exception as e:  # noqa: BLE001
        return repr(e)


def paint_ok(R, C, tr, tc, g):
    cnt = np.zeros((R, C), dtype=np.int64)
    for (r, c) in g:
        if r < 1 or c < 1 or r > R or c > C:
            return False
        cnt[r - 1:r - 1 + tr, c - 1:c - 1 + tc] += 1
    return bool((cnt == 1).all())


def _fetch(fn, *a, **k):
    try:
        return ('ok', fn(*a, **k))
    except Exception as e:  # noqa: BLE001
        return ('err', type(e).__name__ + ': ' + str(e)[:120])


def frac(x):
    f = Fraction(float(x))
    return str(f.numerator) if f.denominator == 1 else f'{f.numerator}/{f.denominator}'


def geo_for(r, exact=True):
    ori = r.choice(ORIENTATIONS if exact else INEXACT_ORIENTATIONS)
    org = (r.randint(-64, 64) / 8.0, r.randint(-64, 64) / 4.0, 0.0)
    sp = (r.choice([0.5, 0.25, 1.0, 2.0, 0.125, 1.5]), r.choice([0.5, 0.25, 1.0, 2.0, 0.375]))
    return org, ori, sp


def geo_json(org, ori, sp, z=0.0):
    return [frac(org[0]), frac(org[1]), frac(z)] + [frac(x) for x in ori] + [frac(sp[0]), frac(sp[1])]


def affine(org, ori, sp, cidx, ridx, z=0.0):
    o = np.array(ori, dtype=float)
    return (np.array([org[0], org[1], z], dtype=float) + cidx * sp[1] * o[:3] + ridx * sp[0] * o[3:]).tolist()


def close(a, b, exact):
    if exact:
        return [Fraction(float(x)) for x in a] == [Fraction(float(x)) for x in b]
    return all(abs(float(x) - float(y)) <= 2.0 ** -40 * max(1.0, abs(float(x)), abs(float(y))) for x, y in zip(a, b))


def rat(s):
    return Fraction(s) if isinstance(s, str) else Fraction(s)


def _pp(r, c):
    return [SimpleNamespace(RowPositionInTotalImagePixelMatrix=r, ColumnPositionInTotalImagePixelMatrix=c)]


# ------------------------------------------------------------------------------------------ exhaustive sizes
def _sizes(ctx, reqs, pending):
    from highdicom import spatial, utils
    N = 10 if ctx.tier == 'quick' else 24
    if ctx.search_mode:
        N = 24
    import glob
    import json
    import os
    corpus = []
    root = os.path.join(os.path.dirname(os.path.dirname(os.path.dirname(os.path.abspath(__file__)))), 'corpus', 'C12')
    for f in sorted(glob.glob(os.path.join(root, '*.json'))):
        corpus += [tuple(x) for x in json.load(open(f)).get('sizes', [])]
    corpus = [x for x in corpus if max(x) > N]      # the others are enumerated anyway
    ctx.exhaustive.append(f'tile_pixel_matrix, compute_tile_positions_per_frame, are_plane_positions_tiled_full, get_tile_array '
                          f'(cut and paste): every (matrix rows, matrix columns, tile rows, tile columns) in 1..{N} per dimension')
    k = 0
    for R, C, tr, tc in itertools.chain(corpus, itertools.product(range(1, N + 1), repeat=4)):
        k += 1
        g = grid(R, C, tr, tc)
        case = {'sizes': [R, C, tr, tc]}
        multi = len(g) > 1 and (R % tr or C % tc)
        r = ctx.rng('geo', (R * 31 + C) * 977 + tr * 31 + tc)
        org, ori, sp = geo_for(r)
        # the grid itself: painted exactly once (validates the oracle's own statement of the grid, cheap)
        if k % 7 == 0 and not paint_ok(R, C, tr, tc, g):
            ctx.fail(case, 'oracle grid does not cover the matrix exactly once (harness error)', site='oracle')
        # spelling of the arguments: Python / numpy integers, tuple / list / ndarray sequences
        isp = ('int', 'int', 'np.int64', 'np.int32', 'np.uint8')[k % 5]
        I = {'int': int, 'np.int64': np.int64, 'np.int32': np.int32, 'np.uint8': np.uint8}[isp]    # noqa: E741
        ssp = ('tuple', 'list', 'ndarray')[k % 3]
        S = {'tuple': tuple, 'list': list, 'ndarray': lambda x: np.array(x, dtype=float)}[ssp]
        # ---- tile_pixel_matrix
        st, val = _fetch(lambda: list(spatial.tile_pixel_matrix(I(R), I(C), I(tr), I(tc))))
        ctx.case(helper='tile_pixel_matrix', nontrivial_key=('tpm', R, C, tr, tc) if multi else None,
                 sample={'helper': 'tile_pixel_matrix', 'sizes': [R, C, tr, tc], 'result': enum_preview(spatial, R, C, tr, tc)} if (multi and k % 9973 == 0) else None,
                 tiles=min(len(g), 50), divides=(R % tr == 0, C % tc == 0))
        if st == 'err':
            ctx.fail(case, {'helper': 'tile_pixel_matrix', 'error': val}, site='tile_pixel_matrix')
            enum = None
        else:
            enum = [[int(c), int(r_)] for (c, r_) in val]
            if [((r_ - 1) * tr + 1, (c - 1) * tc + 1) for c, r_ in enum] != g:
                ctx.fail(case, {'helper': 'tile_pixel_matrix', 'what': 'tile indices do not enumerate the row-major grid',
                                'got': enum[:12], 'tiles_expected': len(g)}, site='tile_pixel_matrix')
        reqs.append(('tileIndexEnum', {'R': R, 'C': C, 'tr': tr, 'tc': tc}))
        pending.append((case, 'tile_pixel_matrix', ('ok', enum) if enum is not None else ('err', val), 'plain'))
        # ---- compute_tile_positions_per_frame
        st, val = _fetch(spatial.compute_tile_positions_per_frame, I(tr), I(tc), I(R), I(C), S(org), S(ori), S(sp))
        ctx.case(helper='compute_tile_positions_per_frame', nontrivial_key=('ctp', R, C, tr, tc) if multi else None,
                 orientation=str(ori), int_spelling=isp, sequence_spelling=ssp, remainder=(min(R % tr, 2), min(C % tc, 2)),
                 square_tile=(tr == tc))
        offs = None
        if st == 'err':
            ctx.fail(case, {'helper': 'compute_tile_positions_per_frame', 'error': val}, site='compute_tile_positions_per_frame')
            impl = ('err', val)
        else:
            offs = [(int(o[1]), int(o[0])) for o, _ in val]
            if offs != g:
                ctx.fail(case, {'helper': 'compute_tile_positions_per_frame', 'what': 'offsets are not the row-major grid',
                                'got': offs[:12], 'tiles_expected': len(g)}, site='compute_tile_positions_per_frame')
            else:
                for (o, p) in val:
                    if not close(p, affine(org, ori, sp, o[0] - 1, o[1] - 1), True):
                        ctx.fail(case, {'helper': 'compute_tile_positions_per_frame', 'what': 'position is not the transform of the offset',
                                        'offset': o, 'position': p, 'geometry': [org, ori, sp]}, site='compute_tile_positions_per_frame')
                        break
            impl = ('ok', [[int(o[0]), int(o[1])] + [frac(x) for x in p] for o, p in val])
        reqs.append(('tilePositions', {'R': R, 'C': C, 'tr': tr, 'tc': tc, 'geo': geo_json(org, ori, sp)}))
        pending.append((case, 'compute_tile_positions_per_frame', impl, 'positions'))
        # ---- are_plane_positions_tiled_full on the grid, a permutation and an incomplete list
        variants = [('grid', g)]
        if len(g) > 1:
            i, j = sorted(r.sample(range(len(g)), 2))
            p = list(g)
            p[i], p[j] = p[j], p[i]
            variants.append(('swapped', p))
            d = r.randrange(len(g))
            variants.append(('dropped', g[:d] + g[d + 1:]))
            if r.random() < 0.3:
                variants.append(('reversed', g[::-1]))
            if r.random() < 0.3:
                variants.append(('duplicated', g + [g[-1]]))
            # prefix-truncated lists: without the last tile (the largest row AND column position are still present when the
            # grid has more than one row and column), without the last tile row, a random proper prefix
            variants.append(('prefix-minus-one', g[:-1]))
            nC_ = -(-C // tc)
            if len(g) > nC_:
                variants.append(('prefix-minus-last-row', g[:len(g) - nC_]))
            if r.random() < 0.5:
                variants.append(('prefix-random', g[:r.randint(1, len(g) - 1)]))
            # lists of exactly the right length that list one tile TWICE and omit another (sorted order kept), and near misses
            i_ = r.randrange(1, len(g))
            variants.append(('duplicate-replaces-omitted', g[:i_] + [g[i_ - 1]] + g[i_ + 1:]))
            variants.append(('first-duplicated', [g[0], g[0]] + g[2:]))
            variants.append(('last-duplicated', g[:-2] + [g[-1], g[-1]]))
            j_ = r.randrange(len(g) - 1)
            variants.append(('neighbours-swapped', g[:j_] + [g[j_ + 1], g[j_]] + g[j_ + 2:]))
            k_ = r.randrange(len(g))
            axis = r.randrange(2)
            off = list(g[k_])
            off[axis] += r.choice([1, -1]) if off[axis] > 1 else 1
            variants.append(('off-grid-by-one', g[:k_] + [tuple(off)] + g[k_ + 1:]))
            if r.random() < 0.2:
                variants.append(('suffix', g[1:]))
                variants.append(('column-major', sorted(g, key=lambda x: (x[1], x[0]))))
        for name, lst in variants:
            st, val = _fetch(utils.are_plane_positions_tiled_full, [_pp(a, b) for a, b in lst], I(tr), I(tc))
            ctx.case(helper='are_plane_positions_tiled_full', variant=name,
                     nontrivial_key=('tf', name, R, C, tr, tc) if multi else None)
            # what the predicate must say: the list is the row-major grid of SOME matrix with these tiles
            mr = max((a for a, _ in lst), default=-1)
            mc = max((b for _, b in lst), default=-1)
            want = lst == [(a, b) for a in range(1, mr + 1, tr) for b in range(1, mc + 1, tc)]
            # stated independently of max(): some numbers of tile rows/columns reproduce the list
            want2 = any(lst == [(1 + tr * a, 1 + tc * b) for a in range(nr) for b in range(nc)]
                        for nr in range(0, len(lst) + 1) for nc in ([len(lst) // nr] if nr and len(lst) % nr == 0 else [0] if not nr else []))
            if want != want2:
                ctx.fail(case, 'oracle disagreement on what a grid is (harness error)', site='oracle')
            if st == 'err':
                ctx.fail({**case, 'variant': name}, {'helper': 'are_plane_positions_tiled_full', 'error': val}, site='are_plane_positions_tiled_full')
            elif bool(val) != want2:
                ctx.fail({**case, 'variant': name, 'positions': lst[:40]},
                         {'helper': 'are_plane_positions_tiled_full', 'returned': bool(val), 'list_is_a_grid': want2},
                         site='are_plane_positions_tiled_full')
            reqs.append(('arePlanePositionsTiledFull', {'positions': [list(x) for x in lst], 'rows': tr, 'cols': tc}))
            pending.append(({**case, 'variant': name}, 'are_plane_positions_tiled_full', ('ok', bool(val)) if st == 'ok' else ('err', val), 'plain'))
        # ---- cut and paste with get_tile_array (oracle on every combination, model on a sample)
        M = ((np.arange(R * C, dtype=np.int64).reshape(R, C) * 7 + 3) % 251) + 1
        nR, nC = -(-R // tr), -(-C // tc)
        out = np.full((nR * tr, nC * tc), -1, dtype=np.int64)
        bad = None
        # the library's own composition (as in the Segmentation constructor): cut at the offsets compute_tile_positions_per_frame lists
        for (ro, co) in (offs if offs is not None else g):
            st, t = _fetch(spatial.get_tile_array, M, ro, co, tr, tc)
            if st == 'err' or t.shape != (tr, tc):
                bad = {'row_offset': ro, 'column_offset': co, 'result': t if st == 'err' else list(t.shape)}
                break
            if ro - 1 + tr > out.shape[0] or co - 1 + tc > out.shape[1]:
                bad = {'row_offset': ro, 'column_offset': co, 'result': 'tile outside the padded matrix'}
                break
            out[ro - 1:ro - 1 + tr, co - 1:co - 1 + tc] = t
        ctx.case(helper='get_tile_array', nontrivial_key=('cut', R, C, tr, tc) if multi else None)
        want = np.zeros_like(out)
        want[:R, :C] = M
        if bad is not None:
            ctx.fail(case, {'helper': 'get_tile_array', 'what': 'tile could not be cut or has the wrong shape', **bad}, site='get_tile_array')
        elif not np.array_equal(out, want):
            ctx.fail(case, {'helper': 'get_tile_array', 'what': 'pasting the tiles back does not reproduce the zero-padded matrix'},
                     site='get_tile_array')
        if max(R, C) <= 6 or k % 97 == 0:
            reqs.append(('cutPaste', {'M': M.tolist(), 'R': R, 'C': C, 'tr': tr, 'tc': tc}))
            pending.append((case, 'get_tile_array cut and paste',
                            ('ok', {'shape': list(out.shape), 'data': out.tolist()}) if bad is None else ('err', str(bad)), 'plain'))
        if len(reqs) > 40000:
            _settle(ctx, reqs, pending)
            reqs.clear()
            pending.clear()


# ------------------------------------------------------------------------------------------ get_tile_array: every offset
def _tile_offsets(ctx, reqs, pending):
    from highdicom import spatial
    n = ctx.n(60, 1500)
    for idx in range(n):
        r = ctx.rng('tile', idx)
        R, C, tr, tc = r.randint(1, 7), r.randint(1, 7), r.randint(1, 6), r.randint(1, 6)
        extra = r.choice([(), (), (3,), (2, 2)])          # trailing dimensions are retained
        M = ctx.np_rng('tilepix', idx).integers(1, 200, size=(R, C) + extra, dtype=np.int64)
        layout = r.choice(LAYOUTS)
        Ml = with_layout(M, layout)
        isp = r.choice(['int', 'np.int64', 'np.int32', 'np.uint8'])
        I = {'int': int, 'np.int64': np.int64, 'np.int32': np.int32, 'np.uint8': np.uint8}[isp]    # noqa: E741
        snapshot = M.copy()
        for ro in range(0, R + 2):
            for co in range(0, C + 2):
                st, t = _fetch(spatial.get_tile_array, Ml, I(ro), I(co), I(tr), I(tc))
                valid = 1 <= ro <= R and 1 <= co <= C
                ctx.case(helper='get_tile_array/offset', offset_valid=valid, layout=layout, extra_dims=len(extra), int_spelling=isp,
                         nontrivial_key=('tile', R, C, tr, tc, ro, co) if valid and (ro - 1 + tr > R or co - 1 + tc > C) else None)
                case = {'sizes': [R, C, tr, tc], 'row_offset': ro, 'column_offset': co, 'tile_idx': idx, 'layout': layout,
                        'extra_dims': list(extra), 'int_spelling': isp}
                if valid:
                    want = np.zeros((tr, tc) + extra, dtype=np.int64)
                    sub = M[ro - 1:ro - 1 + tr, co - 1:co - 1 + tc]
                    want[:sub.shape[0], :sub.shape[1]] = sub
                    if st == 'err' or not np.array_equal(np.asarray(t), want):
                        ctx.fail(case, {'helper': 'get_tile_array', 'what': 'tile differs from the zero-padded slice',
                                        'got': t if st == 'err' else np.asarray(t).tolist(), 'want': want.tolist()}, site='get_tile_array')
                elif st == 'ok':
                    ctx.fail(case, {'helper': 'get_tile_array', 'what': 'offset outside the matrix accepted', 'shape': list(np.asarray(t).shape)},
                             site='get_tile_array')
                # model: pixels are opaque, so the trailing dimensions are folded into one integer per pixel
                def fold(a):
                    a = np.asarray(a, dtype=np.int64)
                    a = a.reshape(a.shape[:2] + (-1,))
                    return sum(a[..., q] * (256 ** q) for q in range(a.shape[2]))
                reqs.append(('getTileArray', {'M': fold(M).tolist(), 'R': R, 'C': C, 'ro': ro, 'co': co, 'tr': tr, 'tc': tc}))
                pending.append((case, 'get_tile_array', ('ok', {'shape': list(np.asarray(t).shape[:2]), 'data': fold(t).tolist()}) if st == 'ok' else ('err', t), 'plain'))
        if not np.array_equal(M, snapshot) or not np.array_equal(Ml, snapshot):
            ctx.fail({'sizes': [R, C, tr, tc], 'tile_idx': idx, 'layout': layout}, 'get_tile_array modified the array handed in', site='get_tile_array')


# ------------------------------------------------------------------------------------------ options and refusals of the helpers
def _options_and_refusals(ctx):
    """Branches outside the grid arithmetic (oracle only): get_tile_array(pad=False), the three length checks of
    compute_tile_positions_per_frame, exactly one of slice_index / spacing_between_slices in compute_plane_position_tiled_full,
    iter_tiled_full_frame_data on a non-TILED_FULL image / another SOP class / without TotalPixelMatrixFocalPlanes."""
    from highdicom import spatial, utils
    from gen.sources import slide_image
    for idx in range(ctx.n(20, 200)):
        r = ctx.rng('opt', idx)
        R, C, tr, tc = r.randint(1, 7), r.randint(1, 7), r.randint(1, 6), r.randint(1, 6)
        M = ctx.np_rng('optpix', idx).integers(1, 200, size=(R, C), dtype=np.int64)
        ro, co = r.randint(1, R), r.randint(1, C)
        st, t = _fetch(spatial.get_tile_array, M, ro, co, tr, tc, pad=False)
        ctx.case(helper='get_tile_array(pad=False)')
        want = M[ro - 1:ro - 1 + tr, co - 1:co - 1 + tc]
        if st == 'err' or np.asarray(t).shape != want.shape or not np.array_equal(np.asarray(t), want):
            ctx.fail({'sizes': [R, C, tr, tc], 'row_offset': ro, 'column_offset': co, 'pad': False},
                     {'helper': 'get_tile_array', 'what': 'pad=False does not return the plain slice', 'got': t if st == 'err' else np.asarray(t).tolist()},
                     site='get_tile_array')
        org, ori, sp = geo_for(r)
        for name, args in [('position-length', (org[:2], ori, sp)), ('orientation-length', (org, ori[:5], sp)), ('spacing-length', (org, ori, sp + (1.0,)))]:
            st, val = _fetch(spatial.compute_tile_positions_per_frame, tr, tc, R, C, *args)
            ctx.case(helper='compute_tile_positions_per_frame/refusal', variant=name)
            if st == 'ok':
                ctx.fail({'sizes': [R, C, tr, tc], 'variant': name}, {'helper': 'compute_tile_positions_per_frame', 'what': 'argument of the wrong length accepted'},
                         site='compute_tile_positions_per_frame')
        for kw in (dict(slice_index=2), dict(spacing_between_slices=1.5)):
            st, val = _fetch(utils.compute_plane_position_tiled_full, 1, 1, org[0], org[1], tr, tc, ori, sp, **kw)
            ctx.case(helper='compute_plane_position_tiled_full/refusal', variant=next(iter(kw)))
            if st == 'ok':
                ctx.fail({'sizes': [R, C, tr, tc], 'kwargs': list(kw)}, {'helper': 'compute_plane_position_tiled_full',
                         'what': 'only one of slice_index / spacing_between_slices accepted'}, site='compute_plane_position_tiled_full')
        ds, _ = slide_image(R, C, tr, tc, tiled_full=True, origin=org, pixel_spacing=sp, orientation=ori)
        variant = r.choice(['sparse', 'other-sop-class', 'no-organisation', 'no-focal-planes-attribute'])
        if variant == 'sparse':
            ds.DimensionOrganizationType = 'TILED_SPARSE'
        elif variant == 'other-sop-class':
            ds.SOPClassUID = '1.2.840.10008.5.1.4.1.1.2'
        elif variant == 'no-organisation':
            del ds.DimensionOrganizationType
        else:
            del ds.TotalPixelMatrixFocalPlanes
        st, val = _fetch(lambda: list(spatial.iter_tiled_full_frame_data(ds)))
        ctx.case(helper='iter_tiled_full_frame_data/' + variant)
        if variant == 'no-focal-planes-attribute':
            g = grid(R, C, tr, tc)
            if st == 'err' or [(x[0], x[1], x[3], x[2]) for x in val] != [(1, 1, a, b) for a, b in g]:
                ctx.fail({'sizes': [R, C, tr, tc], 'variant': variant}, {'helper': 'iter_tiled_full_frame_data',
                         'what': 'an absent TotalPixelMatrixFocalPlanes is not read as one focal plane', 'got': val if st == 'err' else len(val)},
                         site='iter_tiled_full_frame_data')
        elif st == 'ok':
            ctx.fail({'sizes': [R, C, tr, tc], 'variant': variant}, {'helper': 'iter_tiled_full_frame_data', 'what': 'image that is not TILED_FULL accepted'},
                     site='iter_tiled_full_frame_data')
        # ---- explicit positions: the per-frame transformer of an image that is NOT TILED_FULL (organisation TILED_SPARSE, or the optional
        #      attribute absent) takes the frame's position from the per-frame functional groups -- which must be the transform of the
        #      frame's own pixel matrix position, i.e. the same tiling the TILED_FULL helpers describe
        ds2, _ = slide_image(R, C, tr, tc, tiled_full=False, origin=org, pixel_spacing=sp, orientation=ori)
        attr = r.choice(['TILED_SPARSE', 'absent'])
        if attr == 'absent':
            del ds2.DimensionOrganizationType
        nfr = int(ds2.NumberOfFrames)
        for k_ in sorted(set([1, nfr, r.randint(1, nfr)])):
            stT, T = _fetch(spatial.PixelToReferenceTransformer.for_image, ds2, frame_number=k_)
            ctx.case(helper='PixelToReferenceTransformer.for_image(frame_number)/explicit-positions', organisation_attribute=attr)
            cT = {'sizes': [R, C, tr, tc], 'variant': 'explicit-positions/' + attr, 'frame_number': k_}
            if stT == 'err':
                ctx.fail(cT, {'helper': 'for_image(frame_number)', 'error': T}, site='_get_spatial_information')
                continue
            pp = ds2.PerFrameFunctionalGroupsSequence[k_ - 1].PlanePositionSlideSequence[0]
            cpos, rpos = int(pp.ColumnPositionInTotalImagePixelMatrix), int(pp.RowPositionInTotalImagePixelMatrix)
            pt = np.asarray(T(np.array([[0, 0]])), dtype=float)[0]
            if (rpos, cpos) != grid(R, C, tr, tc)[k_ - 1] or not close(pt, affine(org, ori, sp, cpos - 1, rpos - 1, org[2] if len(org) > 2 else 0.0), False):
                ctx.fail(cT, {'helper': 'for_image(frame_number)', 'what': 'frame of an image with explicit positions is not put on its tile',
                              'origin_of_frame': pt.tolist(), 'tile': [cpos, rpos]}, site='_get_spatial_information')


# ------------------------------------------------------------------------------------------ TILED_FULL datasets
def _datasets(ctx, reqs, pending):
    import highdicom as hd
    from highdicom import spatial, utils
    from pydicom.dataset import Dataset
    from pydicom.sequence import Sequence
    from gen.sources import slide_image
    n = ctx.n(60, 1200)
    for idx in range(n):
        r = ctx.rng('ds', idx)
        R, C = r.randint(1, 9), r.randint(1, 9)
        tr, tc = r.randint(1, 5), r.randint(1, 5)
        exact = r.random() < 0.8
        org, ori, sp = geo_for(r, exact)
        paths = r.choice([1, 1, 2, 3])
        planes = r.choice([1, 1, 2, 3])
        sbs = r.choice([None, 0.5, 1.5, 2.0])
        kind = r.choice(['wsi', 'wsi', 'seg', 'labelmap'])
        # z offset of the total pixel matrix origin: absent, explicitly zero, or not zero
        oz = r.choice([None, None, 0.0, 2.5, -1.25])
        org = (org[0], org[1], 0.0 if oz is None else oz)
        ds, _ = slide_image(R, C, tr, tc, tiled_full=True, origin=org, pixel_spacing=sp, orientation=ori)
        if oz is not None:
            ds.TotalPixelMatrixOriginSequence[0].ZOffsetInSlideCoordinateSystem = oz
        if sbs is not None:
            ds.SharedFunctionalGroupsSequence[0].PixelMeasuresSequence[0].SpacingBetweenSlices = sbs
        ds.TotalPixelMatrixFocalPlanes = planes
        if kind == 'wsi':
            if r.random() < 0.5:
                ds.NumberOfOpticalPaths = paths
            else:
                del ds.NumberOfOpticalPaths
            ds.OpticalPathSequence = Sequence([Dataset() for _ in range(paths)])
            channels = list(range(1, paths + 1))
        else:
            ds.SOPClassUID = '1.2.840.10008.5.1.4.1.1.66.4' if kind == 'seg' else '1.2.840.10008.5.1.4.1.1.66.7'
            ds.SegmentationType = 'BINARY' if kind == 'seg' else 'LABELMAP'
            ds.SegmentSequence = Sequence([Dataset() for _ in range(paths)])
            channels = list(range(1, paths + 1)) if kind == 'seg' else [None]
        g = grid(R, C, tr, tc)
        case = {'dataset': {'idx': idx, 'sizes': [R, C, tr, tc], 'kind': kind, 'channels': len(channels), 'planes': planes, 'sbs': sbs,
                            'geometry': [list(org), list(ori), list(sp)]}}
        import copy as _copy
        before = _copy.deepcopy(ds)
        st, val = _fetch(lambda: list(spatial.iter_tiled_full_frame_data(ds)))
        st_again, val_again = _fetch(lambda: list(spatial.iter_tiled_full_frame_data(ds)))
        if st == 'ok' and (st_again != 'ok' or val_again != val):
            ctx.fail({'dataset_idx': idx}, 'iter_tiled_full_frame_data gives another result when called again on the same dataset',
                     site='iter_tiled_full_frame_data')
        if ds != before:
            ctx.fail({'dataset_idx': idx}, 'iter_tiled_full_frame_data modified the dataset', site='iter_tiled_full_frame_data')
        ctx.case(helper='iter_tiled_full_frame_data', kind=kind, channels=len(channels), planes=planes, exact_geometry=exact,
                 sample={**case, 'first_items': [list(x) for x in (val[:3] if st == 'ok' else [])]} if idx % 17 == 0 else None,
                 spacing_between_slices=str(sbs), anisotropic=(sp[0] != sp[1]), square_tile=(tr == tc), origin_z=str(oz),
                 nontrivial_key=('iter', idx) if len(g) > 1 else None)
        if st == 'err':
            ctx.fail(case, {'helper': 'iter_tiled_full_frame_data', 'error': val}, site='iter_tiled_full_frame_data')
            continue
        s = 1.0 if sbs is None else sbs
        want = [(ch, p, c, rr) for ch in channels for p in range(1, planes + 1) for (rr, c) in g]
        got = [(x[0], x[1], x[2], x[3]) for x in val]
        if got != want:
            ctx.fail(case, {'helper': 'iter_tiled_full_frame_data', 'what': 'frames are not channels x focal planes x row-major grid',
                            'frames': len(got), 'expected_frames': len(want), 'first': got[:8]}, site='iter_tiled_full_frame_data')
        else:
            for x in val:
                if not close(x[4:], affine(org, ori, sp, x[2] - 1, x[3] - 1, org[2] + (x[1] - 1) * s), exact):
                    ctx.fail(case, {'helper': 'iter_tiled_full_frame_data', 'what': 'position is not the transform of the offset', 'item': list(x)},
                             site='iter_tiled_full_frame_data')
                    break
        if st == 'ok' and kind != 'labelmap':
            # the channel numbers themselves (model: channelNumbers n over the regenerated ranges)
            reqs.append(('channelNumbers', {'n': paths}))
            pending.append((case, 'channel numbers of iter_tiled_full_frame_data', ('ok', sorted(set(x[0] for x in val))), 'plain'))
        if exact:
            reqs.append(('iterTiledFull', {'channels': channels, 'planes': planes, 'tr': tr, 'tc': tc, 'R': R, 'C': C,
                                           'geo': geo_json(org, ori, sp, org[2]), 'sbs': frac(s)}))
            pending.append((case, 'iter_tiled_full_frame_data',
                            ('ok', [[x[0], x[1], x[2], x[3]] + [frac(v) for v in x[4:]] for x in val]), 'iter'))
        # ---- sixth description: the per-frame transformers.  PixelToReferenceTransformer.for_image(ds, frame_number=k) must put
        #      pixel (0, 0) of frame k where every other helper puts tile k, with the matrix' own axes and spacings
        if st == 'ok' and got == want:
            nfr = len(val)
            ks = list(range(1, nfr + 1)) if nfr <= 40 else sorted(set([1, 2, nfr - 1, nfr] + [r.randint(1, nfr) for _ in range(30)]))
            for k_ in ks + [0, nfr + 1, -1]:
                stT, T = _fetch(spatial.PixelToReferenceTransformer.for_image, ds, frame_number=k_)
                ctx.case(helper='PixelToReferenceTransformer.for_image(frame_number)', frame_valid=(1 <= k_ <= nfr), kind=kind,
                         square_grid=(-(-R // tr) == -(-C // tc)), nontrivial_key=('frameT', idx, k_) if 1 < k_ <= nfr else None)
                cT = {**case, 'frame_number': k_}
                if not (1 <= k_ <= nfr):
                    if stT == 'ok':
                        ctx.fail(cT, {'helper': 'for_image(frame_number)', 'what': 'frame number outside the image accepted'},
                                 site='_get_spatial_information')
                    implT = ('err', T) if stT == 'err' else ('ok', None)
                elif stT == 'err':
                    ctx.fail(cT, {'helper': 'for_image(frame_number)', 'error': T}, site='_get_spatial_information')
                    implT = ('err', T)
                else:
                    pts = np.asarray(T(np.array([[0, 0], [1, 0], [0, 1]])), dtype=float)
                    x = val[k_ - 1]
                    wantp = affine(org, ori, sp, x[2] - 1, x[3] - 1, org[2] + (x[1] - 1) * s)
                    stepc = (np.array(affine(org, ori, sp, 1, 0)) - np.array(affine(org, ori, sp, 0, 0))).tolist()
                    stepr = (np.array(affine(org, ori, sp, 0, 1)) - np.array(affine(org, ori, sp, 0, 0))).tolist()
                    if not close(pts[0], wantp, exact) or not close(pts[0], x[4:], False) or \
                            not close(pts[1] - pts[0], stepc, False) or not close(pts[2] - pts[0], stepr, False):
                        ctx.fail(cT, {'helper': 'for_image(frame_number)', 'what': 'the per-frame transformer does not put the frame on its tile',
                                      'origin_of_frame': pts[0].tolist(), 'tile_position_from_iter': list(x[4:]), 'want': wantp,
                                      'tile': [x[2], x[3]], 'grid': [-(-R // tr), -(-C // tc)]}, site='_get_spatial_information')
                    implT = ('ok', [frac(v) for v in pts[0]])
                if exact:
                    reqs.append(('framePosition', {'channels': channels, 'planes': planes, 'tr': tr, 'tc': tc, 'R': R, 'C': C,
                                                   'geo': geo_json(org, ori, sp, org[2]), 'sbs': frac(s), 'k': k_}))
                    pending.append((cT, 'for_image(frame_number)', implT, 'ppt'))
            # the transformer of the whole matrix maps every tile's offset to the tile's position
            stT, T = _fetch(spatial.PixelToReferenceTransformer.for_image, ds, for_total_pixel_matrix=True)
            ctx.case(helper='PixelToReferenceTransformer.for_image(for_total_pixel_matrix)')
            if stT == 'err':
                ctx.fail(case, {'helper': 'for_image(for_total_pixel_matrix)', 'error': T}, site='_get_spatial_information')
            else:
                first_plane = [x for x in val if x[1] == 1][:len(g)]
                pts = np.asarray(T(np.array([[x[2] - 1, x[3] - 1] for x in first_plane])), dtype=float)
                for x, pt in zip(first_plane, pts):
                    if not close(pt, x[4:], False):
                        ctx.fail(case, {'helper': 'for_image(for_total_pixel_matrix)',
                                        'what': 'a tile position is not the total-pixel-matrix transform of its pixel offset',
                                        'offset': [x[2], x[3]], 'position': list(x[4:]), 'transform_of_offset': pt.tolist()},
                                 site='_get_spatial_information')
                        break
        # ---- compute_plane_position_slide_per_frame: same data wrapped
        st2, pps = _fetch(utils.compute_plane_position_slide_per_frame, ds)
        ctx.case(helper='compute_plane_position_slide_per_frame')
        if st2 == 'err':
            ctx.fail(case, {'helper': 'compute_plane_position_slide_per_frame', 'error': pps}, site='compute_plane_position_slide_per_frame')
        else:
            got2 = [(int(p[0].ColumnPositionInTotalImagePixelMatrix), int(p[0].RowPositionInTotalImagePixelMatrix),
                     float(p[0].XOffsetInSlideCoordinateSystem), float(p[0].YOffsetInSlideCoordinateSystem),
                     float(p[0].ZOffsetInSlideCoordinateSystem)) for p in pps]
            if len(got2) != len(val) or any(a[:2] != (x[2], x[3]) or not close(a[2:], x[4:], False) for a, x in zip(got2, val)):
                ctx.fail(case, {'helper': 'compute_plane_position_slide_per_frame', 'what': 'differs from iter_tiled_full_frame_data'},
                         site='compute_plane_position_slide_per_frame')
            # independent statement: frame k of the wrapper sits at the affine image of its own pixel offset, in ITS focal plane
            # (channels outermost, then planes, then the row-major grid)
            for k_, a in enumerate(got2):
                pl_ = (k_ // len(g)) % planes
                wantp = affine(org, ori, sp, a[0] - 1, a[1] - 1, org[2] + pl_ * s)
                if (a[1], a[0]) != g[k_ % len(g)] or not close(a[2:], wantp, exact):
                    ctx.fail({**case, 'frame_index': k_}, {'helper': 'compute_plane_position_slide_per_frame',
                                                           'what': 'plane position of a frame is not the transform of its offset in its focal plane',
                                                           'got': list(a), 'want_position': list(wantp), 'focal_plane': pl_ + 1},
                             site='compute_plane_position_slide_per_frame')
                    break
            if exact:
                reqs.append(('slidePerFrame', {'channels': channels, 'planes': planes, 'tr': tr, 'tc': tc, 'R': R, 'C': C,
                                               'geo': geo_json(org, ori, sp, org[2]), 'sbs': frac(s)}))
                pending.append((case, 'compute_plane_position_slide_per_frame',
                                ('ok', [[a[0], a[1]] + [frac(v) for v in a[2:]] for a in got2]), 'iter'))
            # the full-tiling test on real PlanePositionSequence objects: one (channel, plane) chunk is a grid; the whole list is
            # not (positions repeat) unless there is a single chunk; permuted / incomplete chunks are not
            chunk = pps[:len(g)]
            for name, lst in [('grid', chunk), ('all-frames', pps)] + \
                    ([('rotated', chunk[1:] + chunk[:1]), ('dropped-last-row', chunk[:len(g) - (-(-C // tc))])] if len(g) > 1 else []):
                st3, b = _fetch(utils.are_plane_positions_tiled_full, lst, tr, tc)
                pl = [(int(p[0].RowPositionInTotalImagePixelMatrix), int(p[0].ColumnPositionInTotalImagePixelMatrix)) for p in lst]
                mr = max((a for a, _ in pl), default=-1)
                mc = max((b_ for _, b_ in pl), default=-1)
                want_b = pl == [(1 + tr * a, 1 + tc * b_) for a in range(-(-mr // tr) if mr > 0 else 0) for b_ in range(-(-mc // tc) if mc > 0 else 0)]
                ctx.case(helper='are_plane_positions_tiled_full', variant='pps/' + name)
                if st3 == 'err' or bool(b) != want_b:
                    ctx.fail({**case, 'variant': name}, {'helper': 'are_plane_positions_tiled_full', 'returned': b, 'list_is_a_grid': want_b,
                                                        'positions': pl[:30]}, site='are_plane_positions_tiled_full')
                reqs.append(('arePlanePositionsTiledFull', {'positions': [list(x) for x in pl], 'rows': tr, 'cols': tc}))
                pending.append(({**case, 'variant': name}, 'are_plane_positions_tiled_full', ('ok', bool(b)) if st3 == 'ok' else ('err', b), 'plain'))
        # ---- compute_plane_position_tiled_full for a few tiles (and bad indices)
        nR, nC = -(-R // tr), -(-C // tc)
        for _ in range(3):
            ri, ci = r.randint(0, nR + 1), r.randint(0, nC + 1)
            use3d = r.random() < 0.5
            si = r.randint(1, planes)
            kw = dict(spacing_between_slices=s, slice_index=si) if use3d else {}
            st4, pp = _fetch(utils.compute_plane_position_tiled_full, ri, ci, org[0], org[1], tr, tc, ori, sp, **kw)
            ctx.case(helper='compute_plane_position_tiled_full', index_valid=(ri >= 1 and ci >= 1))
            c4 = {**case, 'row_index': ri, 'column_index': ci, 'slice_index': si if use3d else None}
            if ri < 1 or ci < 1:
                if st4 == 'ok':
                    ctx.fail(c4, {'helper': 'compute_plane_position_tiled_full', 'what': 'tile index below 1 accepted'},
                             site='compute_plane_position_tiled_full')
                impl = ('err', pp) if st4 == 'err' else ('ok', None)
            elif st4 == 'err':
                ctx.fail(c4, {'helper': 'compute_plane_position_tiled_full', 'error': pp}, site='compute_plane_position_tiled_full')
                impl = ('err', pp)
            else:
                gotp = (int(pp[0].ColumnPositionInTotalImagePixelMatrix), int(pp[0].RowPositionInTotalImagePixelMatrix),
                        float(pp[0].XOffsetInSlideCoordinateSystem), float(pp[0].YOffsetInSlideCoordinateSystem),
                        float(pp[0].ZOffsetInSlideCoordinateSystem))
                wantpos = (1 + tc * (ci - 1), 1 + tr * (ri - 1))
                z = (si - 1) * s if use3d else 0.0
                if gotp[:2] != wantpos or not close(gotp[2:], affine(org, ori, sp, wantpos[0] - 1, wantpos[1] - 1, z), exact):
                    ctx.fail(c4, {'helper': 'compute_plane_position_tiled_full', 'what': 'not the grid position / transform of tile (row, column)',
                                  'got': list(gotp), 'want_position': list(wantpos)}, site='compute_plane_position_tiled_full')
                # agreement with the per-frame list (same channel-independent tile)
                if ri <= nR and ci <= nC and st == 'ok' and got == want:
                    x = val[(si - 1 if use3d else 0) * len(g) + (ri - 1) * nC + (ci - 1)]
                    # the function is given the x and y offsets of the origin only: its z is relative to an origin at z = 0
                    if (x[2], x[3]) != gotp[:2] or not close([x[4], x[5], x[6] - org[2]], gotp[2:], False):
                        ctx.fail(c4, {'helper': 'compute_plane_position_tiled_full', 'what': 'differs from iter_tiled_full_frame_data',
                                      'got': list(gotp), 'iter': list(x)}, site='compute_plane_position_tiled_full')
                impl = ('ok', [gotp[0], gotp[1]] + [frac(v) for v in gotp[2:]])
            if exact:
                reqs.append(('planePositionTiledFull', {'row_index': ri, 'col_index': ci, 'tr': tr, 'tc': tc, 'geo': geo_json(org, ori, sp),
                                                        'slice_index': si if use3d else None, 'sbs': frac(s)}))
                pending.append((c4, 'compute_plane_position_tiled_full', impl, 'ppt'))


def _model(ctx, reqs):
    """the driver is an interpreted `lean --run` over oleans other builds may be replacing at that moment: retry before giving up"""
    import time
    for attempt in range(3):
        answers = ctx.model(reqs)
        if answers is not None:
            return answers
        ctx.note(f'model driver failed (attempt {attempt + 1}); retrying')
        time.sleep(15 * (attempt + 1))
        ctx.model_available = True
    ctx.model_available = False
    return None


def _settle(ctx, reqs, pending):
    answers = _model(ctx, reqs)
    if answers is None:
        return
    for (case, what, impl, mode), ans in zip(pending, answers):
        if 'proto_err' in ans:
            ctx.disagree('L0', case, impl, ans, f'{what}: model protocol error')
            continue
        mod = ('ok', ans['ok']) if 'ok' in ans else ('err', ans['err'])
        if impl[0] != mod[0]:
            ctx.disagree('L0', case, impl if len(str(impl)) < 1500 else impl[0], mod if len(str(mod)) < 1500 else mod[0], f'{what}: ok-vs-error')
            continue
        if impl[0] == 'err':
            continue
        a, b = impl[1], mod[1]
        if mode in ('positions', 'iter', 'ppt') and a is not None:
            # integers exactly, rationals as rationals
            def norm(row):
                return [x if (isinstance(x, int) or x is None) else Fraction(x) for x in row]
            same = (norm(a) == norm(b)) if mode == 'ppt' else (len(a) == len(b) and all(norm(x) == norm(y) for x, y in zip(a, b)))
        else:
            same = a == b
        if not same:
            ctx.disagree('L0', case, a if len(str(a)) < 1500 else '...', b if len(str(b)) < 1500 else '...', f'{what}: value')


def run(ctx):
    reqs, pending = [], []
    _tile_offsets(ctx, reqs, pending)
    _options_and_refusals(ctx)
    _datasets(ctx, reqs, pending)
    _settle(ctx, reqs, pending)
    reqs, pending = [], []
    _sizes(ctx, reqs, pending)
    _settle(ctx, reqs, pending)


def replay(ctx, case):
    """Re-run one stored case on the implementation -> failure detail or None."""
    sub = type(ctx)(ctx.prop, ctx.tier, ctx.seed, 1, ctx.driver)
    sub.model_available = False
    if 'dataset' in case:
        want = case['dataset']['idx']

        class One(type(sub)):
            pass
        # regenerate exactly that dataset: cases are pure functions of (seed, stream, index)
        import types
        orig_n = sub.n
        sub.n = types.MethodType(lambda self, q, t=None: want + 1, sub)
        _datasets(sub, [], [])
        sub.n = orig_n
        fl = [f for f in sub.failures if f['case'].get('dataset', {}).get('idx') == want]
        return fl[:3] or None
    if 'tile_idx' in case:
        import types
        want = case['tile_idx']
        sub.n = types.MethodType(lambda self, q, t=None: want + 1, sub)
        _tile_offsets(sub, [], [])
        fl = [f for f in sub.failures if f['case'].get('tile_idx') == want]
        return fl[:3] or None
    if 'sizes' in case:
        R, C, tr, tc = case['sizes']
        from highdicom import spatial, utils
        out = []
        g = grid(R, C, tr, tc)
        st, val = _fetch(lambda: list(spatial.tile_pixel_matrix(R, C, tr, tc)))
        if st == 'err' or [((r_ - 1) * tr + 1, (c - 1) * tc + 1) for c, r_ in val] != g:
            out.append({'helper': 'tile_pixel_matrix', 'got': val if st == 'err' else [list(x) for x in val][:20]})
        st, val = _fetch(spatial.compute_tile_positions_per_frame, tr, tc, R, C, (0.0, 0.0, 0.0), (0, -1, 0, -1, 0, 0), (0.5, 0.5))
        if st == 'err' or [(int(o[1]), int(o[0])) for o, _ in val] != g:
            out.append({'helper': 'compute_tile_positions_per_frame', 'got': val if st == 'err' else [o for o, _ in val][:20]})
        lst = case.get('positions') or g
        st, val = _fetch(utils.are_plane_positions_tiled_full, [_pp(a, b) for a, b in lst], tr, tc)
        mr = max((a for a, _ in lst), default=-1)
        mc = max((b for _, b in lst), default=-1)
        want = [tuple(x) for x in lst] == [(a, b) for a in range(1, mr + 1, tr) for b in range(1, mc + 1, tc)]
        if st == 'err' or bool(val) != want:
            out.append({'helper': 'are_plane_positions_tiled_full', 'returned': val, 'list_is_a_grid': want})
        M = ((np.arange(R * C, dtype=np.int64).reshape(R, C) * 7 + 3) % 251) + 1
        for (ro, co) in g:
            st, t = _fetch(spatial.get_tile_array, M, ro, co, tr, tc)
            want_t = np.zeros((tr, tc), dtype=np.int64)
            sub_ = M[ro - 1:ro - 1 + tr, co - 1:co - 1 + tc]
            want_t[:sub_.shape[0], :sub_.shape[1]] = sub_
            if st == 'err' or not np.array_equal(np.asarray(t), want_t):
                out.append({'helper': 'get_tile_array', 'row_offset': ro, 'column_offset': co, 'got': t if st == 'err' else np.asarray(t).tolist()})
                break
        return out or None
    return None
