"""C11  Slice stacks are recognised, ordered and assembled correctly.

Tie C: Model/Stack.lean (get_volume_positions, get_plane_sort_index, series assembly order) against
spatial.get_volume_positions / get_series_volume_positions / get_plane_sort_index / sort_datasets and
image.get_volume_from_series / Image.get_volume.
Oracle (independent of the model): every case is a *constructed scenario* - a regular stack `o + k_i s n`
(optionally with duplicates, gaps, jitter inside or outside the tolerance, shear of the stacking direction,
an in-plane twin) under a chosen permutation and option set - whose expected outcome follows from the
construction alone: accepted with spacing s and indices k_i - min k, or refused.  Accepted indices must
order the planes along the positive normal, permuting the input must permute the output, assembled volumes
must not depend on the input order, sort_datasets must yield that order.
"""
from __future__ import annotations

import itertools
from fractions import Fraction as Fr

import numpy as np

from corr.C10 import AXIS_PAIRS, PYTH, R, RL, _call, _dy, _fr, _rot

PROP = 'C11'
TARGETS = ['T13o', 'T13e', 'TC11v', 'TC11a']
LEAN_MODULES = ['HdVerif.Props.C11']
MODEL_MODULES = ['HdVerif.Model.Stack']
NAMESPACE = 'HdVerif.C11'
DRIVER = 'Drivers/C11.lean'
RULE = ('one case = one call of get_volume_positions (or a series / multi-frame wrapper) on a constructed stack: '
        'n planes o + k_i*s*normal (axis-aligned or oblique rational orientation, dyadic or decimal spacing), a scenario '
        '(regular, duplicates, gaps, jitter in/out at margin 4, shear in/out, in-plane twin, hint match/mismatch) and an '
        'input permutation; non-trivial = at least 2 planes and an outcome decided by the scenario; distinct by (scenario, '
        'options, n, orientation class, outcome)')
ASSUMPTIONS = [
    'float arithmetic of numpy agrees with rational arithmetic away from decision boundaries: tolerance tests are probed '
    'at margin 4 (jitter = tol/4 or 4*tol), perpendicularity at 1-dot = 5e-5 or 2e-2 against the bound 1e-3',
    'np.unique(axis=0) = lexicographically sorted distinct rows + inverse; np.argsort = rank by counting on tie-free input (the order of '
    'ties is unspecified in numpy; ties among distinct positions only occur in stacks that are refused); np.round is round-half-even '
    '(all compared directly against the model on generated inputs)',
    '|n x span| / |span| is evaluated in squared form in the model (no square root)',
    'pixel data / pixel transforms of the assembled volumes are outside the model (oracle only)',
]
MODELLED_NOT_VERIFIED = ['numpy unique / argsort / isclose / allclose / round / linalg.norm', 'pydicom Dataset access, SQLite frame table '
                         'of Image.get_volume (oracle only)', 'pixel decoding and _CombinedPixelTransform in get_volume_from_series']

TOL = Fr(1, 2 ** 40)
CONVS = ['DR', 'RD', 'LD', 'DL', 'RU', 'UR', 'LU', 'UL']


def _normal(ori, conv, hand):
    """the oracle's own normal: cross product of the two in-plane axes in the order of the convention"""
    row, col = np.array(ori[:3]), np.array(ori[3:])
    ax = {'R': row, 'L': -row, 'D': col, 'U': -col}
    n = np.cross(ax[conv[0]], ax[conv[1]])
    return n if hand == 'RIGHT_HANDED' else -n


def _spell_conv(r, conv):
    """every accepted spelling of an index convention: 'DR', ('D', 'R'), enum members, mixed"""
    from highdicom.enum import PixelIndexDirections
    k = r.randrange(4)
    if k == 0 or len(conv) != 2:
        return conv
    if k == 1:
        return tuple(conv)
    if k == 2:
        return tuple(PixelIndexDirections(x) for x in conv)
    return [conv[0], PixelIndexDirections(conv[1])]


def _spell_hand(r, hand):
    from highdicom.enum import AxisHandedness
    return AxisHandedness(hand) if r.random() < 0.5 else hand


def _plain(v):
    """spelling-independent form of an option value (for the model request and for JSON)"""
    if isinstance(v, (list, tuple)):
        return ''.join(_plain(x) for x in v)
    return getattr(v, 'value', v)


def _plain_opts(o):
    return {k: (_plain(v) if k in ('index_convention', 'handedness') else v) for k, v in o.items()}


def _orientation(r):
    row, col = AXIS_PAIRS[r.randrange(24)]
    if r.random() < 0.6:
        return [float(x) for x in row] + [float(x) for x in col], 'axis'
    m = np.eye(3)
    for _ in range(r.choice([1, 1, 2])):
        a, b, h = r.choice(PYTH)
        m = _rot(r.randrange(3), a, b, h) @ m
    return [float(x) for x in m @ row] + [float(x) for x in m @ col], 'oblique'


SCENARIOS = ['regular', 'regular', 'atol_only', 'rtol_only', 'wobble', 'wobble', 'wobble_dups', 'wobble_gaps', 'dups', 'gaps', 'gaps_hint', 'dups_gaps', 'jitter_in', 'jitter_out',
             'shear_in', 'shear_out', 'twin', 'hint_ok', 'hint_neg', 'hint_bad', 'unsorted', 'unsorted_hint', 'unsorted_hint', 'missing_jitter_in',
             'missing_jitter_out', 'gaps_far_in', 'gaps_far_out', 'gaps_far_half', 'irregular', 'single', 'all_same']


def _scenario(r, idx, want=None):
    """Build one constructed stack.  Returns dict with positions (list of 3-lists, floats), orientation, options (kwargs of
    get_volume_positions), and the expected outcome: ('ok', spacing, indices) | ('none',) | ('err',)."""
    sc = want or SCENARIOS[idx % len(SCENARIOS)]
    ori, cls = _orientation(r)
    conv = r.choice(CONVS) if r.random() < 0.5 else 'DR'
    hand = r.choice(['RIGHT_HANDED', 'LEFT_HANDED']) if r.random() < 0.4 else 'RIGHT_HANDED'
    nrm = _normal(ori, conv, hand)
    row, col = np.array(ori[:3]), np.array(ori[3:])
    s = r.choice([0.25, 0.5, 1.0, 1.0, 1.25, 2.0, 2.5, 5.0, 0.7, 0.3, 1.3])
    n = r.choice([2, 3, 3, 4, 4, 5, 5, 6, 7, 9, 12]) if sc not in ('single',) else 1
    single_hint = r.choice([None, 0.5, -2.0, 3.25]) if sc == 'single' else None
    origin = np.array([_dy(r, -200, 200) for _ in range(3)])
    k0 = r.randint(-3, 3)
    ks = [k0 + i for i in range(n)]
    opts = {}
    tolmode = r.choice(['default', 'default', 'rtol', 'atol'])
    rtol, atol = 0.01, 0.0
    if tolmode == 'rtol':
        rtol = r.choice([0.001, 0.02, 0.05])
        opts['rtol'] = rtol
    elif tolmode == 'atol':
        rtol, atol = 0.0, r.choice([0.01, 0.05, 0.1]) * s
        opts['atol'] = atol
    offs = {i: np.zeros(3) for i in range(n)}     # extra offset per plane (jitter / shear)
    expect_ok = True
    err = False
    identity = False
    if sc == 'dups':
        ks = ks + [r.choice(ks) for _ in range(r.randint(1, 3))]
        if r.random() < 0.75:
            opts['allow_duplicate_positions'] = True
        else:
            expect_ok = False
    elif sc in ('gaps', 'gaps_hint', 'dups_gaps'):
        n = max(n, 4)
        ks = [k0 + i for i in range(n + 3)]
        keep_pair = r.randrange(len(ks) - 1)
        drop = [i for i in range(len(ks)) if i not in (keep_pair, keep_pair + 1) and r.random() < 0.4]
        if not drop:
            drop = [i for i in range(len(ks)) if i not in (keep_pair, keep_pair + 1)][:1]
        if sc == 'gaps_hint':
            # no two consecutive planes: only the hint tells the spacing
            ks = [k0 + 2 * i + (3 if i > 1 else 0) for i in range(n)]
            opts['spacing_hint'] = s
            opts['allow_missing_positions'] = True
        else:
            ks = [k for i, k in enumerate(ks) if i not in drop]
            interior = any(k0 < ks_i for ks_i in ks) and (max(ks) - min(ks) + 1 != len(set(ks)))
            if r.random() < 0.75:
                opts['allow_missing_positions'] = True
            elif interior:
                expect_ok = False
        if sc == 'dups_gaps':
            ks = ks + [r.choice(ks)]
            opts['allow_duplicate_positions'] = True
            if not opts.get('allow_missing_positions') and (max(ks) - min(ks) + 1 != len(set(ks))):
                expect_ok = False
        if not opts.get('allow_missing_positions') and (max(ks) - min(ks) + 1 == len(set(ks))):
            expect_ok = True
    elif sc in ('jitter_in', 'jitter_out'):
        n = max(n, 3)
        ks = [k0 + i for i in range(n)]
        tol = atol + rtol * s
        j = r.randrange(1, n - 1)
        d = (tol / 4 if sc == 'jitter_in' else 4 * tol) * r.choice([-1, 1])
        if abs(d) >= s / 2:
            d = np.sign(d) * s * 0.45
            if sc == 'jitter_in':
                d = d / 100
        offs[j] = d * nrm
        expect_ok = sc == 'jitter_in'
    elif sc in ('atol_only', 'rtol_only'):
        # a tolerance given alone REPLACES the other one: with a tiny atol (1e-4 s) an interior plane 0.002 s off is refused
        # although it is well inside the default rtol of 1 %; with a tiny rtol (1e-4) likewise
        n = max(n, 3)
        ks = [k0 + i for i in range(n)]
        opts.pop('rtol', None)
        opts.pop('atol', None)
        if sc == 'atol_only':
            opts['atol'] = 1e-4 * s
        else:
            opts['rtol'] = 1e-4
        j = r.randrange(1, n - 1)
        offs[j] = 0.002 * s * r.choice([-1, 1]) * nrm
        expect_ok = False
    elif sc in ('missing_jitter_in', 'missing_jitter_out', 'gaps_far_in', 'gaps_far_out', 'gaps_far_half'):
        # DECLARATIVE expectation (not the library's criterion): a stack with gaps is a volume iff every plane lies within
        # atol + rtol*s (mm) of o + k*s*n for an integer k.  One plane - any plane, also one far up (k >= 50) - is moved along
        # the normal by a quarter of that tolerance (still a volume, same indices) or by four times it / by 0.1-0.5 spacings
        # (not a volume).  With or without a hint; without one two neighbouring planes are present.
        n = max(n, 3)
        far = sc.startswith('gaps_far')
        if far:
            ks = [k0, k0 + 1] + sorted(r.sample(range(k0 + 50, k0 + 140), n - 2))
        else:
            ks = [k0, k0 + 1] + [k0 + 2 * i + 1 for i in range(1, n - 1)]
        opts['allow_missing_positions'] = True
        if r.random() < 0.5:
            opts['spacing_hint'] = s
        tol = atol + rtol * s
        j = r.randrange(2, len(ks)) if far else r.randrange(1, len(ks))
        if sc in ('missing_jitter_in', 'gaps_far_in'):
            d = tol / 4
        elif sc == 'gaps_far_half':
            d = r.choice([0.1, 0.25, 0.4, 0.5]) * s
            if d <= 4 * tol:
                d = min(4 * tol, 0.45 * s)
        else:
            d = min(4 * tol, 0.45 * s)
        if j == 1 and 'spacing_hint' not in opts:
            j = 2                       # planes 0 and 1 define the spacing when there is no hint
        if 'spacing_hint' not in opts and (ks[j] - 1 in ks or ks[j] + 1 in ks):
            # moving a plane that has a direct neighbour would change the smallest gap itself (that input class is the open
            # finding C11-gaps-min-gap-estimate and has its own stream): give the spacing as a hint here
            opts['spacing_hint'] = s
        offs[j] = d * r.choice([-1, 1]) * nrm
        expect_ok = sc in ('missing_jitter_in', 'gaps_far_in') and d <= tol / 2
        if not expect_ok and d < 2 * tol:
            expect_ok = None            # too close to the boundary to demand either outcome
    elif sc in ('shear_in', 'shear_out'):
        n = max(n, 3)
        ks = [k0 + i for i in range(n)]
        t = (0.01 if sc == 'shear_in' else 0.2) * s
        u = r.choice([row, col, (row + col) / np.sqrt(2)])
        for i in range(n):
            offs[i] = i * t * u
        expect_ok = sc == 'shear_in'
    elif sc == 'twin':
        # two planes at the same distance but different in-plane position: distinct rows, not a stack
        n = max(n, 3)
        ks = [k0 + i for i in range(n)]
        ks.append(r.choice(ks))
        offs[len(ks) - 1] = _dy(r, 1, 9) * row + _dy(r, 0, 9) * col
        if r.random() < 0.5:
            opts['allow_duplicate_positions'] = True
        expect_ok = False
    elif sc in ('hint_ok', 'hint_neg', 'hint_bad'):
        n = max(n, 2)
        ks = [k0 + i for i in range(n)]
        opts['spacing_hint'] = {'hint_ok': s, 'hint_neg': -s, 'hint_bad': 1.5 * s}[sc]
        if sc == 'hint_bad':
            err = True
    elif sc == 'irregular':
        n = max(n, 3)
        ks = [k0 + i for i in range(n)]
        ks[-1] += r.choice([1, 2])          # the last gap is 2 or 3 spacings
        expect_ok = False
    elif sc in ('wobble', 'wobble_dups', 'wobble_gaps'):
        # every plane is moved IN its plane by a fraction of a micrometre (both in-plane axes): far inside every tolerance,
        # but the lexicographic order of the rows (np.unique) no longer follows the order along the normal
        n = max(n, 4)
        ks = [k0 + i for i in range(n)]
        if sc == 'wobble_gaps':
            ks = [k0, k0 + 1] + [k0 + 2 * i + 1 for i in range(1, n - 1)]
            opts['allow_missing_positions'] = True
        for i in range(len(ks)):
            offs[i] = (r.randint(-999, 999) * row + r.randint(-999, 999) * col) * 1e-7
        if sc == 'wobble_dups':
            j = r.randrange(len(ks))
            ks.append(ks[j])
            offs[len(ks) - 1] = offs[j]
            opts['allow_duplicate_positions'] = True
    elif sc == 'all_same':
        ks = [k0] * max(n, 2)
        opts['allow_duplicate_positions'] = True
        if r.random() < 0.5:
            opts['spacing_hint'] = r.choice([0.5, -2.0, 3.25])
    elif sc == 'min_gap_jitter':
        # open finding C11-gaps-min-gap-estimate: no hint, the two neighbouring planes that define the smallest gap are a quarter
        # of the tolerance closer than s, one plane lies far up: every plane is within tol/4 of the grid o + k*s*n, yet the
        # library measures the far plane against the under-estimated spacing
        opts.pop('rtol', None)
        opts.pop('atol', None)
        rtol, atol = 0.01, 0.0
        ks = [k0, k0 + 1, k0 + r.randint(60, 140)]
        opts['allow_missing_positions'] = True
        offs[1] = -(rtol * s / 4) * nrm
    elif sc == 'hint_drift':
        # open finding C11-hint-drift: gaps allowed, hint within the 1 % tolerance of the true spacing, long stack
        n = r.randint(70, 110)
        ks = [k0 + i for i in range(n)]
        opts.pop('rtol', None)
        opts.pop('atol', None)
        rtol, atol = 0.01, 0.0
        opts['allow_missing_positions'] = True
        opts['spacing_hint'] = s * (1 + r.choice([-1, 1]) * r.choice([0.0075, 0.0085, 0.009]))
        expect_ok = False           # the planes far up are 0.5 spacings and more off the hinted grid
    # positions
    pos = [origin + k * s * nrm + offs.get(i, np.zeros(3)) for i, k in enumerate(ks)]
    order = list(range(len(ks)))
    if sc in ('unsorted', 'unsorted_hint'):
        opts['sort'] = False
        kind = r.choice(['along', 'against', 'shuffled', 'along_enforced', 'against_enforced'])
        if sc == 'unsorted_hint':
            # sort=False x a MATCHING spacing hint (either sign) x planes listed along or against the positive normal: the hint is
            # compared with the magnitude of the inferred spacing, so it never turns a right answer into an error
            kind = r.choice(['along', 'against', 'against', 'along_enforced', 'against_enforced'])
            n_h = max(len(ks), 2)
            if len(ks) < 2:
                pos.append(origin + (ks[-1] + 1) * s * nrm)
                ks.append(ks[-1] + 1)
                order = list(range(len(ks)))
            opts['spacing_hint'] = s * r.choice([1, 1, -1])
        if kind.startswith('against'):
            order = order[::-1]
        elif kind == 'shuffled':
            if len(order) < 3:
                pos.append(origin + (ks[-1] + 1) * s * nrm)
                ks.append(ks[-1] + 1)
                order = list(range(len(ks)))
            while order == sorted(order) or order == sorted(order, reverse=True):
                r.shuffle(order)
            expect_ok = False
        if kind.endswith('enforced'):
            opts['enforce_handedness'] = True
            if kind == 'against_enforced' and len(order) > 1:
                expect_ok = False
        identity = True
    else:
        r.shuffle(order)
        if r.random() < 0.2:
            opts['enforce_handedness'] = True       # no effect when sorting
    if single_hint is not None:
        opts['spacing_hint'] = single_hint
    if conv != 'DR' or r.random() < 0.3:
        opts['index_convention'] = _spell_conv(r, conv)
    if hand != 'RIGHT_HANDED' or r.random() < 0.3:
        opts['handedness'] = _spell_hand(r, hand)
    pos = [pos[i] for i in order]
    ks = [ks[i] for i in order]
    positions = [[float(x) for x in p] for p in pos]
    if err:
        expected = ('err',)
    elif expect_ok is None:
        expected = ('any',)
    elif not expect_ok:
        expected = ('none',)
    elif len(ks) == 1 or sc == 'all_same':
        expected = ('ok', abs(opts.get('spacing_hint', 1.0)), [0] * len(ks))
    elif identity:
        expected = ('ok', s, list(range(len(ks))))
    else:
        expected = ('ok', s, [k - min(ks) for k in ks])
    return {'scenario': sc, 'positions': positions, 'ori': ori, 'cls': cls, 'opts': opts, 'expected': expected, 'ks': ks,
            's': s, 'normal': [float(x) for x in nrm], 'conv': conv, 'hand': hand}


def _margs(sc):
    o = sc['opts']
    a = {'positions': [RL(p) for p in sc['positions']], 'ori': RL(sc['ori'])}
    for py, k in (('rtol', 'rtol'), ('atol', 'atol'), ('spacing_hint', 'hint')):
        if py in o:
            a[k] = R(o[py])
    for py, k in (('sort', 'sort'), ('allow_missing_positions', 'allow_missing'), ('allow_duplicate_positions', 'allow_duplicate'),
                  ('enforce_handedness', 'enforce')):
        if py in o:
            a[k] = bool(o[py])
    if 'index_convention' in o:
        a['conv'] = _plain(o['index_convention'])
    if 'handedness' in o:
        a['handedness'] = _plain(o['handedness'])
    return a


def _observe(st, val):
    """canonical observation of get_volume_positions"""
    if st != 'ok':
        return ('err', val)
    sp, vp = val
    if sp is None and vp is None:
        return ('none',)
    if sp is None or vp is None:
        return ('half-none', repr(val))
    return ('ok', float(sp), [int(x) for x in vp])


def _check_expected(ctx, case, obs, sc, site='get_volume_positions'):
    exp = sc['expected']
    if exp[0] == 'any':
        return
    if exp[0] == 'err':
        if obs[0] != 'err':
            ctx.fail(case, {'what': 'mismatching spacing hint not reported', 'got': obs}, site=site)
        return
    if exp[0] == 'none':
        if obs[0] != 'none':
            ctx.fail(case, {'what': 'stack that is not a regular volume was not refused', 'got': obs}, site=site)
        return
    if obs[0] != 'ok':
        ctx.fail(case, {'what': 'regular stack not recognised', 'got': obs, 'want': exp}, site=site)
        return
    # jitter moves interior planes only and shear is in-plane, so the mean spacing along the normal is still exactly s
    if abs(obs[1] - exp[1]) > 1e-6 * max(1.0, exp[1]):
        ctx.fail(case, {'what': 'wrong spacing', 'got': obs[1], 'want': exp[1]}, site=site)
    if obs[2] != exp[2]:
        ctx.fail(case, {'what': 'wrong volume indices', 'got': obs[2], 'want': exp[2]}, site=site)


def _check_order(ctx, case, obs, sc, site='get_volume_positions'):
    """accepted indices order the planes along the positive normal (and equal indices = same distance)"""
    if obs[0] != 'ok' or sc['opts'].get('sort') is False or len(obs[2]) != len(sc['positions']):
        return
    n = np.array(sc['normal'])
    d = [float(np.dot(np.array(p), n)) for p in sc['positions']]
    eps = 1e-6 * sc['s']
    idx = obs[2]
    for i in range(len(idx)):
        for j in range(len(idx)):
            if idx[i] < idx[j] and not d[i] < d[j] - eps:
                ctx.fail(case, {'what': 'indices do not increase along the positive normal', 'i': i, 'j': j, 'idx': idx, 'd': d}, site=site)
                return
            if idx[i] == idx[j] and abs(d[i] - d[j]) > 0.5 * sc['s']:
                ctx.fail(case, {'what': 'one index for planes at different distances', 'i': i, 'j': j, 'idx': idx, 'd': d}, site=site)
                return
    if min(idx) != 0:
        ctx.fail(case, {'what': 'smallest index is not 0', 'idx': idx}, site=site)


def _cmp_model(ctx, case, obs, ans, exact, layer='L0'):
    if 'proto_err' in ans:
        ctx.disagree(layer, case, obs, ans, 'model protocol error')
        return
    if obs[0] == 'err':
        if 'err' not in ans:
            ctx.disagree(layer, case, obs, ans, 'ok-vs-error')
        return
    if 'err' in ans:
        ctx.disagree(layer, case, obs, ans, 'ok-vs-error')
        return
    m = ans['ok']
    if obs[0] == 'none':
        if m is not None:
            ctx.disagree(layer, case, obs, ans, 'refused-vs-accepted')
        return
    if m is None:
        ctx.disagree(layer, case, obs, ans, 'refused-vs-accepted')
        return
    if obs[0] != 'ok' or obs[2] != m['positions']:
        ctx.disagree(layer, case, obs, ans, 'indices')
        return
    ms = _fr(m['spacing'])
    if (exact and Fr(obs[1]) != ms) or abs(Fr(obs[1]) - ms) > TOL * 4096 * max(1, abs(ms)):
        ctx.disagree(layer, case, obs, ans, 'spacing')


def _is_exact(sc):
    return sc['cls'] == 'axis' and Fr(sc['s']).denominator <= 64 and sc['scenario'] in (
        'regular', 'dups', 'gaps', 'gaps_hint', 'dups_gaps', 'hint_ok', 'hint_neg', 'unsorted', 'single', 'all_same')


# ------------------------------------------------------------------ 1. get_volume_positions on scenarios
def _position_cases(ctx, reqs, pend):
    from highdicom import spatial as sp
    n = ctx.n(6000, 14000)
    for i in range(n):
        r = ctx.rng('stack', i)
        sc = _scenario(r, i)
        st, val = _call(sp.get_volume_positions, sc['positions'], sc['ori'], **sc['opts'])
        obs = _observe(st, val)
        case = {'fn': 'get_volume_positions', 'i': i, 'scenario': sc['scenario'], 'positions': sc['positions'], 'ori': sc['ori'],
                'opts': _plain_opts(sc['opts']), 'expected': sc['expected']}
        o = sc['opts']
        ctx.case(sample=case if i % 97 == 0 else None,
                 nontrivial_key=(sc['scenario'], len(sc['positions']), sc['cls'], obs[0], o.get('sort', True),
                                 bool(o.get('allow_missing_positions')), bool(o.get('allow_duplicate_positions')),
                                 'rtol' in o, 'atol' in o) if len(sc['positions']) > 1 else None,
                 scenario=sc['scenario'], n=len(sc['positions']), ori=sc['cls'], outcome=obs[0], expected=sc['expected'][0],
                 conv=sc['conv'], hand=sc['hand'], tol=('rtol' if 'rtol' in o else 'atol' if 'atol' in o else 'default'),
                 flags=f"sort={o.get('sort', True)} miss={bool(o.get('allow_missing_positions'))} dup={bool(o.get('allow_duplicate_positions'))} "
                       f"hint={'spacing_hint' in o} enf={bool(o.get('enforce_handedness'))}")
        _check_expected(ctx, case, obs, sc)
        _check_order(ctx, case, obs, sc)
        reqs.append(('volumePositions', _margs(sc)))
        pend.append((case, obs, _is_exact(sc)))
        # permuting the input permutes the output (oracle on the implementation alone)
        if obs[0] == 'ok' and len(obs[2]) != len(sc['positions']):
            ctx.fail(case, {'what': 'number of volume indices differs from the number of positions', 'got': obs}, site='get_volume_positions')
        elif len(sc['positions']) > 1 and sc['opts'].get('sort', True):
            perm = list(range(len(sc['positions'])))
            r.shuffle(perm)
            st2, val2 = _call(sp.get_volume_positions, [sc['positions'][k] for k in perm], sc['ori'], **sc['opts'])
            obs2 = _observe(st2, val2)
            want = obs if obs[0] != 'ok' else ('ok', obs[1], [obs[2][k] for k in perm])
            same = obs2[0] == want[0] and (obs2[0] != 'ok' or (obs2[2] == want[2] and abs(obs2[1] - want[1]) <= 1e-9 * max(1, abs(want[1]))))
            ctx.case(scenario='permuted')
            if not same:
                ctx.fail(dict(case, perm=perm), {'what': 'result depends on the input order', 'got': obs2, 'want': want}, site='permutation')


def _exhaustive_perms(ctx, reqs, pend):
    """every permutation of small stacks (n <= 5 quick: n <= 4) for the main option sets"""
    from highdicom import spatial as sp
    nmax = 4 if ctx.tier == 'quick' else 5
    count = 0
    for n in range(2, nmax + 1):
        for variant in ('regular', 'gaps', 'dups'):
            if variant == 'dups' and n < 3:
                continue
            r = ctx.rng('perm', n * 10 + len(variant))
            base = _scenario(r, 0, want={'regular': 'regular', 'gaps': 'gaps', 'dups': 'dups'}[variant])
            # rebuild canonical stack of exactly n planes
            nrm = np.array(base['normal'])
            s = base['s']
            ks = list(range(n))
            opts = {}
            if variant == 'gaps':
                ks = [0, 1] + [2 * k + 1 for k in range(1, n - 1)]
                opts['allow_missing_positions'] = True
            if variant == 'dups':
                ks = list(range(n - 1)) + [0]
                opts['allow_duplicate_positions'] = True
            origin = np.array([1.5, -2.25, 3.0])
            pos0 = [[float(x) for x in origin + k * s * nrm] for k in ks]
            if 'index_convention' in base['opts']:
                opts['index_convention'] = base['opts']['index_convention']
            if 'handedness' in base['opts']:
                opts['handedness'] = base['opts']['handedness']
            for perm in itertools.permutations(range(n)):
                pp = [pos0[k] for k in perm]
                kk = [ks[k] for k in perm]
                st, val = _call(sp.get_volume_positions, pp, base['ori'], **opts)
                obs = _observe(st, val)
                sc = dict(base, positions=pp, opts=opts, expected=('ok', s, [k - min(kk) for k in kk]), scenario=variant, ks=kk)
                case = {'fn': 'get_volume_positions', 'exhaustive': variant, 'n': n, 'perm': list(perm), 'positions': pp, 'ori': base['ori'], 'opts': _plain_opts(opts)}
                ctx.case(scenario='exhaustive-' + variant, n=n, nontrivial_key=('ex', variant, n, perm))
                _check_expected(ctx, case, obs, sc, site='permutation')
                _check_order(ctx, case, obs, sc, site='permutation')
                if count % 3 == 0 or ctx.tier != 'quick':
                    reqs.append(('volumePositions', _margs(sc)))
                    pend.append((case, obs, False))
                count += 1
    ctx.exhaustive.append(f'every input permutation of regular / gapped / duplicated stacks of 2..{nmax} planes ({count} orders)')


def _malformed_cases(ctx, reqs, pend):
    """option combinations and shapes the function must refuse (ok-vs-error against the model)"""
    from highdicom import spatial as sp
    n = ctx.n(250, 700)
    kinds = ['unsorted_dups', 'unsorted_missing', 'both_tol', 'hint_zero', 'empty', 'ragged', 'orilen', 'conv', 'hand',
             'single_bad_ori']
    for i in range(n):
        r = ctx.rng('bad', i)
        sc = _scenario(r, 0, want='regular')
        kind = kinds[i % len(kinds)]
        opts = dict(sc['opts'])
        pos, ori = sc['positions'], sc['ori']
        margs = None
        refused = True
        if kind == 'unsorted_dups':
            opts.update(sort=False, allow_duplicate_positions=True)
        elif kind == 'unsorted_missing':
            opts.update(sort=False, allow_missing_positions=True)
        elif kind == 'both_tol':
            opts.update(rtol=0.01, atol=0.01)
        elif kind == 'hint_zero':
            opts.update(spacing_hint=0.0)
        elif kind == 'empty':
            pos = []
        elif kind == 'ragged':
            pos = [p[:2] for p in pos]
        elif kind == 'orilen':
            ori = ori[:5]
        elif kind == 'conv':
            opts['index_convention'] = r.choice(['RL', 'XX', 'D'])
        elif kind == 'hand':
            opts['handedness'] = 'NO_HANDED'
        elif kind == 'single_bad_ori':
            # a single plane is answered before the orientation is looked at
            pos, ori, refused = pos[:1], ori[:5], False
            opts.pop('index_convention', None)
            opts.pop('handedness', None)
        sc2 = dict(sc, positions=pos, ori=ori, opts=opts)
        st, val = _call(sp.get_volume_positions, pos, ori, **opts)
        obs = _observe(st, val)
        case = {'fn': 'get_volume_positions', 'malformed': kind, 'positions': pos, 'ori': ori, 'opts': _plain_opts(opts)}
        ctx.case(scenario='malformed-' + kind, outcome=obs[0])
        if refused and obs[0] != 'err':
            ctx.fail(case, {'what': 'malformed call accepted', 'got': obs}, site='malformed')
        if not refused and obs[0] != 'ok':
            ctx.fail(case, {'what': 'single plane refused', 'got': obs}, site='malformed')
        reqs.append(('volumePositions', _margs(sc2)))
        pend.append((case, obs, False))


def _integer_cases(ctx, reqs, pend):
    """integer-valued positions (lists of int, int arrays) are positions too"""
    from highdicom import spatial as sp
    n = ctx.n(160, 400)
    for i in range(n):
        r = ctx.rng('int', i)
        row, col = AXIS_PAIRS[r.randrange(24)]
        ori = [int(x) for x in row] + [int(x) for x in col]
        nrm = _normal([float(x) for x in ori], 'DR', 'RIGHT_HANDED')
        s = r.choice([1, 2, 3, 5])
        nsl = r.randint(2, 6)
        origin = np.array([r.randint(-20, 20) for _ in range(3)])
        ks = list(range(nsl))
        r.shuffle(ks)
        positions = [[int(x) for x in origin + k * s * nrm.astype(int)] for k in ks]
        arg = positions if i % 2 == 0 else np.array(positions, dtype=np.int64)
        st, val = _call(sp.get_volume_positions, arg, ori)
        obs = _observe(st, val)
        case = {'fn': 'get_volume_positions', 'integer': True, 'positions': positions, 'ori': ori, 'opts': {},
                'expected': ('ok', float(s), ks)}
        ctx.case(scenario='integer-positions', n=nsl, outcome=obs[0], nontrivial_key=('int', nsl, i % 2, obs[0]))
        sc = {'expected': ('ok', float(s), ks), 'scenario': 'regular', 'opts': {}, 'normal': [float(x) for x in nrm],
              'positions': [[float(x) for x in p] for p in positions], 's': float(s)}
        _check_expected(ctx, case, obs, sc)
        reqs.append(('volumePositions', {'positions': [RL(p) for p in positions], 'ori': RL(ori)}))
        pend.append((case, obs, True))


def _hint_drift_cases(ctx, reqs, pend):
    """(1) long stacks in the gaps branch with a hint 0.75-0.9 % off the true spacing: planes far up are half a spacing and
    more off the hinted grid, so the stack must be REFUSED (defect C11-gaps-tolerance-grows, repaired).
    (2) open finding C11-gaps-min-gap-estimate: a handful of cases, run LAST, at most one failure each, so that the attributed
    failures can never crowd real ones out of the (bounded) failure list."""
    from highdicom import spatial as sp
    for want in ('hint_drift', 'min_gap_jitter'):
        for i in range(6 if ctx.tier == 'quick' else 12):
            r = ctx.rng(want, i)
            sc = _scenario(r, i, want=want)
            st, val = _call(sp.get_volume_positions, sc['positions'], sc['ori'], **sc['opts'])
            obs = _observe(st, val)
            case = {'fn': 'get_volume_positions', 'i': i, 'scenario': want, 'positions': sc['positions'], 'ori': sc['ori'],
                    'opts': _plain_opts(sc['opts']), 'expected': sc['expected']}
            if want == 'min_gap_jitter':
                case['min_gap_jittered'] = True
            ctx.case(scenario=want, n=len(sc['positions']), outcome=obs[0], expected=sc['expected'][0],
                     nontrivial_key=(want, i, obs[0]))
            before = len(ctx.failures)
            _check_expected(ctx, case, obs, sc)
            if len(ctx.failures) == before:
                _check_order(ctx, case, obs, sc)
            del ctx.failures[before + 1:]
            reqs.append(('volumePositions', _margs(sc)))
            pend.append((case, obs, False))


# ------------------------------------------------------------------ 2. numpy primitives against their declarative models (L2)
def _primitive_cases(ctx, reqs, pend2):
    n = ctx.n(500, 1500)
    for i in range(n):
        r = ctx.rng('prim', i)
        m = r.randint(1, 8)
        vals = [r.choice([0.0, 0.5, 1.0, -1.0, 2.0, 0.25, 3.0]) if r.random() < 0.6 else _dy(r, -4, 4) for _ in range(m)]
        d = np.array(vals)
        order = np.argsort(d, kind='stable')
        ranks = np.argsort(np.argsort(d))
        reqs.append(('ranks', {'d': RL(vals)}))
        # numpy's default sort does not specify the order of ties: ranks / argsort are compared on tie-free input only
        want = {'sorted': [float(x) for x in np.sort(d)]}
        if len(set(vals)) == len(vals):
            want.update(ranks=[int(x) for x in ranks], argsort=[int(x) for x in np.argsort(d)])
        pend2.append(({'fn': 'argsort', 'd': vals}, want))
        rows = [[r.choice([0.0, 1.0, -1.0, 0.5]) for _ in range(3)] for _ in range(m)]
        u, inv = np.unique(np.array(rows), axis=0, return_inverse=True)
        reqs.append(('uniqueRows', {'positions': [RL(x) for x in rows]}))
        pend2.append(({'fn': 'unique', 'rows': rows}, {'unique': u.tolist(), 'inverse': [int(x) for x in np.asarray(inv).reshape(-1)]}))
        ctx.case(scenario='primitives')


# ------------------------------------------------------------------ 3. series / multi-frame assembly
def _permute_frames(ds, order):
    """the same multi-frame image with its frames stored in another order"""
    import copy
    from pydicom.sequence import Sequence as DSeq
    out = copy.deepcopy(ds)
    n = int(ds.NumberOfFrames)
    fb = len(ds.PixelData) // n if n else 0
    per = int(ds.Rows) * int(ds.Columns) * int(ds.SamplesPerPixel) * (int(ds.BitsAllocated) // 8)
    out.PerFrameFunctionalGroupsSequence = DSeq([copy.deepcopy(ds.PerFrameFunctionalGroupsSequence[k]) for k in order])
    data = b''.join(ds.PixelData[k * per:(k + 1) * per] for k in order)
    if len(data) % 2:
        data += b'\x00'
    out.PixelData = data
    return out


def _stored_values(ds):
    """what a slice of the assembled volume must contain: the dataset's own stored values under the dataset's OWN modality
    transform (RescaleSlope / RescaleIntercept), as float64 - independent of every other dataset of the series"""
    return ds.pixel_array.astype(np.float64) * float(ds.RescaleSlope) + float(ds.RescaleIntercept)


def _multiframe_gaps(ctx, reqs, pend, r, case, base, ori, cls, s, rows, cols, order):
    """A multi-frame image with MISSING slice positions read through the Image-level entry points (get_volume_geometry,
    get_volume with allow_missing_positions=True), in memory and after a bytes round trip, frames in a shuffled order: the
    volume spans lowest..highest plane (max index + 1 slices, missing ones included), every present plane holds its frame,
    the origin is the lowest plane; without the flag the image is refused."""
    import copy
    import io
    import pydicom
    import highdicom as hd
    from gen.images import to_bytes
    nsl = int(base.NumberOfFrames)
    ds = copy.deepcopy(base)
    gen_nrm = np.cross(np.array(ori[:3]), np.array(ori[3:]))
    p0 = np.array([float(x) for x in ds.PerFrameFunctionalGroupsSequence[0].PlanePositionSequence[0].ImagePositionPatient])
    # plane numbers with gaps, two neighbours present (frame k of the generated image sits at plane ks[k])
    ks = [0, 1]
    while len(ks) < nsl:
        ks.append(ks[-1] + r.choice([1, 2, 2, 3]))
    if ks[-1] == nsl - 1:
        ks[-1] += 1
    for k, it in zip(ks, ds.PerFrameFunctionalGroupsSequence):
        it.PlanePositionSequence[0].ImagePositionPatient = [float(x) for x in p0 + k * s * gen_nrm]
    ds = _permute_frames(ds, order)
    kperm = [ks[k] for k in order]
    nvol = _normal(ori, 'DR', 'RIGHT_HANDED')
    dist = [float(np.dot(p0 + k * s * gen_nrm, nvol)) for k in kperm]
    lo = min(dist)
    want_idx = [int(round((d - lo) / abs(s))) for d in dist]         # by construction exact multiples
    want_n = max(want_idx) + 1
    gcase = dict(case, fn='Image.get_volume(allow_missing_positions)', planes=kperm)
    variants = [('memory', ds)]
    st_b, back = _call(lambda d: pydicom.dcmread(io.BytesIO(to_bytes(d))), ds)
    if st_b == 'ok':
        variants.append(('bytes', back))
    per = rows * cols
    fr = np.frombuffer(ds.PixelData[:nsl * per * 2], dtype=np.uint16).reshape(nsl, rows, cols)
    for vname, dv in variants:
        im = hd.Image.from_dataset(dv, copy=False)
        stg, geo = _call(im.get_volume_geometry, allow_missing_positions=True)
        stv, vol = _call(im.get_volume, allow_missing_positions=True)
        str_, _x = _call(im.get_volume)
        ctx.case(scenario='multiframe-gaps', n=nsl, ori=cls, outcome=stv if stv == 'ok' else vol,
                 nontrivial_key=('mfgaps', vname, nsl, cls, stv))
        if str_ == 'ok':
            ctx.fail(dict(gcase, variant=vname), 'image with missing slice positions assembled without allow_missing_positions', site='Image.get_volume')
        if stg != 'ok' or geo is None or stv != 'ok':
            ctx.fail(dict(gcase, variant=vname), f'image with declared gaps refused: geometry {stg}, volume {stv if stv == "ok" else vol}', site='Image.get_volume')
            continue
        lowest = p0 + kperm[dist.index(lo)] * s * gen_nrm
        for name, g in (('get_volume_geometry', geo), ('get_volume', vol)):
            if int(g.spatial_shape[0]) != want_n:
                ctx.fail(dict(gcase, variant=vname, api=name), {'what': 'number of slices is not highest - lowest plane + 1',
                                                               'got': int(g.spatial_shape[0]), 'want': want_n}, site='Image.get_volume')
            if abs(g.spacing[0] - abs(s)) > 1e-6 * abs(s) or np.abs(np.array(g.position) - lowest).max() > 1e-6 * (1 + np.abs(lowest).max()):
                ctx.fail(dict(gcase, variant=vname, api=name), {'what': 'spacing / origin of the volume with gaps', 'spacing': float(g.spacing[0]),
                                                               'position': list(g.position), 'want': [abs(s), lowest.tolist()]}, site='Image.get_volume')
        if int(vol.spatial_shape[0]) == want_n:
            for f, sl in enumerate(want_idx):
                pv = getattr(dv.PerFrameFunctionalGroupsSequence[f], 'PixelValueTransformationSequence', None)
                want_px = fr[f].astype(np.float64) * (float(pv[0].RescaleSlope) if pv else 1.0) + (float(pv[0].RescaleIntercept) if pv else 0.0)
                if not np.array_equal(vol.array[sl], want_px):
                    ctx.fail(dict(gcase, variant=vname, frame=f + 1, slice=sl), 'a present plane does not hold its frame', site='Image.get_volume')
                    break
        if vname == 'memory':
            fpos = [[float(x) for x in it.PlanePositionSequence[0].ImagePositionPatient] for it in dv.PerFrameFunctionalGroupsSequence]
            sbs = float(dv.SharedFunctionalGroupsSequence[0].PixelMeasuresSequence[0].SpacingBetweenSlices)
            reqs.append(('assembleFrames', {'positions': [RL(p) for p in fpos], 'ori': RL(ori), 'hint': R(sbs), 'allow_missing': True}))
            pend.append((dict(gcase, fn='Image.get_volume_geometry(allow_missing_positions)'),
                         ('frames', float(geo.spacing[0]), [float(x) for x in geo.position], int(geo.spatial_shape[0]), None), False))


def _assembly_cases(ctx, reqs, pend):
    import highdicom as hd
    from highdicom import spatial as sp
    from gen import sources
    n = ctx.n(450, 900)
    for i in range(n):
        r = ctx.rng('series', i)
        ori, cls = _orientation(r)
        nsl = r.choice([1, 2, 3, 3, 4, 5, 6])
        s = r.choice([0.5, 1.0, 1.25, 2.5, 0.7]) * r.choice([1, 1, -1])
        origin = [_dy(r, -100, 100) for _ in range(3)]
        ps = [r.choice([0.5, 1.0, 0.75]), r.choice([0.5, 1.0, 0.25])]
        rows, cols = r.randint(1, 4), r.randint(1, 5)
        order = list(range(nsl))
        r.shuffle(order)
        kind = ['series', 'multiframe'][i % 2]
        irregular = r.random() < 0.15 and nsl >= 3
        case = {'fn': kind, 'i': i, 'ori': ori, 'n': nsl, 's': s, 'order': order, 'irregular': irregular}
        seedpix = ctx.seed * 100003 + i
        if kind == 'series':
            base = sources.ct_series(nsl, rows, cols, orientation=ori, origin=origin, pixel_spacing=ps, slice_spacing=s,
                                     rng=np.random.default_rng(seedpix))
            if not irregular and i % 3 == 0:
                # the slice spacing is declared on every dataset, or on one of them only (anywhere in the order)
                for ds in (base if r.random() < 0.5 else [base[r.randrange(nsl)]]):
                    ds.SpacingBetweenSlices = abs(s)
            if i % 4 != 3:
                # PET / MR style: every slice carries its own rescale parameters (dyadic, so the expectation is exact)
                for ds in base:
                    ds.RescaleSlope = r.choice([0.5, 1.0, 2.0, 1.25, 4.0])
                    ds.RescaleIntercept = r.choice([0.0, -10.0, 7.5, 100.0, -1024.0])
            if irregular:
                p = np.array([float(x) for x in base[-1].ImagePositionPatient]) + 0.5 * abs(s) * np.cross(np.array(ori[:3]), np.array(ori[3:]))
                base[-1].ImagePositionPatient = [float(x) for x in p]
            shuffled = [base[k] for k in order]
            st0, v0 = _call(hd.get_volume_from_series, base)
            st1, v1 = _call(hd.get_volume_from_series, shuffled)
            ctx.case(sample=case if i % 11 == 0 else None, scenario='series', n=nsl, ori=cls, outcome=st1 if st1 == 'ok' else v1,
                     nontrivial_key=('series', nsl, cls, st1, irregular) if nsl > 1 else None)
            if irregular:
                if st0 == 'ok' or st1 == 'ok':
                    ctx.fail(case, 'irregular series assembled into a volume', site='get_volume_from_series')
                continue
            if st0 != 'ok' or st1 != 'ok':
                ctx.fail(case, f'regular series refused: {v0 if st0 != "ok" else v1}', site='get_volume_from_series')
                continue
            if not (np.array_equal(v0.array, v1.array) and np.array_equal(v0.affine, v1.affine)):
                ctx.fail(case, {'what': 'assembled volume depends on the order of the datasets',
                                'affine0': v0.affine.tolist(), 'affine1': v1.affine.tolist()}, site='get_volume_from_series')
            # every slice of the volume is the dataset that lies at that slice's physical position
            for k in range(nsl):
                want_pos = v1.map_indices_to_reference(np.array([[k, 0, 0]]))[0]
                hit = [d for d in shuffled if np.abs(np.array([float(x) for x in d.ImagePositionPatient]) - want_pos).max() < 1e-6 * (1 + np.abs(want_pos).max())]
                if len(hit) != 1 or not np.array_equal(v1.array[k], _stored_values(hit[0])):
                    ctx.fail(dict(case, slice=k), 'slice content is not the dataset at that position', site='get_volume_from_series')
                    break
            # no hidden state: the same instances (same UIDs) moved elsewhere assemble to the moved volume
            import copy as _copy
            shift = np.array([_dy(r, -50, 50) for _ in range(3)])
            moved = [_copy.deepcopy(d) for d in shuffled]
            for d in moved:
                d.ImagePositionPatient = [float(x) for x in np.array([float(x) for x in d.ImagePositionPatient]) + shift]
            st2m, v2 = _call(hd.get_volume_from_series, moved)
            if st2m != 'ok' or np.abs(np.array(v2.position) - (np.array(v1.position) + shift)).max() > 1e-6 * (1 + np.abs(shift).max() + np.abs(np.array(v1.position)).max()) \
                    or not np.array_equal(v2.array, v1.array):
                ctx.fail(dict(case, what='same instances moved'), {'what': 'volume does not follow the current positions of the datasets',
                                                                  'status': st2m}, site='get_volume_from_series')
            if nsl == 1:
                # one dataset: its own SpacingBetweenSlices or 1
                positions = [[float(x) for x in d.ImagePositionPatient] for d in shuffled]
                sbs1 = [R(float(d.SpacingBetweenSlices)) if 'SpacingBetweenSlices' in d else None for d in shuffled]
                reqs.append(('assembleSeries', {'positions': [RL(p) for p in positions], 'ori': RL(ori), 'sbs': sbs1}))
                pend.append((dict(case, fn='get_volume_from_series'), ('assembly', float(v1.spacing[0]), [float(x) for x in v1.position], [0]), False))
            # sort_datasets yields that order; along the positive normal of the volume convention
            if nsl > 1:
                st2, srt = _call(sp.sort_datasets, shuffled)
                nvol = _normal(ori, 'DR', 'RIGHT_HANDED')
                if st2 != 'ok':
                    ctx.fail(case, f'sort_datasets refused: {srt}', site='sort_datasets')
                else:
                    dd = [float(np.dot(np.array([float(x) for x in d.ImagePositionPatient]), nvol)) for d in srt]
                    if any(b <= a for a, b in zip(dd, dd[1:])) or sorted(id(x) for x in srt) != sorted(id(x) for x in shuffled):
                        ctx.fail(case, {'what': 'sort_datasets is not increasing along the positive normal', 'd': dd}, site='sort_datasets')
                    for k in range(nsl):
                        if not np.array_equal(v1.array[k], _stored_values(srt[k])):
                            ctx.fail(dict(case, slice=k), 'sort_datasets order differs from the assembled volume', site='sort_datasets')
                            break
                st3, (sp3, vp3) = _call(sp.get_series_volume_positions, shuffled)
                positions = [[float(x) for x in d.ImagePositionPatient] for d in shuffled]
                reqs.append(('assembleSeries', {'positions': [RL(p) for p in positions], 'ori': RL(ori),
                                                'sbs': [R(float(d.SpacingBetweenSlices)) if 'SpacingBetweenSlices' in d else None for d in shuffled]}))
                # observation through the public API: which input dataset became slice k, the volume position and spacing
                match = [[int(np.array_equal(v1.array[k], _stored_values(d))) for d in shuffled] for k in range(nsl)]
                src = [m.index(1) for m in match] if all(sum(m) == 1 for m in match) else None
                pend.append((dict(case, fn='get_volume_from_series'), ('assembly', float(v1.spacing[0]), [float(x) for x in v1.position], src), False))
                reqs.append(('planeSortIndex', {'positions': [RL(p) for p in positions], 'ori': RL(ori)}))
                pend.append((dict(case, fn='get_plane_sort_index'), ('sortidx', sp.get_plane_sort_index(positions, ori)), False))
        else:
            if nsl < 2:
                nsl = 2
                order = [1, 0]
            base = sources.enhanced_multiframe(nsl, rows, cols, orientation=ori, origin=origin, pixel_spacing=ps, slice_spacing=s,
                                               rng=np.random.default_rng(seedpix))
            if i % 4 != 1:
                # every frame carries its own modality transform (per-frame Pixel Value Transformation)
                from pydicom.dataset import Dataset as _DS
                from pydicom.sequence import Sequence as _Seq
                for it in base.PerFrameFunctionalGroupsSequence:
                    t = _DS()
                    t.RescaleSlope = r.choice([0.5, 1.0, 2.0, 1.25, 4.0])
                    t.RescaleIntercept = r.choice([0.0, -10.0, 7.5, 100.0, -1024.0])
                    t.RescaleType = 'US'
                    it.PixelValueTransformationSequence = _Seq([t])
            if irregular:
                it = base.PerFrameFunctionalGroupsSequence[-1].PlanePositionSequence[0]
                p = np.array([float(x) for x in it.ImagePositionPatient]) + 0.5 * abs(s) * np.cross(np.array(ori[:3]), np.array(ori[3:]))
                it.ImagePositionPatient = [float(x) for x in p]
            if not irregular and i % 3 == 1 and nsl >= 3:
                _multiframe_gaps(ctx, reqs, pend, r, case, base, ori, cls, s, rows, cols, order)
            shuffled = _permute_frames(base, order)
            st0, v0 = _call(lambda d: hd.Image.from_dataset(d, copy=False).get_volume(), base)
            st1, v1 = _call(lambda d: hd.Image.from_dataset(d, copy=False).get_volume(), shuffled)
            ctx.case(sample=case if i % 11 == 1 else None, scenario='multiframe', n=nsl, ori=cls, outcome=st1 if st1 == 'ok' else v1,
                     nontrivial_key=('mf', nsl, cls, st1, irregular))
            if irregular:
                if st0 == 'ok' or st1 == 'ok':
                    ctx.fail(case, 'irregular frames assembled into a volume', site='Image.get_volume')
                continue
            if st0 != 'ok' or st1 != 'ok':
                ctx.fail(case, f'regular multi-frame image refused: {v0 if st0 != "ok" else v1}', site='Image.get_volume')
                continue
            if not (np.array_equal(v0.array, v1.array) and np.array_equal(v0.affine, v1.affine)):
                ctx.fail(case, {'what': 'volume depends on the order of the frames', 'affine0': v0.affine.tolist(), 'affine1': v1.affine.tolist()},
                         site='Image.get_volume')
            # no hidden state: the same instance (same UID) with every frame moved assembles to the moved volume
            import copy as _copy
            shift = np.array([_dy(r, -50, 50) for _ in range(3)])
            moved = _copy.deepcopy(shuffled)
            for it in moved.PerFrameFunctionalGroupsSequence:
                pp = it.PlanePositionSequence[0]
                pp.ImagePositionPatient = [float(x) for x in np.array([float(x) for x in pp.ImagePositionPatient]) + shift]
            st2m, v2 = _call(lambda d: hd.Image.from_dataset(d, copy=False).get_volume(), moved)
            if st2m != 'ok' or np.abs(np.array(v2.position) - (np.array(v1.position) + shift)).max() > 1e-6 * (1 + np.abs(shift).max() + np.abs(np.array(v1.position)).max()) \
                    or not np.array_equal(v2.array, v1.array):
                ctx.fail(dict(case, what='same instance moved'), {'what': 'volume does not follow the current frame positions', 'status': st2m},
                         site='Image.get_volume')
            # model: geometry and frame placement (L0 through get_volume_geometry; L2 through the private helper)
            fpos = [[float(x) for x in it.PlanePositionSequence[0].ImagePositionPatient] for it in shuffled.PerFrameFunctionalGroupsSequence]
            sbs = float(shuffled.SharedFunctionalGroupsSequence[0].PixelMeasuresSequence[0].SpacingBetweenSlices)
            im1 = hd.Image.from_dataset(shuffled, copy=False)
            helper = getattr(im1, '_get_stacked_volume_geometry', None)
            if helper is not None:
                stg, res = _call(helper)
                if stg == 'ok':
                    geom, fps = res
                    reqs.append(('assembleFrames', {'positions': [RL(p) for p in fpos], 'ori': RL(ori), 'hint': R(sbs)}))
                    pend.append((dict(case, fn='_get_stacked_volume_geometry', layer='L2'),
                                 ('frames', float(geom.spacing[0]), [float(x) for x in geom.position], int(geom.spatial_shape[0]),
                                  [int(v) for _, v in sorted(fps)]), False))
            reqs.append(('assembleFrames', {'positions': [RL(p) for p in fpos], 'ori': RL(ori), 'hint': R(sbs)}))
            pend.append((dict(case, fn='Image.get_volume'),
                         ('frames', float(v1.spacing[0]), [float(x) for x in v1.position], int(v1.spatial_shape[0]), None), False))
            fr = np.frombuffer(shuffled.PixelData[:nsl * rows * cols * 2], dtype=np.uint16).reshape(nsl, rows, cols)
            for k in range(nsl):
                want_pos = v1.map_indices_to_reference(np.array([[k, 0, 0]]))[0]
                hits = [f for f in range(nsl) if np.abs(np.array([float(x) for x in shuffled.PerFrameFunctionalGroupsSequence[f].PlanePositionSequence[0].ImagePositionPatient]) - want_pos).max() < 1e-6 * (1 + np.abs(want_pos).max())]
                if len(hits) == 1:
                    pv = getattr(shuffled.PerFrameFunctionalGroupsSequence[hits[0]], 'PixelValueTransformationSequence', None)
                    want_px = fr[hits[0]].astype(np.float64) * (float(pv[0].RescaleSlope) if pv else 1.0) + (float(pv[0].RescaleIntercept) if pv else 0.0)
                if len(hits) != 1 or not np.array_equal(v1.array[k], want_px):
                    ctx.fail(dict(case, slice=k), 'slice content is not the frame at that position', site='Image.get_volume')
                    break


def _series_wrapper_cases(ctx, reqs, pend):
    """get_series_volume_positions / get_dataset_sort_index / get_volume_from_series: wrapper rules around the core"""
    import copy
    import highdicom as hd
    from highdicom import spatial as sp
    from gen import sources
    n = ctx.n(500, 800)
    kinds = ['plain', 'plain', 'hint_ok', 'hint_bad', 'hint_one', 'hint_one_bad', 'hint_conflict', 'other_orientation', 'one', 'empty',
             'multiframe', 'other_series', 'other_for', 'other_spacing', 'no_orientation']
    for i in range(n):
        r = ctx.rng('wrap', i)
        kind = kinds[i % len(kinds)]
        ori, cls = _orientation(r)
        nsl = r.choice([2, 3, 4, 5])
        s = r.choice([0.5, 1.0, 1.25, 2.5])
        origin = [_dy(r, -100, 100) for _ in range(3)]
        order = list(range(nsl))
        r.shuffle(order)
        dss = sources.ct_series(nsl, 2, 3, orientation=ori, origin=origin, pixel_spacing=(0.5, 0.5), slice_spacing=s, order=order,
                                rng=np.random.default_rng(ctx.seed * 7919 + i))
        nvol = _normal(ori, 'DR', 'RIGHT_HANDED')
        d = [float(np.dot(np.array([float(x) for x in ds.ImagePositionPatient]), nvol)) for ds in dss]
        rank = [sorted(d).index(x) for x in d]
        expect = ('ok', s, rank)
        # SpacingBetweenSlices on the datasets: on all of them, on ONE (any place in the given order), conflicting values
        if kind == 'hint_ok':
            for ds in dss:
                ds.SpacingBetweenSlices = s
        elif kind == 'hint_bad':
            for ds in dss:
                ds.SpacingBetweenSlices = 2 * s
            expect = ('err',)
        elif kind == 'hint_one':
            dss[r.randrange(nsl)].SpacingBetweenSlices = s
        elif kind == 'hint_one_bad':
            dss[r.randrange(nsl)].SpacingBetweenSlices = 2 * s
            expect = ('err',)
        elif kind == 'hint_conflict':
            a, b = r.sample(range(nsl), 2)
            dss[a].SpacingBetweenSlices = 2 * s
            dss[b].SpacingBetweenSlices = 3 * s          # no agreed value: no hint
        if kind == 'other_orientation':
            j = r.randrange(1, nsl)
            o2 = list(dss[j].ImageOrientationPatient)
            alt, _ = _orientation(r)
            while alt == [float(x) for x in o2]:
                alt, _ = _orientation(r)
            dss[j].ImageOrientationPatient = alt
            expect = ('none',)
        elif kind == 'one':
            dss = dss[:1]
            expect = ('ok', 1.0, [0])
        elif kind == 'empty':
            dss = []
            expect = ('err',)
        elif kind == 'multiframe':
            dss[r.randrange(nsl)] = sources.enhanced_multiframe(2, 2, 3, orientation=ori)
            expect = ('err',)
        case = {'fn': 'get_series_volume_positions', 'kind': kind, 'i': i, 'n': len(dss)}
        if kind in ('plain', 'hint_ok', 'hint_bad', 'hint_one', 'hint_one_bad', 'hint_conflict', 'other_orientation', 'one', 'empty', 'multiframe'):
            st, val = _call(sp.get_series_volume_positions, dss)
            obs = _observe(st, val)
            ctx.case(scenario='series-' + kind, outcome=obs[0], nontrivial_key=('wrap', kind, len(dss), cls, obs[0]))
            bad = (expect[0] != obs[0]) or (obs[0] == 'ok' and (obs[2] != expect[2] or abs(obs[1] - expect[1]) > 1e-6 * expect[1]))
            if bad:
                ctx.fail(case, {'got': obs, 'want': expect}, site='get_series_volume_positions')
            if kind != 'multiframe':
                args = {'positions': [RL([float(x) for x in ds.ImagePositionPatient]) for ds in dss],
                        'orientations': [RL([float(x) for x in ds.ImageOrientationPatient]) for ds in dss]}
                args['sbs'] = [R(float(ds.SpacingBetweenSlices)) if 'SpacingBetweenSlices' in ds else None for ds in dss]
                reqs.append(('seriesVolumePositions', args))
                pend.append((case, obs, False))
            # the answer must not depend on the order of the datasets
            if len(dss) > 1 and kind != 'multiframe':
                perm = list(range(len(dss)))
                r.shuffle(perm)
                st_p, val_p = _call(sp.get_series_volume_positions, [dss[k] for k in perm])
                obs_p = _observe(st_p, val_p)
                want_p = obs if obs[0] != 'ok' else ('ok', obs[1], [obs[2][k] for k in perm])
                if obs_p[0] != want_p[0] or (obs_p[0] == 'ok' and obs_p[2] != want_p[2]):
                    ctx.fail(dict(case, perm=perm), {'what': 'get_series_volume_positions depends on the order of the datasets',
                                                     'got': obs_p, 'want': want_p}, site='get_series_volume_positions')
                stv, _v = _call(hd.get_volume_from_series, dss)
                stw, _w = _call(hd.get_volume_from_series, [dss[k] for k in perm])
                if (stv == 'ok') != (stw == 'ok') or (stv == 'ok' and not (np.array_equal(_v.array, _w.array) and np.array_equal(_v.affine, _w.affine))):
                    ctx.fail(dict(case, perm=perm, fn='get_volume_from_series'), {'what': 'assembly depends on the order of the datasets',
                                                                                  'given': stv, 'permuted': stw}, site='get_volume_from_series')
        # every option of the wrapper reaches the core: same answer as get_volume_positions on the extracted positions
        if kind == 'plain' and nsl >= 3:
            kw = {}
            conv = r.choice(CONVS)
            hand = r.choice(['RIGHT_HANDED', 'LEFT_HANDED'])
            pick = r.choice(['conv_hand', 'missing', 'duplicate', 'rtol', 'atol', 'unsorted'])
            dsel = list(dss)
            if pick == 'conv_hand':
                kw = {'index_convention': _spell_conv(r, conv), 'handedness': _spell_hand(r, hand)}
            elif pick == 'missing':
                dsel = [d for j, d in enumerate(dss) if rank[j] != 1]          # plane 1 is absent
                kw = {'allow_missing_positions': True}
                if len(dsel) < 3 or sorted(rank[j] for j, d in enumerate(dss) if rank[j] != 1)[:2] != [0, 2]:
                    pass
            elif pick == 'duplicate':
                dsel = dsel + [copy.deepcopy(dsel[0])]
                kw = {'allow_duplicate_positions': True}
            elif pick == 'rtol':
                kw = {'rtol': 0.05}
            elif pick == 'atol':
                kw = {'atol': 0.01 * s}
            elif pick == 'unsorted':
                kw = {'sort': False, 'enforce_handedness': r.random() < 0.5}
                if r.random() < 0.6:
                    dsel = [copy.deepcopy(d) for d in dsel]
                    for d in dsel:
                        d.SpacingBetweenSlices = s          # a matching declared spacing never changes the answer
            st_w, val_w = _call(sp.get_series_volume_positions, dsel, **kw)
            st_c, val_c = _call(sp.get_volume_positions, [[float(x) for x in d.ImagePositionPatient] for d in dsel],
                                [float(x) for x in dsel[0].ImageOrientationPatient],
                                **(dict(kw, spacing_hint=float(dsel[0].SpacingBetweenSlices)) if 'SpacingBetweenSlices' in dsel[0] else kw))
            ctx.case(scenario='series-options-' + pick, outcome=_observe(st_w, val_w)[0])
            if _observe(st_w, val_w) != _observe(st_c, val_c):
                ctx.fail(dict(case, options=_plain_opts(kw)), {'what': 'get_series_volume_positions does not pass its options on',
                                                               'wrapper': _observe(st_w, val_w), 'core': _observe(st_c, val_c)},
                         site='get_series_volume_positions')
            # the tolerances of the volume builder reach the core as well: a slice 3 % off is refused by default, accepted with rtol = 10 %
            if pick in ('rtol', 'atol') and nsl >= 3:
                jit = [copy.deepcopy(d) for d in dss]
                j = rank.index(1)
                p = np.array([float(x) for x in jit[j].ImagePositionPatient]) + 0.03 * s * nvol
                jit[j].ImagePositionPatient = [float(x) for x in p]
                st_d, _ = _call(hd.get_volume_from_series, jit)
                st_r, _ = _call(hd.get_volume_from_series, jit, rtol=0.1)
                st_a, _ = _call(hd.get_volume_from_series, jit, atol=0.1 * s)
                if st_d == 'ok' or st_r != 'ok' or st_a != 'ok':
                    ctx.fail(dict(case, fn='get_volume_from_series'), {'what': 'tolerances of the volume builder', 'default': st_d, 'rtol': st_r, 'atol': st_a},
                             site='get_volume_from_series')
        # the volume builder refuses series that are not one stack of one series in one frame of reference
        if kind in ('other_series', 'other_for', 'other_spacing', 'other_orientation', 'no_orientation'):
            j = r.randrange(1, nsl)
            if kind == 'other_series':
                dss[j].SeriesInstanceUID = sources._uid()
            elif kind == 'other_for':
                dss[j].FrameOfReferenceUID = sources._uid()
            elif kind == 'other_spacing':
                dss[j].PixelSpacing = [0.25, 0.5]
            st, val = _call(hd.get_volume_from_series, dss) if kind != 'no_orientation' else ('skip', None)
            if kind != 'no_orientation':
                ctx.case(scenario='volume-' + kind, outcome=st if st == 'ok' else val)
                if st == 'ok':
                    ctx.fail(dict(case, fn='get_volume_from_series'), 'inconsistent series assembled into a volume', site='get_volume_from_series')
            # sorting: inconsistent orientation / missing orientation / multi-frame first are refused
            if kind == 'no_orientation':
                del dss[0].ImageOrientationPatient
            if kind in ('other_orientation', 'no_orientation'):
                st, val = _call(sp.sort_datasets, dss)
                ctx.case(scenario='sort-' + kind, outcome=st if st == 'ok' else val)
                if st == 'ok':
                    ctx.fail(dict(case, fn='sort_datasets'), 'datasets without a common orientation were sorted', site='sort_datasets')


def _sort_index_cases(ctx, reqs, pend):
    """get_plane_sort_index / get_dataset_sort_index / sort_datasets for every index convention and handedness in every
    accepted spelling: the order must run along the positive normal of THAT convention and handedness, and must be the
    order of the volume indices of get_volume_positions for the same options."""
    from highdicom import spatial as sp
    from gen import sources
    n = ctx.n(550, 1000)
    combos = [(c, h) for c in CONVS for h in ('RIGHT_HANDED', 'LEFT_HANDED')]
    for i in range(n):
        r = ctx.rng('sortidx', i)
        conv, hand = combos[i % len(combos)]
        ori, cls = _orientation(r)
        nsl = r.choice([2, 3, 4, 5, 6])
        s = r.choice([0.5, 1.0, 1.5, 2.5])
        nrm = _normal(ori, conv, hand)
        origin = np.array([_dy(r, -100, 100) for _ in range(3)])
        ks = list(range(nsl))
        r.shuffle(ks)
        positions = [[float(x) for x in origin + k * s * nrm] for k in ks]
        kw = {}
        # defaults are only left out when they ARE the defaults
        if conv != 'DR' or r.random() < 0.5:
            kw['index_convention'] = _spell_conv(r, conv)
        if hand != 'RIGHT_HANDED' or r.random() < 0.5:
            kw['handedness'] = _spell_hand(r, hand)
        want = [ks.index(k) for k in range(nsl)]          # where plane k sits in the input
        case = {'fn': 'get_plane_sort_index', 'i': i, 'positions': positions, 'ori': ori, 'opts': _plain_opts(kw), 'ks': ks}
        st, idx = _call(sp.get_plane_sort_index, positions, ori, **kw)
        ctx.case(scenario='sort-index', conv=conv, hand=hand, outcome=st if st == 'ok' else idx,
                 nontrivial_key=('sortidx', conv, hand, type(kw.get('handedness')).__name__, type(kw.get('index_convention')).__name__))
        if st != 'ok' or [int(x) for x in idx] != want:
            ctx.fail(case, {'what': 'sort index does not run along the positive normal of the requested convention / handedness',
                            'got': idx if st != 'ok' else [int(x) for x in idx], 'want': want}, site='get_plane_sort_index')
        margs = {'positions': [RL(p) for p in positions], 'ori': RL(ori), 'conv': conv, 'handedness': hand}
        reqs.append(('planeSortIndex', margs))
        pend.append((case, ('sortidx', idx if st == 'ok' else []), False))
        # the same through datasets, and against the volume indices for the same options
        dss = sources.ct_series(nsl, 2, 2, orientation=ori, origin=[0.0, 0.0, 0.0])
        for ds, p in zip(dss, positions):
            ds.ImagePositionPatient = p
        st2, idx2 = _call(sp.get_dataset_sort_index, dss, **kw)
        st3, srt = _call(sp.sort_datasets, dss, **kw)
        st4, vp = _call(sp.get_volume_positions, positions, ori, **kw)
        if st2 != 'ok' or [int(x) for x in idx2] != want:
            ctx.fail(dict(case, fn='get_dataset_sort_index'), {'got': idx2 if st2 != 'ok' else [int(x) for x in idx2], 'want': want}, site='sort_datasets')
        if st3 != 'ok' or [id(x) for x in srt] != [id(dss[k]) for k in want]:
            ctx.fail(dict(case, fn='sort_datasets'), 'datasets are not returned in the order of the plane numbers', site='sort_datasets')
        if st4 != 'ok' or vp[1] is None or [int(x) for x in vp[1]] != ks:
            ctx.fail(dict(case, fn='get_volume_positions'), {'what': 'volume indices differ from the plane numbers', 'got': repr(vp)[:200], 'want': ks},
                     site='get_volume_positions')


# ------------------------------------------------------------------ run
def _compare(ctx, reqs, pend, pend2):
    answers = ctx.model(reqs)
    if answers is None:
        return
    it = iter(answers)
    # order of requests: as appended; pend and pend2 entries were appended in the same order as their requests
    for kind, entry in ctx._order:
        ans = next(it)
        if kind == 'p':
            case, obs, exact = entry
            if obs[0] == 'assembly':
                if 'ok' not in ans:
                    ctx.disagree('L0', case, obs, ans, 'ok-vs-error')
                    continue
                m = ans['ok']
                if abs(Fr(obs[1]) - _fr(m['spacing'])) > TOL * 4096 * max(1, abs(_fr(m['spacing']))) or \
                        any(abs(Fr(a) - _fr(b)) > TOL * 4096 * (1 + abs(_fr(b))) for a, b in zip(obs[2], m['position'])) or \
                        (obs[3] is not None and obs[3] != m['order']):
                    ctx.disagree('L0', case, obs, ans, 'assembly')
            elif obs[0] == 'frames':
                layer = case.get('layer', 'L0')
                if 'ok' not in ans:
                    ctx.disagree(layer, case, obs, ans, 'ok-vs-error')
                    continue
                m = ans['ok']
                if abs(Fr(obs[1]) - _fr(m['spacing'])) > TOL * 4096 * max(1, abs(_fr(m['spacing']))) or \
                        any(abs(Fr(a) - _fr(b)) > TOL * 4096 * (1 + abs(_fr(b))) for a, b in zip(obs[2], m['position'])) or \
                        obs[3] != m['slices'] or (obs[4] is not None and obs[4] != m['frame_slices']):
                    ctx.disagree(layer, case, obs, ans, 'frame assembly')
            elif obs[0] == 'sortidx':
                if 'ok' not in ans or [int(x) for x in obs[1]] != ans['ok']:
                    ctx.disagree('L0', case, obs, ans, 'sort index')
            else:
                _cmp_model(ctx, case, obs, ans, exact)
        else:
            case, want = entry
            if 'ok' not in ans:
                ctx.disagree('L2', case, want, ans, 'primitive')
                continue
            m = ans['ok']
            ok = True
            for k, v in want.items():
                mv = m[k]
                if k in ('sorted',):
                    ok = ok and [Fr(x) for x in v] == [_fr(x) for x in mv]
                elif k == 'unique':
                    ok = ok and [[Fr(x) for x in row] for row in v] == [[_fr(x) for x in row] for row in mv]
                else:
                    ok = ok and list(v) == list(mv)
            if not ok:
                ctx.disagree('L2', case, want, ans, 'numpy primitive differs from its declarative model')


class _Rec(list):
    """request list that records, per request, which pending list its answer belongs to"""


def run(ctx):
    reqs, pend, pend2 = [], [], []
    ctx._order = []

    def sync():
        # called after each generator: extend the order record by the newly appended entries
        while len(ctx._order) < len(reqs):
            ctx._order.append(None)

    marks = []

    def stage(fn, plist, tag):
        a, b = len(reqs), len(plist)
        fn()
        assert len(reqs) - a == len(plist) - b, (fn, len(reqs) - a, len(plist) - b)
        marks.extend((tag, e) for e in plist[b:])

    stage(lambda: _position_cases(ctx, reqs, pend), pend, 'p')
    stage(lambda: _exhaustive_perms(ctx, reqs, pend), pend, 'p')
    stage(lambda: _malformed_cases(ctx, reqs, pend), pend, 'p')
    stage(lambda: _integer_cases(ctx, reqs, pend), pend, 'p')
    stage(lambda: _primitive_cases(ctx, reqs, pend2), pend2, 'q')
    stage(lambda: _assembly_cases(ctx, reqs, pend), pend, 'p')
    stage(lambda: _series_wrapper_cases(ctx, reqs, pend), pend, 'p')
    stage(lambda: _sort_index_cases(ctx, reqs, pend), pend, 'p')
    stage(lambda: _hint_drift_cases(ctx, reqs, pend), pend, 'p')
    ctx._order = marks
    _compare(ctx, reqs, pend, pend2)


def attribute(failure, open_findings):
    """Failures of the oracle that belong to an open known finding (call site + input class); anything else stays a
    violation.  C11-gaps-min-gap-estimate: get_volume_positions in the gaps branch WITHOUT a hint, the constructed stack has
    its smallest gap jittered, and the failure is a refusal of a stack that is regular within tolerance."""
    case = failure.get('case') if isinstance(failure, dict) else None
    if not isinstance(case, dict) or failure.get('site') != 'get_volume_positions':
        return None
    opts = case.get('opts') or {}
    detail = failure.get('detail') or {}
    if opts.get('allow_missing_positions') and 'spacing_hint' not in opts and case.get('min_gap_jittered') \
            and isinstance(detail, dict) and detail.get('what') == 'regular stack not recognised':
        for f in open_findings:
            if f.get('id') == 'C11-gaps-min-gap-estimate':
                return f['id']
    return None


def replay(ctx, case):
    from highdicom import spatial as sp
    if isinstance(case, dict) and case.get('fn') == 'get_volume_positions' and 'positions' in case:
        opts = dict(case.get('opts', {}))
        if isinstance(opts.get('index_convention'), list):
            opts['index_convention'] = tuple(opts['index_convention'])
        st, val = _call(sp.get_volume_positions, case['positions'], case['ori'], **opts)
        obs = _observe(st, val)
        exp = case.get('expected')
        if exp is None:
            return None
        exp = tuple(exp)
        bad = (exp[0] == 'err' and obs[0] != 'err') or (exp[0] == 'none' and obs[0] != 'none') or \
              (exp[0] == 'ok' and (obs[0] != 'ok' or list(obs[2]) != list(exp[2])))
        return [{'case': case, 'detail': {'got': obs, 'want': exp}}] if bad else None
    sub = type(ctx)(ctx.prop, ctx.tier, ctx.seed, 1, ctx.driver)
    sub.model_available = False
    _assembly_cases(sub, [], [])
    return sub.failures[:3] or None
