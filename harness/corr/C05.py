"""C05  Every way of fetching stored frames returns the same pixels.

Tie T: T1 T1b T4 T11 T11b T11c T11d T12 (regenerated).  Tie C: the composed model (Model/FrameAccess.lean)
against Image.get_stored_frame on in-memory / eager-file / lazy-file images for native syntaxes.
Oracle (independent of the model): every access path equals pydicom's decode of that frame; numbers
outside the image raise.
"""
from __future__ import annotations

import glob
import io
import itertools
import os

import numpy as np

PROP = 'C05'
TARGETS = ['T1', 'T1b', 'T1c', 'T4', 'T11', 'T11b', 'T11c', 'T11d', 'T11e', 'T11f', 'T11g', 'T12', 'T12b']
LEAN_MODULES = ['HdVerif.Props.C05']
MODEL_MODULES = ['HdVerif.Model.FrameAccess', 'HdVerif.Model.EncapBytes', 'HdVerif.Model.FramePaths']
NAMESPACE = 'HdVerif.C05'
DRIVER = 'Drivers/C05.lean'
RULE = ('images generated from (bits, signed, samples, frames, rows, cols, syntax, offset table) with random pixels; '
        'one case = one (image, access path, frame number, as_index) fetch; non-trivial = in-range fetch of a frame '
        'with mixed content, distinct by (bits, rows*cols mod 8, frames, path, syntax, index)')
ASSUMPTIONS = [
    'PixelData of native 1-bit images is pack(frames.flatten) (checked against pydicom pack_bits each run)',
    'decoding bytes of >= 8-bit native frames to numbers is numpy frombuffer on every path (frames compared as bytes in the model)',
    'encapsulated syntaxes (RLE, JPEG-LS, fixtures): codec behaviour is not modelled; oracle only',
    'item lengths and offset-table entries below 2^32 / 2^64 (their field widths); little-endian transfer syntaxes',
    'the cache of the whole array is modelled by VALUE of the PixelData (pydicom compares object identities: replacing the value '
    'by an equal but distinct bytes object re-decodes, harmlessly; mutating a bytearray in place is outside the model)',
]
MODELLED_NOT_VERIFIED = ['pydicom file reader / pixel decoders (numbers from bytes, planar rearrangement)', 'numpy unpackbits/reshape',
                         'RLE / JPEG-LS / JPEG / JPEG 2000 codecs', 'pydicom.encaps get_frame (in-memory encapsulated access)',
                         'pydicom Dataset.pixel_array staleness check (hand model, stream history)', 'reader open/close depth']


def _images(ctx):
    """Yield (descr, dataset, frames-array)."""
    import hd_env  # noqa: F401
    from pydicom.uid import (ExplicitVRLittleEndian, ImplicitVRLittleEndian,
                             JPEGLSLossless, RLELossless)
    from gen.images import multiframe_image
    n_img = ctx.n(40, 600)
    for idx in range(n_img):
        r = ctx.rng('img', idx)
        bits = r.choice([1, 1, 1, 8, 16, 32])
        samples = 3 if (bits == 8 and r.random() < 0.3) else 1
        nfr = r.choice([1, 2, 3, 3, 4, 5, 7, 9])
        if r.random() < 0.8:
            rows, cols = r.randint(1, 6), r.randint(1, 7)
        else:
            rows, cols = r.randint(1, 40), r.randint(1, 40)
        signed = bits in (8, 16, 32) and samples == 1 and r.random() < 0.4
        if bits == 1 or bits == 32:
            ts = r.choice([ExplicitVRLittleEndian, ImplicitVRLittleEndian])
        else:
            ts = r.choice([ExplicitVRLittleEndian, ImplicitVRLittleEndian, RLELossless, JPEGLSLossless])
        if ts == JPEGLSLossless and (rows < 2 or cols < 2):
            rows, cols = rows + 1, cols + 1
        ot = r.choice(['basic', 'extended', 'none'])
        if idx == 1:
            # always present: a bit-packed image whose frames hold more than 255 pixels and do not end on byte boundaries
            # (frame numbers given as 8-bit numpy integers overflow in offset arithmetic only there)
            bits, samples, signed, ts = 1, 1, False, ExplicitVRLittleEndian
            rows, cols, nfr = r.choice([(17, 19), (13, 21), (16, 17)]) + (r.choice([3, 5, 7]),)
        # dimensions added later draw from their own stream so that the images of earlier runs stay the same
        r2 = ctx.rng('img2', idx)
        bs = bits
        if bits in (8, 16) and ts != JPEGLSLossless and r2.random() < 0.45:
            bs = r2.choice([bits - 1, bits - 4, 5])          # BitsStored < BitsAllocated, values inside the stored range
        planar = 1 if (samples == 3 and ts in (ExplicitVRLittleEndian, ImplicitVRLittleEndian) and r2.random() < 0.4) else 0
        drop_nof = nfr == 1 and r2.random() < 0.5              # single-frame image WITHOUT NumberOfFrames
        nr = ctx.np_rng('pix', idx)
        shape = (nfr, rows, cols) + ((3,) if samples == 3 else ())
        if bits == 1:
            fr = nr.random(shape) < r.choice([0.2, 0.5, 0.8])
            if r.random() < 0.15:
                fr[r.randrange(nfr)] = False
        else:
            lo, hi = (-(2 ** (bs - 1)), 2 ** (bs - 1) - 1) if signed else (0, 2 ** bs - 1)
            fr = nr.integers(lo, hi, size=shape, endpoint=True, dtype=np.int64)
            if ts == JPEGLSLossless:
                # pyjpegls cannot encode pure noise of tiny images into its destination buffer
                base = np.add.outer(np.arange(nfr) * 3, np.add.outer(np.arange(rows) * 5, np.arange(cols) * 7))
                fr = (base.reshape((nfr, rows, cols) + (1,) * (len(shape) - 3)) + nr.integers(0, 4, size=shape)) % (hi + 1)
            if r.random() < 0.3:
                fr.flat[0] = hi
                fr.flat[-1] = lo
        try:
            ds = multiframe_image(fr, bits, ts, signed=signed, offset_table=ot, planar=planar)
        except Exception as e:  # noqa: BLE001
            ctx.note(f'generator could not encode image {idx}: {type(e).__name__}: {e}'[:200])
            continue
        junk = False
        if bs != bits:
            ds.BitsStored, ds.HighBit = bs, bs - 1
            if ts in (ExplicitVRLittleEndian, ImplicitVRLittleEndian) and r2.random() < 0.75:
                # the unused high bits of the stored cells hold junk (overlays of old, vendor flags): every access path has
                # to hand out the STORED value (pydicom masks / sign-extends from BitsStored)
                junk = True
                dt = {8: 'u1', 16: '<u2'}[bits]
                cells = np.frombuffer(ds.PixelData, dtype=dt)[:fr.size].copy()
                mask = (1 << bs) - 1
                hi_bits = ctx.np_rng('junk', idx).integers(0, 1 << (bits - bs), size=cells.size, dtype=np.int64)
                cells = ((cells.astype(np.int64) & mask) | (hi_bits << bs)).astype(dt)
                data = cells.tobytes()
                ds.PixelData = data + (b'\x00' if len(data) % 2 else b'')
                ds['PixelData'].VR = 'OB' if bits <= 8 else 'OW'
        if drop_nof:
            del ds.NumberOfFrames
        yield {'idx': idx, 'bits': bits, 'samples': samples, 'frames': nfr, 'rows': rows, 'cols': cols,
               'signed': signed, 'ts': ts.name, 'ot': ot, 'bits_stored': bs, 'planar': planar,
               'number_of_frames_attr': not drop_nof, 'junk_above_bits_stored': junk}, ds, fr


def _preaccessed(hd, pydicom, blob):
    ds0 = pydicom.dcmread(io.BytesIO(blob))
    ds0.pixel_array
    return hd.Image.from_dataset(ds0, copy=False)


class _FsPath:
    """an os.PathLike that is neither str nor pathlib.Path"""

    def __init__(self, p):
        self._p = p

    def __fspath__(self):
        return self._p


def _fetch(fn, *a, **k):
    try:
        return ('ok', fn(*a, **k))
    except Exception as e:  # noqa: BLE001
        return ('err', type(e).__name__)


_NO_TRANSFORMS = dict(apply_real_world_transform=False, apply_modality_transform=False, apply_voi_transform=False,
                      apply_presentation_lut=False, apply_palette_color_lut=False, apply_icc_profile=False)

_NP_INTS = ('int8', 'uint8', 'int16', 'uint16', 'int32', 'uint32', 'int64', 'uint64', 'intp')


def _spell(r, k):
    """One accepted spelling of the integer k: a Python int (half of the time) or a numpy integer type that can hold it."""
    if r.random() < 0.5:
        return k, 'int'
    fits = [t for t in _NP_INTS if np.iinfo(t).min <= k <= np.iinfo(t).max]
    # the narrowest types are where arithmetic with the number wraps first: half of the numpy draws take one of them
    t = r.choice(fits[:2]) if r.random() < 0.5 else r.choice(fits)
    return getattr(np, t)(k), t


def _err_kind(name):
    return {'IndexError': 'index', 'ValueError': 'value', 'TypeError': 'type', 'RuntimeError': 'runtime',
            'KeyError': 'key', 'AttributeError': 'attribute'}.get(name, 'other')


def _expected_raw(ds, d):
    """The bytes of every frame as the standard lays them out (independent of the library): the frame's byte range of native
    PixelData (for bit-packed data the smallest range of whole bytes that contains the frame), the frame's fragments for
    encapsulated data."""
    n = d['frames']
    if d['ts'] in ('Explicit VR Little Endian', 'Implicit VR Little Endian'):
        pd = bytes(ds.PixelData)
        npix = d['rows'] * d['cols'] * d['samples']
        if d['bits'] == 1:
            return [pd[(i * npix) // 8:((i + 1) * npix + 7) // 8] for i in range(n)]
        flen = npix * d['bits'] // 8
        return [pd[i * flen:(i + 1) * flen] for i in range(n)]
    from pydicom.encaps import generate_frames
    return [bytes(f) for f in generate_frames(ds.PixelData, number_of_frames=n)]


def _check_image(ctx, d, ds, fr, reqs, pending):
    import highdicom as hd
    import pydicom
    from pydicom.filebase import DicomBytesIO
    from gen.images import to_bytes
    native = d['ts'] in ('Explicit VR Little Endian', 'Implicit VR Little Endian')
    blob = to_bytes(ds)
    ref = pydicom.dcmread(io.BytesIO(blob)).pixel_array
    n = d['frames']
    ref = ref.reshape((n,) + ref.shape[-(2 if d['samples'] == 1 else 3):]) if n == 1 else ref
    # the reference itself must be what we encoded (generator sanity, not a property failure)
    if not np.array_equal(ref.astype(np.int64), np.asarray(fr).astype(np.int64)):
        ctx.note(f'generator/pydicom mismatch for {d}; skipped')
        return
    # a real file on disk for a share of the images: the lazy reader opens/closes a PATH itself (bytes and file objects are
    # never closed by it), so state left behind by a refused request only shows there
    tmp_path = None
    if d['idx'] % 3 == 0:
        import tempfile
        fd, tmp_path = tempfile.mkstemp(suffix='.dcm', prefix='hdv_c05_')
        with os.fdopen(fd, 'wb') as fh:
            fh.write(blob)
        import atexit
        atexit.register(lambda p=tmp_path: os.path.exists(p) and os.unlink(p))
    paths = {
        'memory': lambda: hd.Image.from_dataset(pydicom.dcmread(io.BytesIO(blob)), copy=False),
        # the default of from_dataset: the image is a deep copy of the dataset it was given
        'memory-copy': lambda: hd.Image.from_dataset(pydicom.dcmread(io.BytesIO(blob))),
        # a dataset whose pixel array the caller has ALREADY decoded with pydicom: the image starts its life with a cached array
        'memory-preaccessed': lambda: _preaccessed(hd, pydicom, blob),
        'eager': lambda: hd.imread(io.BytesIO(blob)),
        'lazy': lambda: hd.imread(io.BytesIO(blob), lazy_frame_retrieval=True),
    }
    if tmp_path is not None:
        paths['lazy-path'] = lambda: hd.imread(tmp_path, lazy_frame_retrieval=True)
        paths['eager-path'] = lambda: hd.imread(tmp_path)
        # os.PathLike spelling of the path
        import pathlib
        paths['lazy-pathlike'] = lambda: hd.imread(pathlib.Path(tmp_path), lazy_frame_retrieval=True)
        # ... and path objects that are os.PathLike without being pathlib.Path (imread documents os.PathLike)
        if d['idx'] % 2 == 0:
            paths['lazy-purepath'] = lambda: hd.imread(pathlib.PurePosixPath(tmp_path), lazy_frame_retrieval=True)
            paths['eager-purepath'] = lambda: hd.imread(pathlib.PurePosixPath(tmp_path))
        else:
            paths['lazy-fspath-object'] = lambda: hd.imread(_FsPath(tmp_path), lazy_frame_retrieval=True)
            paths['eager-fspath-object'] = lambda: hd.imread(_FsPath(tmp_path))
    if d['idx'] % 3 == 1:
        # the raw content of the file as `bytes` (imread documents bytes = file content, not a path)
        paths['lazy-bytes'] = lambda: hd.imread(blob, lazy_frame_retrieval=True)
        paths['eager-bytes'] = lambda: hd.imread(blob)
    imgs = {}
    for name, mk in paths.items():
        st, im = _fetch(mk)
        if st == 'err':
            ctx.fail({'image': d, 'path': name}, f'could not open image: {im}', site='open')
            continue
        imgs[name] = im
    if 'memory' in imgs:
        # force the "no cached pixel array" branch for the in-memory image too
        pass
    ks = list(range(-n - 2, n + 3))
    spell_rng = ctx.rng('spelling', d['idx'])
    for name, im in imgs.items():
        for as_index in (False, True):
            for k in ks:
                idx = k if as_index else k - 1
                inrange = 0 <= idx < n
                kk, spelling = _spell(spell_rng, k)
                st, val = _fetch(im.get_stored_frame, kk, as_index=as_index)
                case = {'image': d, 'path': name, 'k': k, 'as_index': as_index, 'number_given_as': spelling}
                nontriv = None
                if inrange and st == 'ok' and val.min() != val.max():
                    nontriv = (d['bits'], (d['rows'] * d['cols']) % 8, n, name, d['ts'], idx)
                ctx.case(sample=case if (inrange and ctx.evaluations % 97 == 0) else None, nontrivial_key=nontriv,
                         bits=d['bits'], path=name, syntax=d['ts'], residue=(d['rows'] * d['cols']) % 8,
                         outcome=('ok' if st == 'ok' else val), inrange=inrange,
                         bits_stored=('full' if d.get('bits_stored', d['bits']) == d['bits'] else 'narrower'),
                         planar=d.get('planar', 0), number_of_frames_attr=d.get('number_of_frames_attr', True),
                         number_given_as=spelling, junk_above_bits_stored=d.get('junk_above_bits_stored', False))
                # ---- oracle
                if inrange:
                    if st != 'ok':
                        ctx.fail(case, f'in-range frame refused: {val}', site=f'get_stored_frame/{name}')
                    elif not np.array_equal(np.asarray(val).astype(np.int64), ref[idx].astype(np.int64)):
                        ctx.fail(case, {'got': np.asarray(val).tolist(), 'want': ref[idx].tolist()},
                                 site=f'get_stored_frame/{name}')
                else:
                    if st == 'ok':
                        ctx.fail(case, 'out-of-range frame number accepted (wrapped?)', site=f'get_stored_frame/{name}')
                # ---- the same number through the BATCH method (a batch of one), in whatever state the object is in
                stb, valb = _fetch(lambda: im.get_stored_frames([kk], as_indices=as_index)[0])
                ctx.case(path=name + '/batch-of-one', inrange=inrange)
                if inrange:
                    if stb != 'ok' or not np.array_equal(np.asarray(valb).astype(np.int64), ref[idx].astype(np.int64)):
                        ctx.fail(dict(case, call='get_stored_frames([k])'), 'batch of one differs from pydicom' if stb == 'ok' else f'refused: {valb}',
                                 site=f'get_stored_frames/{name}')
                elif stb == 'ok':
                    ctx.fail(dict(case, call='get_stored_frames([k])'), 'out-of-range frame number accepted by the batch method (wrapped?)',
                             site=f'get_stored_frames/{name}')
                if inrange and (as_index or d['idx'] % 2 == 0):
                    # ---- the stored frame through get_frame / get_frames with EVERY transform switched off: the frame loop of
                    # get_frames fetches the raw bytes itself (skeleton T1c)
                    for what, f in (('get_frame', lambda: im.get_frame(kk, as_index=as_index, dtype=np.int64, **_NO_TRANSFORMS)),
                                    ('get_frames', lambda: im.get_frames([kk], as_indices=as_index, dtype=np.int64, **_NO_TRANSFORMS)[0])):
                        st5, v5 = _fetch(f)
                        ctx.case(path=name + '/transforms-off')
                        if st5 != 'ok' or not np.array_equal(np.asarray(v5).astype(np.int64), ref[idx].astype(np.int64)):
                            ctx.fail(dict(case, call=what), f'{what} with every transform off does not return the stored frame: '
                                     f'{v5 if st5 != "ok" else np.asarray(v5).reshape(-1)[:6].tolist()}', site=f'{what}/transforms-off')
                        if what == 'get_frames' and native and d['bits'] == 1 and name in ('memory', 'lazy'):
                            reqs.append(('getFramesBits', {'pd': list(ds.PixelData), 'rows': d['rows'], 'cols': d['cols'], 'n': n, 'k': k,
                                                           'as_index': as_index, 'lazy': name == 'lazy'}))
                            pending.append((dict(case, call='get_frames (transforms off) vs model'),
                                            ('ok', [bool(x) for x in np.asarray(v5).reshape(-1)]) if st5 == 'ok' else ('err', _err_kind(v5))))
                if inrange and d.get('junk_above_bits_stored') and d['samples'] == 1:
                    # the frame as get_frame / get_frames hand it out (no transform is described in these images) is the
                    # stored value too: their decoder has its own copy of the decode parameters
                    for what, f in (('get_frame', lambda: im.get_frame(kk, as_index=as_index, dtype=np.int64)),
                                    ('get_frames', lambda: im.get_frames([kk], as_indices=as_index, dtype=np.int64)[0])):
                        st4, v4 = _fetch(f)
                        ctx.case(path=name + '/get_frame-junk')
                        if st4 != 'ok' or not np.array_equal(np.asarray(v4).astype(np.int64), ref[idx].astype(np.int64)):
                            ctx.fail(dict(case, call=what), f'{what} does not return the stored values of data with junk above BitsStored: '
                                     f'{v4 if st4 != "ok" else np.asarray(v4).reshape(-1)[:4].tolist()}', site=f'{what}/junk')
                # ---- model (native only)
                if native and name in ('memory', 'lazy'):
                    pd = list(ds.PixelData)
                    if d['bits'] == 1:
                        fn = 'memFrameBits' if name == 'memory' else 'lazyFrameBits'
                        args = {'pd': pd, 'rows': d['rows'], 'cols': d['cols'], 'samples': 1, 'n': n, 'k': k, 'as_index': as_index}
                        impl = ('ok', [bool(x) for x in np.asarray(val).reshape(-1)]) if st == 'ok' else ('err', _err_kind(val))
                    else:
                        fn = 'memFrameBytes' if name == 'memory' else 'lazyFrameBytes'
                        args = {'pd': pd, 'rows': d['rows'], 'cols': d['cols'], 'samples': d['samples'], 'bits': d['bits'],
                                'n': n, 'pi': str(ds.PhotometricInterpretation), 'k': k, 'as_index': as_index}
                        if st == 'ok' and d.get('junk_above_bits_stored'):
                            # the model speaks about the stored bytes; the decoded values are masked, so compare the raw frame
                            st3, rawf = _fetch(im.get_raw_frame, kk, as_index=as_index)
                            impl = ('ok', list(rawf)) if st3 == 'ok' else ('err', _err_kind(rawf))
                        elif st == 'ok':
                            a = np.asarray(val)
                            dt = {8: 'u1', 16: '<u2', 32: '<u4'}[d['bits']]
                            if d['signed']:
                                dt = dt.replace('u', 'i')
                            if d.get('planar') == 1 and a.ndim == 3:
                                # the model speaks about the STORED bytes: colour-by-plane; the decoded array is
                                # (rows, cols, samples), so put the sample axis first again
                                a = np.moveaxis(a, -1, 0)
                            impl = ('ok', list(np.ascontiguousarray(a.astype(dt)).tobytes()))
                        else:
                            impl = ('err', _err_kind(val))
                    reqs.append((fn, args))
                    pending.append((case, impl))
        # ---- the reader behind a lazily read image: open for every read, back in its rest state after every call (T11g)
        if name in ('lazy', 'lazy-path', 'lazy-bytes') and getattr(im, '_file_reader', None) is not None:
            rd_ = im._file_reader
            rr = ctx.rng('reader-calls', d['idx'])
            calls, ok_all, nreads = [], True, 0
            for _ in range(rr.randint(2, 5)):
                kq = rr.choice([0, 0, 1, n, -1, -n])
                calls.append(kq)
                if kq == 0:
                    stc, _v = _fetch(im.get_stored_frame, rr.randint(1, n))
                    nreads += 1
                elif kq > 0:
                    stc, _v = _fetch(im.get_stored_frames, [rr.randint(1, n) for _ in range(kq)])
                    nreads += kq
                else:
                    stc, _v = _fetch(lambda: im.get_frames([rr.randint(1, n) for _ in range(-kq)], dtype=np.int64, **_NO_TRANSFORMS))
                    nreads += -kq
                ok_all = ok_all and stc == 'ok'
                if rr.random() < 0.3:
                    _fetch(im.get_stored_frame, n + 1)         # a refused call in between
            reqs.append(('readerCalls', {'should_close': bool(rd_._should_close), 'calls': calls}))
            pending.append(({'image': d, 'path': name, 'calls': calls, 'what': 'reader state after a sequence of calls (T11g)', 'layer': 'L2'},
                            ('ok', {'depth': int(rd_._enter_depth), 'open': rd_._fp is not None, 'reads_ok': ok_all, 'reads': nreads})))
            ctx.case(path=name + '/reader-calls', reader_owns_file=bool(rd_._should_close))
        # ---- spellings that are NOT integers (float, numeric string, None, numpy float): refused on every method, never
        # truncated or parsed (a frame number 1.5 is not frame 1)
        for bad, sp in ((1.0, 'float'), (1.5, 'float-fraction'), ('1', 'str'), (None, 'none'), (np.float64(1.0), 'numpy-float')):
            for what, f in (('get_stored_frame', lambda: im.get_stored_frame(bad)),
                            ('get_stored_frames', lambda: im.get_stored_frames([1, bad])),
                            ('get_raw_frame', lambda: im.get_raw_frame(bad)),
                            ('get_frame', lambda: im.get_frame(bad, dtype=np.int64, **_NO_TRANSFORMS)),
                            ('get_frames', lambda: im.get_frames([bad], dtype=np.int64, **_NO_TRANSFORMS))):
                stb, vb = _fetch(f)
                ctx.case(path=name + '/non-integer-number', number_given_as=sp)
                if stb == 'ok':
                    ctx.fail({'image': d, 'path': name, 'call': what, 'number': repr(bad)},
                             'a frame number that is not an integer was accepted', site=what + '/non-integer-number')
        # batch == singles (oracle)
        r = ctx.rng('batch', d['idx'])
        sel = [r.randrange(n) for _ in range(r.randint(1, 5))]
        # ---- batch requests against the model (un-cached branch; fresh object so that nothing is cached yet)
        if native and d['bits'] == 1 and name in ('memory',):
            st0, fresh = _fetch(paths[name])
            if st0 == 'ok':
                for as_index in (False, True):
                    good = sel if as_index else [s + 1 for s in sel]
                    bad = n if as_index else n + 1
                    for req in (good, None, [], good[:1] + [bad] + good[1:], [-1 if as_index else 0]):
                        st, val = _fetch(fresh.get_stored_frames, req, as_indices=as_index)
                        ctx.case(path=name + '/batch-model', batch=('none' if req is None else ('empty' if not req else 'list')),
                                 nontrivial_key=('batch-model', d['idx'], as_index, repr(req)) if st == 'ok' else None)
                        impl = ('ok', [[bool(x) for x in np.asarray(f).reshape(-1)] for f in val]) if st == 'ok' else ('err', _err_kind(val))
                        reqs.append(('batchFramesBits', {'pd': list(ds.PixelData), 'rows': d['rows'], 'cols': d['cols'], 'samples': 1,
                                                         'n': n, 'ks': req, 'as_index': as_index}))
                        pending.append(({'image': d, 'path': name, 'batch': req, 'as_index': as_index, 'what': 'batch vs model'}, impl))
                        # oracle on refusal: empty and out-of-range batches must not be answered
                        if (req == [] or (req is not None and bad in req) or req == [-1 if as_index else 0]) and st == 'ok':
                            ctx.fail({'image': d, 'path': name, 'batch': req, 'as_index': as_index},
                                     'batch with an empty / out-of-range request was answered', site='get_stored_frames')
        for as_index in (False, True):
            nums = sel if as_index else [s + 1 for s in sel]
            if r.random() < 0.5:
                # the batch as a numpy array of a narrow integer type (its elements are numpy scalars)
                nums = np.asarray(nums, dtype=r.choice([np.uint8, np.int8, np.uint16, np.int16, np.int32, np.int64]))
            st, val = _fetch(im.get_stored_frames, nums, as_indices=as_index)
            nums = [int(x) for x in nums]
            ctx.case(path=name + '/batch')
            if st != 'ok':
                ctx.fail({'image': d, 'path': name, 'batch': nums, 'as_index': as_index}, f'batch refused: {val}', site='get_stored_frames')
            elif not np.array_equal(np.asarray(val).astype(np.int64), ref[sel].astype(np.int64)):
                ctx.fail({'image': d, 'path': name, 'batch': nums, 'as_index': as_index}, 'batch differs from per-frame reference',
                         site='get_stored_frames')
        st, val = _fetch(im.get_stored_frames)
        if st != 'ok' or not np.array_equal(np.asarray(val).astype(np.int64), ref.astype(np.int64)):
            ctx.fail({'image': d, 'path': name, 'batch': 'all'}, 'all-frames batch differs', site='get_stored_frames')
        st, val = _fetch(im.get_stored_frames, [1, n + 1])
        if st == 'ok':
            ctx.fail({'image': d, 'path': name, 'batch': [1, n + 1]}, 'batch accepted out-of-range number', site='get_stored_frames')
        # ... and the object must still answer valid requests afterwards (no state left behind by the refusal)
        for what, f in (('get_stored_frame', lambda: im.get_stored_frame(n)), ('get_stored_frames', lambda: im.get_stored_frames([n])[0]),
                        ('get_raw_frame', lambda: im.get_raw_frame(1))):
            st, val = _fetch(f)
            ctx.case(path=name + '/after-refusal')
            if st != 'ok' or (what != 'get_raw_frame' and not np.array_equal(np.asarray(val).astype(np.int64), ref[n - 1].astype(np.int64))):
                ctx.fail({'image': d, 'path': name, 'after': 'refused batch [1, n+1]', 'call': what},
                         f'valid request after a refused one: {val if st != "ok" else "wrong frame"}', site=what + '/after-refusal')
        # ---- results are values: editing a frame that was handed out (windowing, masking in place) must not change what
        # the next fetch of the same frame returns (here on the path that decodes per request; the cached branch further down).
        for idx in sorted({0, n - 1}):
            for what, f in (('get_stored_frame', lambda: im.get_stored_frame(idx + 1)),
                            ('get_stored_frames', lambda: im.get_stored_frames([idx + 1])[0])):
                st, a = _fetch(f)
                if st != 'ok':
                    continue
                a = np.asarray(a)
                editable = bool(a.flags.writeable)
                ctx.case(path=name + '/edit-result', result_editable=editable)
                if not editable:
                    continue
                try:
                    if a.dtype == bool:
                        np.logical_not(a, out=a)
                    else:
                        np.bitwise_xor(a, 1, out=a)
                except Exception:  # noqa: BLE001
                    continue
                st, b = _fetch(f)
                if st != 'ok' or not np.array_equal(np.asarray(b).astype(np.int64), ref[idx].astype(np.int64)):
                    ctx.fail({'image': d, 'path': name, 'call': what, 'frame': idx + 1, 'history': 'fetch, edit the result in place, fetch again'},
                             'second fetch returns the edited pixels (results share memory)' if st == 'ok' else f'second fetch refused: {b}',
                             site=what + '/edit-result')
        # ---- raw frame bytes: the bytes of THAT frame (so that they decode to the same values), by number and by index, before and
        # after the whole array is cached
        want_raw = _expected_raw(ds, d)
        for phase in ('fresh', 'cached'):
            if phase == 'cached':
                _fetch(lambda: im.pixel_array)
            for idx in range(n):
                for ai in (False, True):
                    st, rawb = _fetch(im.get_raw_frame, idx if ai else idx + 1, as_index=ai)
                    ctx.case(path=name + '/raw-frame', raw_phase=phase)
                    if st != 'ok' or (bytes(rawb) != want_raw[idx] and bytes(rawb).rstrip(b'\x00') != want_raw[idx].rstrip(b'\x00')):
                        ctx.fail({'image': d, 'path': name, 'k': idx if ai else idx + 1, 'as_index': ai, 'phase': phase},
                                 f'raw frame bytes are not the bytes of that frame: {rawb if st != "ok" else bytes(rawb)[:12].hex()}',
                                 site='get_raw_frame/' + name.split('-')[0])
        # ---- the same requests once the whole pixel array is cached on the object (a separate code path)
        st, whole = _fetch(lambda: im.pixel_array)
        if native and d['bits'] == 1 and name == 'lazy':
            # the whole array of a lazily read image is assembled from get_stored_frame(1) / get_stored_frames() (T1c)
            reqs.append(('lazyWholeBits', {'pd': list(ds.PixelData), 'rows': d['rows'], 'cols': d['cols'], 'n': n}))
            pending.append(({'image': d, 'path': name, 'what': 'pixel_array of a lazily read image vs model'},
                            ('ok', [[bool(x) for x in np.asarray(f).reshape(-1)] for f in np.asarray(whole).reshape((n, -1))])
                            if st == 'ok' else ('err', _err_kind(whole))))
        if st != 'ok' or not np.array_equal(np.asarray(whole).reshape(ref.shape).astype(np.int64), ref.astype(np.int64)):
            ctx.fail({'image': d, 'path': name, 'what': 'pixel_array'}, 'pixel_array differs from pydicom', site='pixel_array')
        for as_index in (False, True):
            for idx in range(n):
                k = idx if as_index else idx + 1
                st, val = _fetch(im.get_stored_frame, k, as_index=as_index)
                ctx.case(path=name + '/cached', nontrivial_key=('cached', d['bits'], n, name, idx, as_index))
                case = {'image': d, 'path': name + '/cached', 'k': k, 'as_index': as_index}
                if st != 'ok' or not np.array_equal(np.asarray(val).astype(np.int64), ref[idx].astype(np.int64)):
                    ctx.fail(case, 'cached-array single fetch differs from pydicom', site='get_stored_frame/cached')
                if native and d['bits'] == 1 and st == 'ok':
                    reqs.append(('memFrameBits', {'pd': list(ds.PixelData), 'rows': d['rows'], 'cols': d['cols'], 'samples': 1,
                                                  'n': n, 'k': k, 'as_index': as_index}))
                    pending.append((case, ('ok', [bool(x) for x in np.asarray(val).reshape(-1)])))
            # results are values on the cached branch too: edit the frame that was handed out, fetch again
            for idx in sorted({0, n - 1}):
                for what, f in (('get_stored_frame', lambda: im.get_stored_frame(idx if as_index else idx + 1, as_index=as_index)),
                                ('get_stored_frames', lambda: im.get_stored_frames([idx if as_index else idx + 1], as_indices=as_index)[0]),
                                ('get_frame', lambda: im.get_frame(idx if as_index else idx + 1, as_index=as_index, dtype=np.asarray(ref).dtype,
                                                                   **_NO_TRANSFORMS))):
                    st, a = _fetch(f)
                    if st != 'ok':
                        continue
                    a = np.asarray(a)
                    ctx.case(path=name + '/cached-edit-result', result_editable=bool(a.flags.writeable))
                    if not a.flags.writeable:
                        continue
                    try:
                        if a.dtype == bool:
                            np.logical_not(a, out=a)
                        else:
                            np.bitwise_xor(a, 1, out=a)
                    except Exception:  # noqa: BLE001
                        continue
                    for what2, f2 in (('get_stored_frame', lambda: im.get_stored_frame(idx + 1)),
                                      ('get_stored_frames', lambda: im.get_stored_frames([idx + 1])[0])):
                        st, b = _fetch(f2)
                        if st != 'ok' or not np.array_equal(np.asarray(b).astype(np.int64), ref[idx].astype(np.int64)):
                            ctx.fail({'image': d, 'path': name + '/cached', 'call': what, 'then': what2, 'frame': idx + 1, 'as_index': as_index,
                                      'history': 'pixel_array accessed, fetch, edit the result in place, fetch again'},
                                     'a later fetch returns the edited pixels (the result shared memory with the cached array)'
                                     if st == 'ok' else f'second fetch refused: {b}', site=what + '/cached-edit-result')
            # which stored frame does the cached branch hand out?  (identified by content when frames are pairwise distinct)
            distinct = all(not np.array_equal(ref[a], ref[b]) for a in range(n) for b in range(a + 1, n))
            if distinct:
                def _fid(v):
                    ids = [q for q in range(n) if np.array_equal(np.asarray(v).astype(np.int64).reshape(ref[q].shape), ref[q].astype(np.int64))] \
                        if np.asarray(v).size == ref[0].size else []
                    return ids[0] if len(ids) == 1 else -1
                for k in range(-n - 1, n + 2):
                    for batch in (False, True):
                        st, val = _fetch((lambda: im.get_stored_frames([k], as_indices=as_index)[0]) if batch
                                         else (lambda: im.get_stored_frame(k, as_index=as_index)))
                        impl = ('ok', _fid(val)) if st == 'ok' else ('err', _err_kind(val))
                        reqs.append(('cached', {'n': n, 'k': k, 'as_index': as_index, 'batch': batch}))
                        pending.append(({'image': d, 'path': name + '/cached', 'k': k, 'as_index': as_index, 'batch': batch,
                                         'what': 'cached frame id vs model'}, impl))
                        ctx.case(path=name + '/cached-model')
                for req in (None, [], [n if as_index else n + 1]):
                    st, val = _fetch(im.get_stored_frames, req, as_indices=as_index)
                    impl = ('ok', [_fid(v) for v in val]) if st == 'ok' else ('err', _err_kind(val))
                    reqs.append(('cachedBatch', {'n': n, 'ks': req, 'as_index': as_index}))
                    pending.append(({'image': d, 'path': name + '/cached', 'batch': req, 'as_index': as_index,
                                     'what': 'cached batch vs model'}, impl))
            nums = sel if as_index else [s + 1 for s in sel]
            for req in (nums, list(reversed(range(n))) if as_index else list(reversed(range(1, n + 1))), None):
                st, val = _fetch(im.get_stored_frames, req, as_indices=as_index)
                want = ref if req is None else ref[[q if as_index else q - 1 for q in req]]
                ctx.case(path=name + '/cached-batch')
                if st != 'ok' or not np.array_equal(np.asarray(val).astype(np.int64), want.astype(np.int64)):
                    ctx.fail({'image': d, 'path': name + '/cached', 'batch': req, 'as_index': as_index},
                             'cached-array batch differs from per-frame reference', site='get_stored_frames/cached')
            st, val = _fetch(im.get_stored_frames, [n if as_index else n + 1], as_indices=as_index)
            if st == 'ok':
                ctx.fail({'image': d, 'path': name + '/cached', 'batch': 'n+1', 'as_index': as_index},
                         'cached-array batch accepted out-of-range number', site='get_stored_frames/cached')
        # ---- the pixel data are replaced on the object AFTER the whole array was decoded and cached (correcting a file in
        # memory): every access path must answer from the new data, as pydicom's own staleness check does
        if d['bits'] >= 8 and n >= 2 and name in ('memory', 'memory-copy', 'eager', 'eager-path', 'eager-bytes') \
                and not np.array_equal(ref[0], ref[n - 1]):
            pd = bytes(im.PixelData)
            if native:
                flen = d['rows'] * d['cols'] * d['samples'] * d['bits'] // 8
                swapped = pd[(n - 1) * flen:n * flen] + pd[flen:(n - 1) * flen] + pd[:flen] + pd[n * flen:]
            else:
                # encapsulated: the same frames, first and last exchanged, encapsulated anew (with a Basic Offset Table)
                from pydicom.encaps import encapsulate, generate_frames
                efr = [bytes(f) for f in generate_frames(pd, number_of_frames=n)]
                efr[0], efr[n - 1] = efr[n - 1], efr[0]
                swapped = encapsulate(efr, has_bot=True)
                for kw_ in ('ExtendedOffsetTable', 'ExtendedOffsetTableLengths'):     # they describe the element that is replaced
                    if kw_ in im:
                        del im[kw_]
            st, _ = _fetch(lambda: im['PixelData'].__setattr__('value', swapped))
            if st == 'ok':
                ref2 = ref.copy()
                ref2[0], ref2[n - 1] = ref[n - 1], ref[0]
                checks = [('pixel_array', lambda: np.asarray(im.pixel_array).reshape(ref.shape), ref2),
                          ('get_stored_frame', lambda: im.get_stored_frame(1), ref2[0]),
                          ('get_stored_frame', lambda: im.get_stored_frame(n), ref2[n - 1]),
                          ('get_stored_frames', lambda: im.get_stored_frames(), ref2),
                          ('get_raw_frame+decode', lambda: im.get_stored_frames([n, 1]), ref2[[n - 1, 0]]),
                          ('get_frame', lambda: im.get_frame(1, dtype=np.int64, **_NO_TRANSFORMS), ref2[0]),
                          ('get_frames', lambda: im.get_frames([n, 1], dtype=np.int64, **_NO_TRANSFORMS), ref2[[n - 1, 0]])]
                # in ANY order: whichever accessor comes first after the replacement must notice it (an accessor that re-decodes
                # repairs the cache for those that follow)
                ctx.rng('replaced-order', d['idx']).shuffle(checks)
                for pos, (what, f, want) in enumerate(checks):
                    st, val = _fetch(f)
                    ctx.case(path=name + '/pixel-data-replaced', first_after_replacement=what if pos == 0 else None)
                    if st != 'ok' or not np.array_equal(np.asarray(val).astype(np.int64), want.astype(np.int64)):
                        ctx.fail({'image': d, 'path': name, 'call': what,
                                  'history': 'decode whole array, replace PixelData value (first and last frame swapped), fetch'},
                                 'answered from the pixel data that were replaced' if st == 'ok' else f'refused: {val}',
                                 site=what + '/pixel-data-replaced')
    # ---- two lazily read images (and a raw reader) on ONE open file object, reads interleaved: a read must find its frame
    # wherever the previous reader left the file position
    if d['idx'] % 3 != 1:
        shared = io.BytesIO(blob)
        sta, ia = _fetch(hd.imread, shared, lazy_frame_retrieval=True)
        stb, ib = _fetch(hd.imread, shared, lazy_frame_retrieval=True)
        if sta == 'ok' and stb == 'ok':
            rr = ctx.rng('shared-file', d['idx'])
            for _ in range(min(2 * n + 2, 10)):
                who, k = rr.choice(['a', 'b']), rr.randint(1, n)
                if rr.random() < 0.4:
                    shared.seek(rr.randrange(len(blob) + 1))          # the caller uses its file object in between
                obj = ia if who == 'a' else ib
                how = rr.choice(['single', 'batch', 'raw'])
                if how == 'single':
                    st2, v = _fetch(obj.get_stored_frame, k)
                elif how == 'batch':
                    st2, v = _fetch(lambda: obj.get_stored_frames([k, 1 + (k % n)])[0])
                else:
                    st2, v = _fetch(obj.get_raw_frame, k)
                    ctx.case(path='shared-file/raw')
                    if st2 != 'ok':
                        ctx.fail({'image': d, 'path': 'shared-file', 'k': k, 'object': who}, f'raw frame refused: {v}', site='get_raw_frame/shared-file')
                    continue
                ctx.case(path='shared-file/' + how)
                if st2 != 'ok' or not np.array_equal(np.asarray(v).astype(np.int64), ref[k - 1].astype(np.int64)):
                    ctx.fail({'image': d, 'path': 'shared-file', 'k': k, 'object': who, 'call': how},
                             'two lazily read images on one file object: a read returns another frame' if st2 == 'ok' else f'refused: {v}',
                             site='get_stored_frame/shared-file')
        else:
            ctx.fail({'image': d, 'path': 'shared-file'}, f'could not open two images on one file object: {ia if sta != "ok" else ib}', site='open/shared-file')
    # raw reader API
    own_file = DicomBytesIO(blob)
    st, rd = _fetch(hd.io.ImageFileReader, own_file)
    if st == 'ok':
        with rd:
            rs = ctx.rng('reader-spelling', d['idx'])
            for i in range(-2, n + 2):
                st2, val = _fetch(rd.read_frame, _spell(rs, i)[0], correct_color=False)
                ctx.case(path='reader', inrange=0 <= i < n)
                case = {'image': d, 'path': 'reader', 'i': i}
                if 0 <= i < n:
                    if st2 != 'ok':
                        ctx.fail(case, f'reader refused in-range index: {val}', site='read_frame')
                    elif not np.array_equal(np.asarray(val).astype(np.int64), ref[i].astype(np.int64)):
                        ctx.fail(case, 'reader frame differs from pydicom', site='read_frame')
                elif st2 == 'ok':
                    ctx.fail(case, 'reader accepted out-of-range index (wrapped?)', site='read_frame')
            if native and len(blob) < 6000:
                # the reader against the BYTES OF THE FILE (model lazyRawNativeFile: remembered element position + regenerated header
                # length of the implicit / explicit VR element + offset table entry, T11f)
                for i in range(-1, n + 1):
                    st2, rawf = _fetch(rd.read_frame_raw, i)
                    reqs.append(('lazyRawNativeFile', {'file': list(blob), 'pixel_data_offset': int(rd._pixel_data_offset),
                                                       'implicit': d['ts'].startswith('Implicit'), 'rows': d['rows'], 'cols': d['cols'],
                                                       'samples': d['samples'], 'bits': d['bits'], 'n': n, 'pi': str(ds.PhotometricInterpretation), 'i': i}))
                    pending.append(({'image': d, 'path': 'reader/native-file', 'i': i, 'what': 'raw frame from the bytes of the file (native)'},
                                    ('ok', list(rawf)) if st2 == 'ok' else ('err', _err_kind(rawf))))
                    ctx.case(path='reader/native-file', syntax=d['ts'])
            for bad in (0.0, 1.5, '0', None):
                for what, f in (('read_frame', lambda: rd.read_frame(bad, correct_color=False)), ('read_frame_raw', lambda: rd.read_frame_raw(bad))):
                    stb, vb = _fetch(f)
                    ctx.case(path='reader/non-integer-index')
                    if stb == 'ok':
                        ctx.fail({'image': d, 'path': 'reader', 'call': what, 'index': repr(bad)},
                                 'a frame index that is not an integer was accepted', site=what + '/non-integer-index')
            # any order, with repeats and refused requests in between: a read must not depend on the reads before it
            ro = ctx.rng('reader-order', d['idx'])
            order = [ro.randrange(-1, n + 1) for _ in range(min(2 * n + 2, 14))]
            for i in order:
                ii, _sp = _spell(ro, i)
                if ro.random() < 0.3:
                    own_file.seek(ro.randrange(len(blob) + 1))        # the caller moves its own file object between two reads
                st2, val = _fetch(rd.read_frame, ii, correct_color=False)
                ctx.case(path='reader/any-order', inrange=0 <= i < n, number_given_as=_sp)
                if 0 <= i < n and (st2 != 'ok' or not np.array_equal(np.asarray(val).astype(np.int64), ref[i].astype(np.int64))):
                    ctx.fail({'image': d, 'path': 'reader', 'i': i, 'history': order}, 'reader frame differs from pydicom when frames are read in this order',
                             site='read_frame/any-order')
                elif not 0 <= i < n and st2 == 'ok':
                    ctx.fail({'image': d, 'path': 'reader', 'i': i, 'history': order}, 'reader accepted out-of-range index', site='read_frame/any-order')
    # L1: 1-bit PixelData is the model's packing
    if d['bits'] == 1:
        reqs.append(('pack', {'bits': [bool(x) for x in np.asarray(fr).reshape(-1)]}))
        pd = list(ds.PixelData)
        pending.append(({'image': d, 'what': 'PixelData==pack(flatten)'}, ('ok', pd[:(fr.size + 7) // 8])))


def _fixtures(ctx):
    """Shipped fixtures (JPEG-LS with/without BOT, native multi-frame): oracle only."""
    import highdicom as hd
    import hd_env
    import pydicom
    files = sorted(glob.glob(os.path.join(hd_env.HD_REPO, 'data/test_files/*.dcm')))
    # pydicom's installed test data: JPEG baseline / JPEG 2000 / RLE fixtures named in the property's quantifier
    pyd = os.path.join(os.path.dirname(pydicom.__file__), 'data', 'test_files')
    extra = sorted(glob.glob(os.path.join(pyd, '*.dcm')))
    if ctx.tier == 'quick':
        extra = [f for i, f in enumerate(extra) if i % 3 == ctx.seed % 3]
    files += extra
    for f in files:
        try:
            ds0 = pydicom.dcmread(f)
            if 'PixelData' not in ds0:
                continue
            ref = ds0.pixel_array
        except Exception:  # noqa: BLE001
            continue
        n = int(getattr(ds0, 'NumberOfFrames', 1))
        if n == 1:
            ref = ref[None]
        step = max(1, n // (6 if ctx.tier == 'quick' else 60))
        for lazy in (False, True):
            st, im = _fetch(hd.imread, f, lazy_frame_retrieval=lazy)
            if st != 'ok':
                ctx.note(f'fixture {os.path.basename(f)} lazy={lazy} not readable: {im}')
                continue
            for i in list(range(0, n, step)) + [n - 1]:
                st2, val = _fetch(im.get_stored_frame, i + 1)
                ctx.case(path='fixture/' + ('lazy' if lazy else 'eager'), syntax=ds0.file_meta.TransferSyntaxUID.name,
                         nontrivial_key=('fixture', os.path.basename(f), lazy, i))
                case = {'fixture': os.path.basename(f), 'lazy': lazy, 'k': i + 1}
                if st2 != 'ok':
                    ctx.fail(case, f'refused: {val}', site='fixture')
                elif not np.array_equal(np.asarray(val), ref[i]):
                    ctx.fail(case, 'differs from pydicom decode', site='fixture')
            for k in (0, n + 1, -1):
                st2, val = _fetch(im.get_stored_frame, k)
                if st2 == 'ok':
                    ctx.fail({'fixture': os.path.basename(f), 'lazy': lazy, 'k': k}, 'out-of-range accepted', site='fixture')


class _Stub:
    def __init__(self, n):
        self.number_of_frames = n


def _helpers(ctx, reqs, pending):
    """L2: the translated helper against the real private helper, dense grid."""
    from highdicom.image import _Image
    f = getattr(_Image, '_standardize_frame_index', None)
    if f is None:
        ctx.note('L2 helper _standardize_frame_index not found; skipped')
        return
    rng = range(-4, 9) if ctx.tier == 'quick' else range(-12, 30)
    for n in rng:
        for k in rng:
            for ai in (False, True):
                st, val = _fetch(f, _Stub(n), k, ai)
                impl = ('ok', int(val)) if st == 'ok' else ('err', _err_kind(val))
                reqs.append(('stdFrameIndex', {'k': k, 'as_index': ai, 'n': n}))
                pending.append(({'helper': '_standardize_frame_index', 'k': k, 'n': n, 'as_index': ai, 'layer': 'L2'}, impl))
                ctx.case(path='helper')
    # the same helper on VALUES of every kind (what may be handed in as a frame number): Python int, numpy integers, bool,
    # numpy bool, floats, strings, None - against the model of the conversion the source applies first (T1c)
    vals = [(3, {'kind': 'int', 'k': 3}), (0, {'kind': 'int', 'k': 0}), (np.uint8(3), {'kind': 'npint', 'k': 3}),
            (np.int64(-1), {'kind': 'npint', 'k': -1}), (np.uint16(4), {'kind': 'npint', 'k': 4}),
            (True, {'kind': 'bool', 'b': True}), (False, {'kind': 'bool', 'b': False}),
            (np.True_, {'kind': 'npbool', 'b': True}), (1.0, {'kind': 'float', 'v': '1'}), (2.5, {'kind': 'float', 'v': '5/2'}),
            (np.float32(1.0), {'kind': 'float', 'v': '1'}), ('2', {'kind': 'str', 'parsed': 2}), ('two', {'kind': 'str', 'parsed': None}),
            (None, {'kind': 'none'})]
    for n in (1, 3, 4):
        for v, enc in vals:
            for ai in (False, True):
                st, val = _fetch(f, _Stub(n), v, ai)
                impl = ('ok', int(val)) if st == 'ok' else ('err', _err_kind(val))
                reqs.append(('stdFrameIndexV', {'v': enc, 'as_index': ai, 'n': n}))
                pending.append(({'helper': '_standardize_frame_index', 'value': repr(v), 'kind': enc['kind'], 'n': n, 'as_index': ai,
                                 'layer': 'L2'}, impl))
                ctx.case(path='helper/value-kinds', number_given_as=enc['kind'])
    ctx.exhaustive.append(f'_standardize_frame_index on k,n in {rng.start}..{rng.stop - 1} x as_index')


def _encapsulated(ctx, reqs, pending):
    """Lazy reader on encapsulated data: offset table (L2, private attribute) and read_frame_raw (L0)
    against Model/Offsets.lean, for stored / absent / extended tables and fragmented frames."""
    import highdicom as hd
    import pydicom
    from pydicom.encaps import encapsulate, encapsulate_extended, generate_fragments
    from pydicom.filebase import DicomBytesIO
    from pydicom.uid import JPEGLSLossless, RLELossless
    from gen.images import multiframe_image, to_bytes
    for idx in range(ctx.n(12, 150)):
        r = ctx.rng('enc', idx)
        ts = r.choice([JPEGLSLossless, JPEGLSLossless, RLELossless])
        nfr = r.choice([1, 2, 3, 4, 6])
        rows, cols = r.randint(8, 14), r.randint(8, 14)
        bits = r.choice([8, 16])
        nr = ctx.np_rng('encpix', idx)
        # smooth-ish content: pyjpegls cannot encode pure noise into its destination buffer
        fr = (np.add.outer(np.arange(nfr) * 3, np.add.outer(np.arange(rows) * 5, np.arange(cols) * 7))
              + nr.integers(0, 4, size=(nfr, rows, cols))).astype(np.int64) % (2 ** bits)
        try:
            ds = multiframe_image(fr, bits, ts, offset_table='none')
        except Exception as e:  # noqa: BLE001
            ctx.note(f'encapsulated generator failed: {type(e).__name__}')
            continue
        enc_frames = [bytes(f) for f in pydicom.encaps.generate_frames(ds.PixelData, number_of_frames=nfr)]
        k = 1 if ts == RLELossless else r.choice([1, 2, 2, 3, 4])
        ot = r.choice(['basic', 'none', 'extended'])
        if ot == 'extended':
            if k != 1:
                k = 1
            ds.PixelData, ds.ExtendedOffsetTable, ds.ExtendedOffsetTableLengths = encapsulate_extended(enc_frames)
        else:
            ds.PixelData = encapsulate(enc_frames, fragments_per_frame=k, has_bot=(ot == 'basic'))
            for kw in ('ExtendedOffsetTable', 'ExtendedOffsetTableLengths'):
                if kw in ds:
                    del ds[kw]
        blob = to_bytes(ds)
        botlen = int.from_bytes(ds.PixelData[4:8], 'little')   # the first item is always the (possibly empty) BOT
        frags = [list(f) for f in generate_fragments(ds.PixelData[8 + botlen:])]
        d = {'idx': idx, 'ts': ts.name, 'frames': nfr, 'fragments_per_frame': k, 'table': ot, 'bits': bits}
        st, rd = _fetch(hd.io.ImageFileReader, DicomBytesIO(blob))
        if st != 'ok':
            ctx.fail({'enc': d}, f'reader refused a valid encapsulated image: {rd}', site='ImageFileReader')
            continue
        with rd:
            st, _ = _fetch(lambda: rd.metadata)
            table = getattr(rd, '_offset_table', None)
            if table is not None:
                stored = []
                if ot == 'basic':
                    stored = [int.from_bytes(ds.PixelData[8 + 4 * q:12 + 4 * q], 'little') for q in range(botlen // 4)]
                if ot == 'extended':
                    # the extended table is used as it is (no rebuild): compare with the model's frame offsets
                    reqs.append(('getBot', {'stored': [], 'frags': frags, 'n': nfr}))
                else:
                    reqs.append(('getBot', {'stored': stored, 'frags': frags, 'n': nfr}))
                pending.append(({'enc': d, 'what': 'offset table', 'layer': 'L2'}, ('ok', [int(x) for x in table])))
            pdb, eotb = _pixel_value_bytes(rd, blob) if st == 'ok' else (None, None)
            for i in range(nfr):
                st2, raw = _fetch(rd.read_frame_raw, i)
                if pdb is not None:
                    # the same read on the byte-level model: the file's own bytes (codec output, real tables)
                    reqs.append(('lazyRawEnc', {'pd': pdb, 'eot': eotb, 'n': nfr, 'i': i}))
                    pending.append(({'enc': d, 'i': i, 'what': 'raw frame from the file bytes (byte-level model)'},
                                    ('ok', list(raw)) if st2 == 'ok' else ('err', 'other')))
                ctx.case(path='reader/enc', syntax=ts.name, table=ot, fragments=k,
                         nontrivial_key=('enc', ts.name, ot, k, nfr, i, idx))
                case = {'enc': d, 'i': i}
                if st2 != 'ok':
                    ctx.fail(case, f'read_frame_raw refused: {raw}', site='read_frame_raw/enc')
                    continue
                if bytes(raw) != enc_frames[i] and bytes(raw).rstrip(b'\x00') != enc_frames[i].rstrip(b'\x00'):
                    ctx.fail(case, 'raw frame bytes differ from the encoded frame', site='read_frame_raw/enc')
                if table is not None:
                    reqs.append(('readFrameRawEnc', {'frags': frags, 'table': [int(x) for x in table], 'i': i}))
                    pending.append((case, ('ok', list(raw))))
                st3, val = _fetch(rd.read_frame, i, correct_color=False)
                if st3 != 'ok' or not np.array_equal(np.asarray(val).astype(np.int64), fr[i]):
                    ctx.fail(case, 'decoded lazy frame differs from the encoded array', site='read_frame/enc')


def _colour(ctx, reqs, pending):
    """Native 8-bit colour images with RGB / YBR_FULL / YBR_FULL_422 (2 bytes per pixel): raw frame bytes against the
    model (byte ranges, lazy offsets), decoded frames against pydicom."""
    import highdicom as hd
    import pydicom
    from pydicom.uid import ExplicitVRLittleEndian, ImplicitVRLittleEndian
    from gen.images import MF_SC_COLOR, base_dataset, to_bytes
    for idx in range(ctx.n(12, 120)):
        r = ctx.rng('colour', idx)
        pi = r.choice(['RGB', 'YBR_FULL', 'YBR_FULL_422', 'YBR_FULL_422'])
        ts = r.choice([ExplicitVRLittleEndian, ImplicitVRLittleEndian])
        n = r.choice([1, 1, 2, 3, 4, 5])
        rows, cols = r.randint(1, 5), 2 * r.randint(1, 4)
        ds = base_dataset(MF_SC_COLOR, ts)
        ds.NumberOfFrames = n
        ds.Rows, ds.Columns, ds.SamplesPerPixel = rows, cols, 3
        ds.PhotometricInterpretation = pi
        planar = 1 if (pi != 'YBR_FULL_422' and ctx.rng('colour2', idx).random() < 0.4) else 0
        ds.PlanarConfiguration = planar
        ds.BitsAllocated, ds.BitsStored, ds.HighBit, ds.PixelRepresentation = 8, 8, 7, 0
        bpp = 2 if pi == 'YBR_FULL_422' else 3
        raw = ctx.np_rng('colourpix', idx).integers(0, 256, size=n * rows * cols * bpp, dtype=np.uint8).tobytes()
        ds.PixelData = raw + (b'\x00' if len(raw) % 2 else b'')
        ds['PixelData'].VR = 'OB' if ts == ExplicitVRLittleEndian else 'OW'
        blob = to_bytes(ds)
        try:
            ref = pydicom.dcmread(io.BytesIO(blob)).pixel_array
            ref = ref.reshape((n, rows, cols, 3))
        except Exception as e:  # noqa: BLE001
            ctx.note(f'pydicom cannot decode colour image {pi}: {type(e).__name__}')
            continue
        d = {'idx': idx, 'colour': pi, 'frames': n, 'rows': rows, 'cols': cols, 'ts': ts.name, 'planar': planar}
        flen = rows * cols * bpp
        # the file reader used directly (it passes its own set of decode parameters, planar configuration among them)
        from pydicom.filebase import DicomBytesIO
        st, rd = _fetch(hd.io.ImageFileReader, DicomBytesIO(blob))
        if st == 'ok':
            with rd:
                for i in range(n):
                    st2, val = _fetch(rd.read_frame, i, correct_color=False)
                    ctx.case(path='reader/colour', photometric=pi, planar=planar,
                             nontrivial_key=('reader-colour', pi, planar, n, i, rows * cols))
                    if st2 != 'ok' or not np.array_equal(np.asarray(val), ref[i]):
                        ctx.fail({'image': d, 'path': 'reader', 'i': i},
                                 f'reader colour frame differs from pydicom decode: {val if st2 != "ok" else "other pixels"}',
                                 site='read_frame/colour')
                    st3, rawf = _fetch(rd.read_frame_raw, i)
                    if st3 != 'ok' or bytes(rawf) != raw[i * flen:(i + 1) * flen]:
                        ctx.fail({'image': d, 'path': 'reader', 'i': i}, 'reader raw frame bytes are not the bytes of that frame',
                                 site='read_frame_raw/colour')
        for name, mk in (('memory', lambda: hd.Image.from_dataset(pydicom.dcmread(io.BytesIO(blob)), copy=False)),
                         ('eager', lambda: hd.imread(io.BytesIO(blob))),
                         ('lazy', lambda: hd.imread(io.BytesIO(blob), lazy_frame_retrieval=True))):
            st, im = _fetch(mk)
            if st != 'ok':
                ctx.fail({'image': d, 'path': name}, f'could not open colour image: {im}', site='open')
                continue
            for k in range(0, n + 2):
                inrange = 1 <= k <= n
                st, val = _fetch(im.get_stored_frame, k)
                ctx.case(path=name + '/colour', photometric=pi, inrange=inrange, planar=planar,
                         nontrivial_key=('colour', pi, n, name, k, rows * cols) if inrange else None)
                case = {'image': d, 'path': name, 'k': k}
                if inrange:
                    if st != 'ok':
                        ctx.fail(case, f'in-range colour frame refused: {val}', site=f'get_stored_frame/{name}')
                    elif not np.array_equal(np.asarray(val), ref[k - 1]):
                        ctx.fail(case, 'colour frame differs from pydicom decode', site=f'get_stored_frame/{name}')
                elif st == 'ok':
                    ctx.fail(case, 'out-of-range colour frame accepted', site=f'get_stored_frame/{name}')
                st2, rawf = _fetch(im.get_raw_frame, k)
                if inrange and (st2 != 'ok' or bytes(rawf) != raw[(k - 1) * flen:k * flen]):
                    ctx.fail(case, 'raw frame bytes are not the bytes of that frame', site=f'get_raw_frame/{name}')
                if name in ('memory', 'lazy'):
                    fn = 'memFrameBytes' if name == 'memory' else 'lazyFrameBytes'
                    reqs.append((fn, {'pd': list(ds.PixelData), 'rows': rows, 'cols': cols, 'samples': 3, 'bits': 8, 'n': n,
                                      'pi': pi, 'k': k, 'as_index': False}))
                    pending.append((case, ('ok', list(rawf)) if st2 == 'ok' else ('err', _err_kind(rawf))))
            # the same object once its whole pixel array is decoded and cached (single-frame colour images have no
            # frame axis there: a separate branch)
            st, whole = _fetch(lambda: im.pixel_array)
            if st != 'ok' or not np.array_equal(np.asarray(whole).reshape(ref.shape), ref):
                ctx.fail({'image': d, 'path': name, 'what': 'pixel_array'}, 'colour pixel_array differs from pydicom', site='pixel_array')
            for as_index in (False, True):
                for idx in range(n):
                    k = idx if as_index else idx + 1
                    ctx.case(path=name + '/colour-cached', photometric=pi, frames=n,
                             nontrivial_key=('colour-cached', pi, n, name, idx, as_index))
                    for what, f in (('get_stored_frame', lambda: im.get_stored_frame(k, as_index=as_index)),
                                    ('get_stored_frames', lambda: im.get_stored_frames([k], as_indices=as_index)[0])):
                        st, val = _fetch(f)
                        if st != 'ok' or not np.array_equal(np.asarray(val), ref[idx]):
                            ctx.fail({'image': d, 'path': name + '/cached', 'k': k, 'as_index': as_index, 'call': what},
                                     f'cached colour frame differs from pydicom decode: {val if st != "ok" else np.asarray(val).shape}',
                                     site=what + '/cached')


def _synthetic_fragments(ctx, reqs, pending):
    """Encapsulated pixel data made of ARBITRARY byte fragments (no codec): exercises the marker test of `_build_bot`
    (JPEG SOI, JPEG 2000 SOC and near misses), the choice between frame and fragment offsets, the refusal when neither
    count fits, and the fragment walk of `read_frame_raw` for every frame.  Oracle: frame i's raw bytes are the
    concatenation of the fragments that were written for frame i."""
    import highdicom as hd
    from pydicom.filebase import DicomBytesIO
    from pydicom.uid import JPEG2000Lossless, JPEGBaseline8Bit, JPEGLSLossless
    from gen.images import MF_SC_BYTE, base_dataset, to_bytes
    item = lambda b: b'\xfe\xff\x00\xe0' + len(b).to_bytes(4, 'little') + b     # noqa: E731
    near = [b'\xff\xd9', b'\xff\x4e', b'\xd8\xff', b'\x4f\xff', b'\xff\x50', b'\xff\xd7', b'\x00\x00', b'\xfe\xff', b'\xff\xff']
    for idx in range(ctx.n(60, 900)):
        r = ctx.rng('synfrag', idx)
        nfr = r.randint(1, 6)
        marker = r.choice([b'\xff\xd8', b'\xff\x4f'])
        style = r.choice(['marked', 'marked', 'single-unmarked', 'partly-marked', 'mismatch'])

        def frag(first2):
            return first2 + bytes(r.randrange(256) for _ in range(2 * r.randint(0, 4)))
        frames = []
        for q in range(nfr):
            if style == 'marked':
                fr = [frag(marker)] + [frag(r.choice(near)) for _ in range(r.choice([0, 0, 1, 2, 3]))]
            elif style == 'single-unmarked':
                fr = [frag(r.choice(near))]
            elif style == 'partly-marked':
                fr = [frag(marker if (q % 2 == 0) else r.choice(near))]
            else:
                fr = [frag(r.choice(near)) for _ in range(2 if q == 0 else r.choice([1, 2]))]
            frames.append(fr)
        if style == 'partly-marked' and nfr == 1:
            style = 'marked'
        declared = nfr
        flat = [f for fr in frames for f in fr]
        ds = base_dataset(MF_SC_BYTE, r.choice([JPEG2000Lossless, JPEGBaseline8Bit, JPEGLSLossless]))
        ds.NumberOfFrames = declared
        ds.Rows, ds.Columns, ds.SamplesPerPixel = 4, 4, 1
        ds.PhotometricInterpretation = 'MONOCHROME2'
        ds.BitsAllocated, ds.BitsStored, ds.HighBit, ds.PixelRepresentation = 8, 8, 7, 0
        ds.PixelData = item(b'') + b''.join(item(f) for f in flat) + b'\xfe\xff\xdd\xe0\x00\x00\x00\x00'
        ds['PixelData'].VR = 'OB'
        ds['PixelData'].is_undefined_length = True
        blob = to_bytes(ds)
        d = {'idx': idx, 'style': style, 'frames': nfr, 'fragments': [len(fr) for fr in frames], 'marker': marker.hex()}
        frags = [list(f) for f in flat]
        rd = hd.io.ImageFileReader(DicomBytesIO(blob))
        st, _ = _fetch(rd.__enter__)
        entered = st == 'ok'
        if entered:
            st, _ = _fetch(lambda: rd.metadata)     # the offset table is built when the metadata are first read
            if st != 'ok':
                rd.__exit__(None, None, None)
        ctx.case(path='reader/synthetic', style=style, nontrivial_key=('syn', style, nfr, tuple(len(fr) for fr in frames), marker.hex()),
                 outcome=('ok' if st == 'ok' else _))
        table = getattr(rd, '_offset_table', None) if st == 'ok' else None
        reqs.append(('getBot', {'stored': [], 'frags': frags, 'n': declared}))
        pending.append(({'syn': d, 'what': 'offset table of synthetic fragments', 'layer': 'L2'},
                        ('ok', [int(x) for x in table]) if st == 'ok' and table is not None else ('err', _err_kind(_))))
        # oracle: the table is refused exactly when neither the marked fragments nor all fragments are one per frame
        n_marked = sum(1 for f in flat if f[:2] in (b'\xff\xd8', b'\xff\x4f'))
        fits = n_marked == declared or len(flat) == declared
        if fits != (st == 'ok'):
            ctx.fail({'syn': d}, f'offset table {"refused" if fits else "built"} although marked={n_marked}, fragments={len(flat)}, '
                                 f'frames={declared}', site='_build_bot/synthetic')
        if st != 'ok':
            continue
        try:
            for i in range(nfr):
                st2, raw = _fetch(rd.read_frame_raw, i)
                ctx.case(path='reader/synthetic-frame', style=style)
                case = {'syn': d, 'i': i}
                want = b''.join(frames[i])
                if st2 != 'ok' or bytes(raw) != want:
                    ctx.fail(case, f'raw bytes of frame {i} are not its fragments: {raw if st2 != "ok" else bytes(raw).hex()} != {want.hex()}',
                             site='read_frame_raw/synthetic')
                reqs.append(('readFrameRawEnc', {'frags': frags, 'table': [int(x) for x in table], 'i': i}))
                pending.append((case, ('ok', list(raw)) if st2 == 'ok' else ('err', _err_kind(raw))))
        finally:
            rd.__exit__(None, None, None)


def _pixel_value_bytes(rd, blob):
    """The bytes of the file from the first byte of the Pixel Data element's VALUE on (explicit VR, undefined length:
    tag 4 + VR 2 + reserved 2 + length 4 = 12 header bytes), and the value of ExtendedOffsetTable if present."""
    off = int(rd._pixel_data_offset)
    md = rd.metadata
    eot = list(bytes(md.ExtendedOffsetTable)) if 'ExtendedOffsetTable' in md else None
    return list(blob[off + 12:]), eot


def _byte_streams(ctx, reqs, pending):
    """The lazy reader against the BYTE-level model (Model/EncapBytes.lean) on the bytes of the file itself: encapsulated
    pixel data written by hand, item by item, well-formed and MALFORMED (no sequence delimiter, odd / zero item length,
    a foreign tag between the items, the last item cut off, junk behind the delimiter), with every kind of offset table
    (empty / correct / wrong count / right count but wrong entries Basic Offset Table; correct / wrong count / ragged
    Extended Offset Table).  L0: whether the image opens, and the raw bytes of every frame index in -1..n.
    Oracle: a well-formed stream gives frame i = its fragments; a stream that cannot be walked to a sequence delimiter is
    refused when the table has to be built from it."""
    import highdicom as hd
    from pydicom.filebase import DicomBytesIO
    from pydicom.uid import JPEG2000Lossless, JPEGBaseline8Bit, JPEGLSLossless, RLELossless
    from gen.images import MF_SC_BYTE, base_dataset, to_bytes
    item = lambda b: b'\xfe\xff\x00\xe0' + len(b).to_bytes(4, 'little') + b     # noqa: E731
    delim = b'\xfe\xff\xdd\xe0\x00\x00\x00\x00'
    for idx in range(ctx.n(90, 1500)):
        r = ctx.rng('bytestream', idx)
        nfr = r.randint(1, 5)
        marker = r.choice([b'\xff\xd8', b'\xff\x4f'])
        style = r.choice(['marked', 'marked', 'single-unmarked', 'mismatch'])

        def frag(first2):
            return first2 + bytes(r.randrange(256) for _ in range(2 * r.randint(0, 3)))
        frames = []
        for q in range(nfr):
            if style == 'marked':
                fr = [frag(marker)] + [frag(bytes([r.randrange(254), r.randrange(256)])) for _ in range(r.choice([0, 0, 1, 2]))]
            elif style == 'single-unmarked':
                fr = [frag(bytes([r.randrange(254), r.randrange(256)]))]
            else:
                fr = [frag(bytes([r.randrange(254), r.randrange(256)])) for _ in range(2 if q == 0 else r.choice([1, 2]))]
            frames.append(fr)
        flat = [f for fr in frames for f in fr]
        offs, pos = [], 0
        for fr in frames:
            offs.append(pos)
            pos += sum(8 + len(f) for f in fr)
        defect = r.choice(['none', 'none', 'none', 'no-delimiter', 'odd-item', 'zero-item', 'foreign-tag', 'cut-last-item', 'junk-after'])
        table = r.choice(['bot-empty', 'bot-empty', 'bot-good', 'bot-wrong-count', 'bot-wrong-entries', 'eot-good', 'eot-wrong-count', 'eot-ragged'])
        if ctx.rng('bytestream2', idx).random() < 0.08:
            # PS3.5 A.4 demands an EMPTY Basic Offset Table next to an Extended Offset Table; the reader relies on it (first frame
            # 8 bytes into the value).  A file that breaks the rule: no oracle claim, model and reader must agree (both refuse)
            table = 'eot-with-nonempty-bot'
        items = [item(f) for f in flat]
        k = r.randrange(len(items))
        if defect == 'odd-item':
            items[k] = item(flat[k] + b'\x07')
        elif defect == 'zero-item':
            items.insert(k, item(b''))
        elif defect == 'foreign-tag':
            items.insert(k, r.choice([b'\xfe\xff\x0d\xe0', b'\xe0\x7f\x10\x00', b'\x00\x00\x00\x00']) + (4).to_bytes(4, 'little') + b'\x01\x02\x03\x04')
        stream = b''.join(items)
        if defect == 'cut-last-item':
            stream = stream[:-r.randint(1, len(items[-1]) - 1)]
        elif defect != 'no-delimiter':
            stream += delim
        if defect == 'junk-after':
            stream += bytes(r.randrange(256) for _ in range(r.randint(1, 12)))
        bot_entries, eot = [], None
        if table == 'bot-good':
            bot_entries = offs
        elif table == 'bot-wrong-count':
            bot_entries = (offs + [pos])[:nfr + 1] if r.random() < 0.5 else offs[:-1] + ([] if nfr > 1 else [0, 0])
        elif table == 'bot-wrong-entries':
            bot_entries = [o + r.choice([0, 2, 8, -8 if o else 4]) for o in offs]
        elif table == 'eot-good':
            eot = b''.join(o.to_bytes(8, 'little') for o in offs)
        elif table == 'eot-with-nonempty-bot':
            eot = b''.join(o.to_bytes(8, 'little') for o in offs)
            bot_entries = offs
        elif table == 'eot-wrong-count':
            eot = b''.join(o.to_bytes(8, 'little') for o in offs + [pos])
        elif table == 'eot-ragged':
            eot = b''.join(o.to_bytes(8, 'little') for o in offs) + b'\x01\x00\x00\x00'
        bot = item(b''.join(max(o, 0).to_bytes(4, 'little') for o in bot_entries))
        ds = base_dataset(MF_SC_BYTE, r.choice([JPEG2000Lossless, JPEGBaseline8Bit, JPEGLSLossless, RLELossless]))
        ds.NumberOfFrames = nfr
        ds.Rows, ds.Columns, ds.SamplesPerPixel = 4, 4, 1
        ds.PhotometricInterpretation = 'MONOCHROME2'
        ds.BitsAllocated, ds.BitsStored, ds.HighBit, ds.PixelRepresentation = 8, 8, 7, 0
        if eot is not None:
            ds.ExtendedOffsetTable = eot
            ds.ExtendedOffsetTableLengths = b''.join((8).to_bytes(8, 'little') for _ in range(len(eot) // 8))
        ds.PixelData = item(b'') + delim
        ds['PixelData'].VR = 'OB'
        ds['PixelData'].is_undefined_length = True
        blob0 = to_bytes(ds)
        # cut the file behind the 12 header bytes of the Pixel Data element and write the stream by hand
        cut = blob0.rfind(b'\xe0\x7f\x10\x00OB\x00\x00\xff\xff\xff\xff')
        if cut < 0:
            ctx.note('byte stream generator: Pixel Data header not found')
            continue
        blob = blob0[:cut + 12] + bot + stream
        pd = list(bot + stream)
        d = {'idx': idx, 'style': style, 'frames': nfr, 'fragments': [len(fr) for fr in frames], 'defect': defect, 'table': table}
        rd = hd.io.ImageFileReader(DicomBytesIO(blob))
        st, _ = _fetch(rd.__enter__)
        if st == 'ok':
            st, why = _fetch(lambda: rd.metadata)
        opened = st == 'ok'
        ctx.case(path='reader/bytes', defect=defect, table=table, style=style, outcome='opened' if opened else 'refused',
                 nontrivial_key=('bytes', style, defect, table, nfr, tuple(len(fr) for fr in frames)) if opened else None)
        reqs.append(('openEncapsulated', {'pd': pd, 'eot': list(eot) if eot is not None else None, 'n': nfr}))
        pending.append(({'bytes': d, 'what': 'offset table and first frame position from the bytes', 'layer': 'L2'},
                        ('ok', {'first': int(rd._first_frame_offset) - int(rd._pixel_data_offset) - 12,
                                'table': [int(x) for x in rd._offset_table]}) if opened else ('err', 'other')))
        # ---- oracle
        n_marked = sum(1 for f in flat if f[:2] in (b'\xff\xd8', b'\xff\x4f'))
        wellformed = defect in ('none', 'junk-after')
        usable_table = table in ('bot-good', 'eot-good')
        must_build = table in ('bot-empty', 'bot-wrong-count')
        if wellformed and (usable_table or (must_build and (n_marked == nfr or len(flat) == nfr))) and not opened:
            ctx.fail({'bytes': d}, 'a well-formed encapsulated image was refused', site='open/bytes')
        if must_build and opened and (defect in ('no-delimiter', 'odd-item', 'zero-item', 'foreign-tag', 'cut-last-item')):
            ctx.fail({'bytes': d}, 'offset table built from a stream that cannot be walked to its sequence delimiter', site='_build_bot/bytes')
        for i in range(-1, nfr + 1):
            st2, raw = _fetch(rd.read_frame_raw, i) if opened else ('err', 'not opened')
            ctx.case(path='reader/bytes-frame', defect=defect, table=table, inrange=0 <= i < nfr)
            case = {'bytes': d, 'i': i}
            reqs.append(('lazyRawEnc', {'pd': pd, 'eot': list(eot) if eot is not None else None, 'n': nfr, 'i': i}))
            pending.append((case, ('ok', list(raw)) if st2 == 'ok' else ('err', 'other')))
            if not 0 <= i < nfr:
                if st2 == 'ok':
                    ctx.fail(case, 'frame index outside the image accepted', site='read_frame_raw/bytes')
            elif opened and wellformed and (usable_table or must_build):
                want = b''.join(frames[i]) if (usable_table or n_marked == nfr) else flat[i]
                if st2 != 'ok' or bytes(raw) != want:
                    ctx.fail(case, f'raw bytes of frame {i} are not its fragments: {raw if st2 != "ok" else bytes(raw).hex()} != {want.hex()}',
                             site='read_frame_raw/bytes')
        if opened:
            _fetch(rd.__exit__, None, None, None)


def _assembled(ctx, reqs, pending):
    """Stored frames as get_total_pixel_matrix / get_volume read them (every transform off): tiled images (8 / 16 bit, colour,
    bit-packed with tiles that do not end on byte boundaries; TILED_FULL and TILED_SPARSE in shuffled frame order) and
    enhanced multi-frame volumes; in memory, from bytes, lazily; before and after the whole pixel array was cached.
    Oracle: the assembled matrix is the matrix the tiles were cut from; every slice of the volume is one stored frame,
    each exactly once.  Model (bit-packed, untruncated tiles): `pixelsBits` for the frame behind every tile."""
    import highdicom as hd
    import pydicom
    from pydicom.pixels.utils import pack_bits
    from gen.images import to_bytes
    from gen.sources import enhanced_multiframe, slide_image
    for idx in range(ctx.n(24, 320)):
        r = ctx.rng('assembled', idx)
        nr = ctx.np_rng('assembled', idx)
        kind = r.choice(['tpm8', 'tpm16', 'tpm1', 'tpm1', 'tpm-colour', 'volume'])
        d = {'idx': idx, 'kind': kind}
        if kind == 'volume':
            n, rows, cols = r.choice([1, 2, 3, 5]), r.randint(1, 4), r.randint(2, 5)
            ds = enhanced_multiframe(n, rows, cols, rng=nr)
            want = None
        else:
            tr, tc = r.randint(1, 4), r.randint(1, 5)
            exact = kind == 'tpm1' or r.random() < 0.4
            nth, ntw = r.randint(1, 3), r.randint(1, 3)
            R = nth * tr - (0 if exact else r.randint(0, tr - 1))
            C = ntw * tc - (0 if exact else r.randint(0, tc - 1))
            full = r.random() < 0.5
            order = None
            if not full:
                order = list(range(nth * ntw))
                r.shuffle(order)
            ds, tpm = slide_image(R, C, tr, tc, tiled_full=full, samples=3 if kind == 'tpm-colour' else 1,
                                  bits=16 if kind == 'tpm16' else 8, rng=nr, frame_order=order)
            want = tpm.astype(np.int64)
            d.update(tile=[tr, tc], total=[R, C], tiled_full=full, frame_order=order)
            if kind == 'tpm1':
                nfr = int(ds.NumberOfFrames)
                fr8 = np.frombuffer(ds.PixelData, dtype=np.uint8)[:nfr * tr * tc].reshape(nfr, tr, tc)
                ds.BitsAllocated, ds.BitsStored, ds.HighBit = 1, 1, 0
                ds.PixelData = pack_bits((fr8 > 127).astype(np.uint8).reshape(-1), pad=True)
                ds['PixelData'].VR = 'OB'
                want = (tpm > 127).astype(np.int64)
        blob = to_bytes(ds)
        n = int(getattr(ds, 'NumberOfFrames', 1))
        stored = pydicom.dcmread(io.BytesIO(blob)).pixel_array
        stored = stored.reshape((n,) + stored.shape[(0 if n == 1 else 1):]).astype(np.int64)
        for name, mk in (('memory', lambda: hd.Image.from_dataset(pydicom.dcmread(io.BytesIO(blob)), copy=False)),
                         ('eager', lambda: hd.imread(blob)),
                         ('lazy', lambda: hd.imread(blob, lazy_frame_retrieval=True))):
            st, im = _fetch(mk)
            if st != 'ok':
                ctx.fail({'assembled': d, 'path': name}, f'could not open image: {im}', site='open/assembled')
                continue
            for phase in ('fresh', 'cached'):
                if phase == 'cached':
                    _fetch(lambda: im.pixel_array)
                case = {'assembled': d, 'path': name, 'phase': phase}
                ctx.case(path=f'assembled/{name}/{phase}', assembled=kind,
                         nontrivial_key=('assembled', kind, name, phase, idx))
                if kind == 'volume':
                    st2, vol = _fetch(lambda: im.get_volume(dtype=np.int64, **_NO_TRANSFORMS).array)
                    if st2 != 'ok':
                        ctx.fail(case, f'get_volume with every transform off refused: {vol}', site='get_volume/stored')
                        continue
                    vol = np.asarray(vol)
                    hits = [[j for j in range(n) if np.array_equal(vol[q].reshape(stored[j].shape), stored[j])] for q in range(vol.shape[0])]
                    distinct = all(not np.array_equal(stored[a], stored[b]) for a in range(n) for b in range(a + 1, n))
                    if vol.shape[0] != n or any(not h for h in hits) or (distinct and sorted(h[0] for h in hits) != list(range(n))):
                        ctx.fail(case, 'the slices of the volume (transforms off) are not the stored frames, each exactly once',
                                 site='get_volume/stored')
                    continue
                st2, mat = _fetch(lambda: im.get_total_pixel_matrix(dtype=np.int64, **_NO_TRANSFORMS))
                if st2 != 'ok' or not np.array_equal(np.asarray(mat).reshape(want.shape), want):
                    ctx.fail(case, f'total pixel matrix with every transform off is not the matrix the tiles were cut from: '
                                   f'{mat if st2 != "ok" else np.asarray(mat).tolist()}', site='get_total_pixel_matrix/stored')
                    continue
                if kind == 'tpm1' and phase == 'fresh' and name in ('memory', 'lazy'):
                    mat = np.asarray(mat)
                    tiles = [(a, b) for a in range(nth) for b in range(ntw)]
                    if order is not None:
                        tiles = [tiles[q] for q in order]
                    for f, (a, b) in enumerate(tiles):
                        reqs.append(('pixelsBits', {'pd': list(ds.PixelData), 'rows': tr, 'cols': tc, 'n': n, 'idx': f, 'lazy': name == 'lazy'}))
                        pending.append((dict(case, frame_index=f, what='tile of the assembled matrix vs the frame the loop fetches (model)'),
                                        ('ok', [bool(x) for x in mat[a * tr:(a + 1) * tr, b * tc:(b + 1) * tc].reshape(-1)])))
    # the cached branch of the two loops on a single-frame image: only frame_index 0 exists
    for n in (1, 2, 3):
        for idxq in range(-1, n + 1):
            for pixels in (False, True):
                reqs.append(('loopCached', {'n': n, 'idx': idxq, 'pixels': pixels}))
                want = ('ok', idxq) if 0 <= idxq < n else (('ok', n + idxq) if (n != 1 and -n <= idxq < 0) else ('err', 'index'))
                pending.append(({'what': 'cached branch of the frame loops (python subscript semantics)', 'n': n, 'idx': idxq, 'layer': 'L2'}, want))


def _histories(ctx, reqs, pending):
    """Histories on ONE in-memory native bit-packed image against the state machine of Model/FramePaths.lean: fetches (single
    and batch method, numbers and indices, in and out of range), whole-array accesses and replacements of the PixelData
    value in any order.  Oracle: every accepted fetch returns the frame of the pixel data the object holds at that moment."""
    import highdicom as hd
    import pydicom
    from pydicom.pixels.utils import pack_bits, unpack_bits
    from pydicom.uid import ExplicitVRLittleEndian
    from gen.images import multiframe_image, to_bytes
    for idx in range(ctx.n(30, 400)):
        r = ctx.rng('history', idx)
        nr = ctx.np_rng('history', idx)
        n, rows, cols = r.choice([1, 2, 3, 5]), r.randint(1, 4), r.randint(1, 5)
        fr = nr.random((n, rows, cols)) < 0.5
        ds = multiframe_image(fr, 1, ExplicitVRLittleEndian)
        lazy = idx % 3 == 2          # a third of the histories run on a lazily read object (no replacement of PixelData there)
        blob_h = to_bytes(ds)
        st, im = _fetch((lambda: hd.imread(blob_h, lazy_frame_retrieval=True)) if lazy else
                        (lambda: hd.Image.from_dataset(pydicom.dcmread(io.BytesIO(blob_h)), copy=False)))
        if st != 'ok':
            ctx.fail({'history': idx}, f'could not open image: {im}', site='open/history')
            continue
        pd0 = list(ds.PixelData)
        cur = np.array(fr)
        ops, impl = [], []
        # every PixelData value ever assigned stays alive: pydicom recognises a stale array by the IDENTITY of the value object, and
        # CPython hands the address of a freed bytes object to the next one (an artefact of pydicom's check, not of the library)
        alive = [] if lazy else [im.PixelData]
        d = {'idx': idx, 'frames': n, 'rows': rows, 'cols': cols, 'lazy': lazy}
        for step in range(r.randint(3, 9)):
            u = r.random()
            if u < 0.2:
                # a batch of several numbers: permutations, repeats, all frames in another order, one number outside, empty
                ai = r.random() < 0.5
                kind = r.choice(['permutation', 'repeats', 'some', 'one-outside', 'empty'])
                base = list(range(n)) if ai else list(range(1, n + 1))
                if kind == 'permutation':
                    ks = base[:]
                    r.shuffle(ks)
                elif kind == 'repeats':
                    ks = [r.choice(base) for _ in range(n)]
                elif kind == 'some':
                    ks = [r.choice(base) for _ in range(r.randint(1, n + 1))]
                elif kind == 'one-outside':
                    ks = base + [n if ai else n + 1]
                    r.shuffle(ks)
                else:
                    ks = []
                stq, v = _fetch(im.get_stored_frames, ks, as_indices=ai)
                ops.append({'op': 'fetchMany', 'ks': ks, 'as_index': ai})
                impl.append({'ok': [[bool(x) for x in np.asarray(f_).reshape(-1)] for f_ in v]} if stq == 'ok' else {'err': _err_kind(v)})
                ctx.case(path='history/fetch-many', history_step='batch-' + kind, history_object='lazy' if lazy else 'memory')
                idxs = [k if ai else k - 1 for k in ks]
                if ks and all(0 <= q < n for q in idxs):
                    if stq != 'ok' or not np.array_equal(np.asarray(v).astype(bool), cur[idxs]):
                        ctx.fail({'history': d, 'ops': ops}, 'a batch does not return the requested frames of the current pixel data, in request order'
                                 if stq == 'ok' else f'batch refused: {v}', site='get_stored_frames/history')
                elif stq == 'ok':
                    ctx.fail({'history': d, 'ops': ops}, 'an empty batch / a batch with a number outside the image was answered',
                             site='get_stored_frames/history')
                continue
            if u < 0.55:
                ai, batch = r.random() < 0.5, r.random() < 0.5
                k = r.randint(-1, n + 1)
                stq, v = _fetch((lambda: im.get_stored_frames([k], as_indices=ai)[0]) if batch else (lambda: im.get_stored_frame(k, as_index=ai)))
                ops.append({'op': 'fetch', 'k': k, 'as_index': ai, 'batch': batch})
                impl.append({'ok': [bool(x) for x in np.asarray(v).reshape(-1)]} if stq == 'ok' else {'err': _err_kind(v)})
                i0 = k if ai else k - 1
                ctx.case(path='history/fetch', history_step='batch' if batch else 'single', inrange=0 <= i0 < n,
                         history_object='lazy' if lazy else 'memory')
                if 0 <= i0 < n:
                    if stq != 'ok' or not np.array_equal(np.asarray(v).astype(bool), cur[i0]):
                        ctx.fail({'history': d, 'ops': ops}, 'fetch does not return the frame of the pixel data the object holds now'
                                 if stq == 'ok' else f'in-range fetch refused: {v}', site='get_stored_frame/history')
                elif stq == 'ok':
                    ctx.fail({'history': d, 'ops': ops}, 'out-of-range fetch accepted', site='get_stored_frame/history')
                if stq == 'ok' and 0 <= i0 < n and r.random() < 0.4 and np.asarray(v).flags.writeable:
                    # the caller edits, in place, the frame it was handed: no later read of the object may notice
                    a_ = np.asarray(v)
                    if a_.dtype == bool:
                        np.logical_not(a_, out=a_)
                    else:
                        np.bitwise_xor(a_, 1, out=a_)
                    ops.append({'op': 'scribble', 'i': i0})
                    ctx.case(path='history/scribble', history_step='write-into-result')
            elif u < 0.75:
                stq, v = _fetch(lambda: im.pixel_array)
                ops.append({'op': 'whole'})
                ctx.case(path='history/whole', history_step='whole')
                if stq != 'ok' or not np.array_equal(np.asarray(v).reshape(cur.shape).astype(bool), cur):
                    ctx.fail({'history': d, 'ops': ops}, 'pixel_array is not the pixel data the object holds now', site='pixel_array/history')
            elif lazy:
                continue
            else:
                cur = np.array(nr.random((n, rows, cols)) < 0.5) if r.random() < 0.5 else np.ascontiguousarray(cur[::-1])
                new = pack_bits(cur.astype(np.uint8).reshape(-1), pad=True)
                alive.append(new)
                im['PixelData'].value = new
                ops.append({'op': 'replace', 'pd': list(new)})
                ctx.case(path='history/replace', history_step='replace')
        reqs.append(('history', {'pd': pd0, 'rows': rows, 'cols': cols, 'n': n, 'ops': ops, 'lazy': lazy}))
        pending.append(({'history': d, 'ops': ops, 'what': 'answers of the fetches of a history vs the state machine'}, ('ok', impl)))


def _float_pixel_maps(ctx):
    """Parametric maps with FLOATING-POINT pixel data (FloatPixelData / DoubleFloatPixelData): every way of fetching a stored frame
    against pydicom's decode.  The pinned tree has no frame-wise access to these elements (open finding
    C05-float-pixel-data-frames): un-cached in-memory reads raise AttributeError (`get_raw_frame` reads `self.PixelData`), lazy reads
    return the float bit patterns as integers (`decode_frame` knows integer pixel data only).  Failures of this stream are
    attributed to that finding and nothing else is."""
    import highdicom as hd
    import pydicom
    from pydicom.uid import ExplicitVRLittleEndian, ParametricMapStorage
    from gen.images import multiframe_image, to_bytes
    for bits, fdt, kw in ((32, np.float32, 'FloatPixelData'), (64, np.float64, 'DoubleFloatPixelData')):
        arr = (np.arange(2 * 2 * 3).reshape(2, 2, 3) * 1.25 - 3.5).astype(fdt)
        ds = multiframe_image(np.zeros((2, 2, 3), dtype=np.int64), 16, ExplicitVRLittleEndian)
        ds.SOPClassUID = ParametricMapStorage
        ds.file_meta.MediaStorageSOPClassUID = ParametricMapStorage
        ds.BitsAllocated = bits
        for k_ in ('BitsStored', 'HighBit', 'PixelData'):
            if k_ in ds:
                del ds[k_]
        setattr(ds, kw, arr.tobytes())
        blob = to_bytes(ds)
        ref = pydicom.dcmread(io.BytesIO(blob)).pixel_array
        for name, mk in (('memory', lambda: hd.Image.from_dataset(pydicom.dcmread(io.BytesIO(blob)), copy=False)),
                         ('eager', lambda: hd.imread(blob)), ('lazy', lambda: hd.imread(blob, lazy_frame_retrieval=True))):
            st, im = _fetch(mk)
            if st != 'ok':
                ctx.fail({'float_pixels': {'bits': bits}, 'path': name}, f'could not open image: {im}', site='open/float-pixels')
                continue
            for phase in ('fresh', 'cached'):
                if phase == 'cached':
                    _fetch(lambda: im.pixel_array)
                for k in (1, 2):
                    for what, f in (('get_stored_frame', lambda: im.get_stored_frame(k)),
                                    ('get_stored_frames', lambda: im.get_stored_frames([k])[0])):
                        st2, v = _fetch(f)
                        ctx.case(path=f'float-pixels/{name}/{phase}', float_pixel_outcome='ok' if st2 == 'ok' else v)
                        if st2 != 'ok' or not np.array_equal(np.asarray(v), ref[k - 1]):
                            ctx.fail({'float_pixels': {'bits': bits}, 'path': name, 'phase': phase, 'call': what, 'k': k},
                                     f'float stored frame: {v if st2 != "ok" else "values differ from pydicom (" + str(np.asarray(v).dtype) + ")"}',
                                     site=what + '/float-pixels')


def _twins(ctx):
    """TWO images alive in one process that differ in exactly ONE description parameter (signedness, BitsStored, planar
    configuration, rows <-> columns, photometric interpretation RGB / YBR_FULL) and otherwise agree - same bytes where the
    parameter allows - with their frames fetched alternately through every un-cached path: whatever one object's decoding leaves
    behind (memoised descriptions, cached decoders, remembered parameters) must not leak into the other.  Oracle: each fetch equals
    pydicom's decode of ITS OWN dataset."""
    import highdicom as hd
    import pydicom
    from pydicom.filebase import DicomBytesIO
    from pydicom.uid import ExplicitVRLittleEndian
    from gen.images import multiframe_image, to_bytes
    for idx in range(ctx.n(20, 240)):
        r = ctx.rng('twins', idx)
        nr = ctx.np_rng('twins', idx)
        what = ['signedness', 'bits_stored', 'planar', 'transposed', 'photometric', 'transfer_syntax'][idx % 6]
        n, rows, cols = r.choice([1, 2, 3]), r.randint(1, 4), r.randint(2, 5)
        bits = r.choice([8, 16]) if what not in ('planar', 'photometric') else 8
        colour = what in ('planar', 'photometric')
        shape = (n, rows, cols) + ((3,) if colour else ())
        fr = nr.integers(0, 2 ** bits, size=shape, dtype=np.int64)
        dsa = multiframe_image(fr, bits, ExplicitVRLittleEndian)
        dsb = pydicom.dcmread(io.BytesIO(to_bytes(dsa)))
        if what == 'signedness':
            dsb.PixelRepresentation = 1
        elif what == 'bits_stored':
            dsb.BitsStored, dsb.HighBit = bits - 3, bits - 4
        elif what == 'planar':
            dsb.PlanarConfiguration = 1
        elif what == 'transposed':
            if rows == cols:
                continue
            dsb.Rows, dsb.Columns = cols, rows
        elif what == 'photometric':
            dsb.PhotometricInterpretation = 'YBR_FULL'
        elif what == 'transfer_syntax':
            from pydicom.uid import RLELossless
            try:
                dsb = multiframe_image(fr, bits, RLELossless)
            except Exception as e:  # noqa: BLE001
                ctx.note(f'twins: RLE twin not encodable: {type(e).__name__}')
                continue
        blobs = [to_bytes(dsa), to_bytes(dsb)]
        try:
            refs = [pydicom.dcmread(io.BytesIO(b)).pixel_array for b in blobs]
        except Exception as e:  # noqa: BLE001
            ctx.note(f'twins: pydicom cannot decode the {what} twin: {type(e).__name__}')
            continue
        ns = [n, int(getattr(dsb, 'NumberOfFrames', 1))]
        refs = [x.reshape((ns[q],) + x.shape[(0 if ns[q] == 1 else 1):]) for q, x in enumerate(refs)]
        d = {'idx': idx, 'differs_in': what, 'frames': n, 'rows': rows, 'cols': cols, 'bits': bits}
        for how in ('memory', 'lazy', 'reader'):
            objs = []
            for b in blobs:
                if how == 'memory':
                    st, o = _fetch(lambda: hd.Image.from_dataset(pydicom.dcmread(io.BytesIO(b)), copy=False))
                elif how == 'lazy':
                    st, o = _fetch(hd.imread, b, lazy_frame_retrieval=True)
                else:
                    st, o = _fetch(lambda: hd.io.ImageFileReader(DicomBytesIO(b)).__enter__())
                objs.append(o if st == 'ok' else None)
            if any(o is None for o in objs):
                ctx.fail({'twins': d, 'path': how}, 'could not open a twin image', site='open/twins')
                continue
            order = [(w, k) for w in (0, 1) for k in range(ns[w])]
            r.shuffle(order)
            for w, k in order + order[:2]:
                o = objs[w]
                if how == 'reader':
                    st, v = _fetch(o.read_frame, k, correct_color=False)
                elif r.random() < 0.5:
                    st, v = _fetch(o.get_stored_frame, k + 1)
                else:
                    st, v = _fetch(lambda: o.get_stored_frames([k + 1])[0])
                ctx.case(path=f'twins/{how}', twins_differ_in=what, nontrivial_key=('twins', what, how, idx, w, k))
                if st != 'ok' or not np.array_equal(np.asarray(v).astype(np.int64), refs[w][k].astype(np.int64)):
                    ctx.fail({'twins': d, 'path': how, 'which': 'ab'[w], 'frame': k + 1},
                             f'a frame of one twin is not pydicom\'s decode of ITS dataset (the twins differ in {what}): '
                             f'{v if st != "ok" else np.asarray(v).reshape(-1)[:4].tolist()}', site=f'twins/{how}')
            if how == 'reader':
                for o in objs:
                    _fetch(o.__exit__, None, None, None)


def run(ctx):
    reqs, pending = [], []
    _helpers(ctx, reqs, pending)
    _colour(ctx, reqs, pending)
    _encapsulated(ctx, reqs, pending)
    _synthetic_fragments(ctx, reqs, pending)
    _byte_streams(ctx, reqs, pending)
    _assembled(ctx, reqs, pending)
    _histories(ctx, reqs, pending)
    _float_pixel_maps(ctx)
    _twins(ctx)
    for d, ds, fr in _images(ctx):
        _check_image(ctx, d, ds, fr, reqs, pending)
    _fixtures(ctx)
    answers = ctx.model(reqs)
    if answers is None:
        return
    for (case, impl), ans in zip(pending, answers):
        if 'proto_err' in ans:
            ctx.disagree('L0', case, impl, ans, 'model protocol error')
            continue
        model = ('ok', ans['ok']) if 'ok' in ans else ('err', ans['err'])
        layer = case.get('layer', 'L0') if isinstance(case, dict) else 'L0'
        if impl[0] != model[0]:
            ctx.disagree(layer, case, impl, model, 'ok-vs-error')
        elif impl[0] == 'ok' and impl[1] != model[1]:
            ctx.disagree(layer, case, impl, model, 'value')
        # error kinds are compared as ok-vs-error only (DESIGN 3)


def attribute(failure, open_findings):
    """C05-float-pixel-data-frames: failures of the float-pixel stream (and only those) belong to the open finding"""
    import json
    ids = {f['id'] for f in open_findings}
    try:
        here = os.path.dirname(os.path.dirname(os.path.dirname(os.path.abspath(__file__))))
        ids |= {f['id'] for f in json.load(open(os.path.join(here, 'findings', 'C05.json'))) if f.get('status') == 'open'}
    except Exception:  # noqa: BLE001
        pass
    case = failure.get('case') or {}
    if 'C05-float-pixel-data-frames' in ids and isinstance(case, dict) and 'float_pixels' in case \
            and str(failure.get('site', '')).endswith('/float-pixels'):
        return 'C05-float-pixel-data-frames'
    return None


def replay(ctx, case):
    """Re-run one stored case on the implementation; returns failure detail or None.  Every case is a pure function of
    (seed, stream, index), so the whole deterministic run is repeated quietly (a few seconds) and the failures on the same
    image / stream entry are returned."""
    sub = type(ctx)(ctx.prop, ctx.tier, ctx.seed, 1, ctx.driver)
    sub.model_available = False          # implementation side only
    import contextlib
    import io as _io
    if isinstance(case, dict) and 'float_pixels' in case:
        with contextlib.redirect_stdout(_io.StringIO()), contextlib.redirect_stderr(_io.StringIO()):
            _float_pixel_maps(sub)
        return sub.failures[:3] or None
    with contextlib.redirect_stdout(_io.StringIO()), contextlib.redirect_stderr(_io.StringIO()):
        run(sub)

    def key(c):
        if not isinstance(c, dict):
            return None
        for k in ('image', 'enc', 'syn', 'bytes', 'assembled', 'history', 'twins'):
            if k in c and isinstance(c[k], dict):
                return (k, c[k].get('idx'), c[k].get('colour'), c.get('path', '').split('/')[0])
        if 'fixture' in c:
            return ('fixture', c['fixture'], c.get('lazy'))
        return None
    want = key(case)
    hits = [f for f in sub.failures if key(f['case']) == want] if want else sub.failures
    return hits[:3] or None
