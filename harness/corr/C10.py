"""C10  Coordinate transforms are mutually consistent and invertible.

Tie T: T13o (literal tables / decision tables of spatial.py), T13e (enum members), T13w (argument writes), TC10f (forwarding,
formulas), TC10g (call specs, for_image forwarding, _get_spatial_information lookups, iter_tiled_full_frame_data loops).
Tie C: Model/Affine.lean, Model/AffineCalls.lean, Model/AffineImage.lean against create_rotation_matrix, create_affine_matrix_from_attributes,
_create_inv_affine_matrix_from_attributes, create_affine_matrix_from_components, the six transformer
classes, the two point helpers, rotation_for_patient_orientation, get_closest_patient_orientation,
_transform_affine_to_convention / Volume.get_affine, compute_tile_positions_per_frame.
Oracle (independent of the model, a few lines of numpy on the real outputs): round trips are the
identity, half-pixel shift, pixel-to-pixel = via the frame of reference, helpers = transformers,
non-coplanar refused, columns orthogonal with the given lengths and handedness, origin / centre mapped to
the given position, letters <-> matrix for all 48, transformers for an image / frame / total pixel matrix
agree with explicit attributes and with each other.
"""
from __future__ import annotations

import itertools
from fractions import Fraction as Fr

import numpy as np

PROP = 'C10'
TARGETS = ['T13o', 'T13e', 'T13w', 'TC10f', 'TC10g', 'TC10s']
LEAN_MODULES = ['HdVerif.Props.C10']
MODEL_MODULES = ['HdVerif.Model.Affine', 'HdVerif.Model.AffineCalls', 'HdVerif.Model.AffineImage']
NAMESPACE = 'HdVerif.C10'
DRIVER = 'Drivers/C10.lean'
RULE = ('one case = one call of a constructor / transformer / helper / for_image on a generated plane or dataset (position dyadic, '
        'orientation one of the 24 axis-aligned cosine pairs or an oblique rational rotation, dyadic positive spacings) with generated '
        'points or arrays; non-trivial = accepted by the implementation with a non-identity geometry; distinct by (function, convention, '
        'handedness, slices_first, spacing form, orientation class, point class, array shape kind / layout, image kind, history step)')
ASSUMPTIONS = [
    'float arithmetic inside numpy agrees with rational arithmetic: exactly for forward maps on dyadic inputs with '
    'axis-aligned orientations, within 2^-40 (relative to the magnitude of the inputs) otherwise (inverse, oblique)',
    'np.linalg.inv is the mathematical inverse (adjugate / determinant in the model), singular matrices are refused',
    'np.argsort on a 3-element column is stable (insertion sort), used by get_closest_patient_orientation for ties',
    'decision boundaries (coplanarity 1e-5, orthogonality 1e-5, rounding .5) are probed at margin >= 4x only, except exact dyadic .5 ties for '
    'round-half-even and the half-slice limit, which is also probed EXACTLY (axis-aligned planes with power-of-two spacings)',
    'rounded outputs of batches are compared with the model only when no un-rounded entry lies within 1e-3 of a tie',
    'np.meshgrid(range(nc), range(nr), indexing="xy") stacked and reshaped enumerates tiles row by row with the column running fastest',
    '__call__ on a numpy array: the model sees ndim, shape[1], dtype kind and the rows; a list / tuple is the argument `sequence` (refused, AttributeError)',
    'the record of Model/AffineImage.lean is filled from the pydicom dataset by the harness (_describe) with RAW attributes; is_multiframe_image is an input',
    'every item of PerFrameFunctionalGroupsSequence holds the same set of functional groups (DICOM PS3.3 C.7.6.16.1.2): get_image_coordinate_system '
    'reads the first item only; the excluded images (position group missing in the first / in a later frame only) are run in the coordinate_system '
    'stream on every run: no transformer resp. refusal of exactly the frames without position',
    'SegmentSequence / OpticalPathSequence are present as the IOD requires (their absence is an AttributeError outside the model)',
]
MODELLED_NOT_VERIFIED = ['numpy matmul / column_stack / vstack / broadcasting / linalg.inv / argsort / around / meshgrid',
                         'pydicom Dataset attribute access, DS -> float conversion',
                         'Volume accessors using sqrt (spacing, direction, pixel_spacing): oracle only',
                         '_transform_affine_matrix with index flips / permutations, _translate_affine_matrix: property C08']

TOL = Fr(1, 2 ** 40)
CONVS_ALL = ['RD', 'DR', 'LD', 'DL', 'RU', 'UR', 'LU', 'UL']
HANDS = ['RIGHT_HANDED', 'LEFT_HANDED']
E = [np.array(v, dtype=float) for v in ((1, 0, 0), (0, 1, 0), (0, 0, 1))]


# ------------------------------------------------------------------ small helpers
def _err_kind(e):
    return {'IndexError': 'index', 'ValueError': 'value', 'TypeError': 'type', 'RuntimeError': 'runtime',
            'KeyError': 'key', 'AttributeError': 'attribute'}.get(type(e).__name__, 'other')


def _call(fn, *a, **k):
    try:
        return ('ok', fn(*a, **k))
    except Exception as e:  # noqa: BLE001
        return ('err', _err_kind(e))


_CTX = [None]


def _snap(x):
    """deep snapshot of an argument (arrays: values, dtype, shape, strides of the base view do not matter)"""
    if isinstance(x, np.ndarray):
        return ('nd', x.dtype.str, x.shape, x.copy())
    if isinstance(x, (list, tuple)):
        return ('seq', type(x).__name__, [_snap(v) for v in x])
    if isinstance(x, dict):
        return ('dict', {k: _snap(v) for k, v in x.items()})
    return ('val', x if isinstance(x, (int, float, str, bool, type(None))) else id(x))


def _same(a, b):
    if a[0] != b[0]:
        return False
    if a[0] == 'nd':
        return a[1] == b[1] and a[2] == b[2] and np.array_equal(a[3], b[3], equal_nan=True)
    if a[0] == 'seq':
        return a[1] == b[1] and len(a[2]) == len(b[2]) and all(_same(x, y) for x, y in zip(a[2], b[2]))
    if a[0] == 'dict':
        return a[1].keys() == b[1].keys() and all(_same(a[1][k], b[1][k]) for k in a[1])
    return a[1] == b[1]


def _result_key(v):
    if isinstance(v, np.ndarray):
        return ('nd', v.shape, v.tobytes())
    if hasattr(v, 'affine') and isinstance(getattr(v, 'affine'), np.ndarray):
        return ('tr', type(v).__name__, v.affine.tobytes())
    if isinstance(v, (list, tuple)):
        return ('seq', [_result_key(x) for x in v])
    return ('val', repr(v))


def _pcall(fn, *a, **k):
    """`_call` + purity: the function is called TWICE with the same argument objects; no argument may be changed by either call
    and both calls must give the same result (no writes into caller-owned arrays, no hidden state)."""
    ctx = _CTX[0]
    before = _snap([list(a), k])
    st1, v1 = _call(fn, *a, **k)
    mid = _snap([list(a), k])
    st2, v2 = _call(fn, *a, **k)
    after = _snap([list(a), k])
    if ctx is not None:
        name = getattr(fn, '__qualname__', getattr(fn, '__name__', type(fn).__name__))
        if not _same(before, mid) or not _same(before, after):
            changed = [kk for kk in k if not _same(_snap(k[kk]), before[2][1][1][kk])] + \
                      [i for i in range(len(a)) if not _same(_snap(a[i]), before[2][0][2][i])]
            ctx.fail({'fn': name, 'what': 'arguments', 'changed': changed, 'before': repr(before[2])[:600], 'after': repr(after[2])[:600]},
                     'an argument object was modified by the call', site='purity')
        elif st1 != st2 or (st1 == 'ok' and _result_key(v1) != _result_key(v2)) or (st1 != 'ok' and v1 != v2):
            ctx.fail({'fn': name, 'what': 'repeat', 'args': repr(before[2])[:600]}, 'a second identical call gives a different result', site='purity')
    return st1, v1


def _present(r, x, dtypes=True):
    """the same numbers as list, tuple, float64 array (C order), a strided / Fortran-ordered float64 VIEW of a larger array, or -
    when the values survive it exactly - float32 / integer arrays"""
    arr = np.array(x, dtype=np.float64)
    k = r.randrange(7)
    if k == 0:
        return arr.tolist()
    if k == 1:
        return tuple(arr.tolist()) if arr.ndim == 1 else tuple(tuple(v) for v in arr.tolist())
    if k == 2:
        return arr.copy()
    if k == 3:
        if arr.ndim == 1:
            big = np.zeros(2 * arr.shape[0] + 1)
            big[1::2] = arr
            return big[1::2]
        return np.asfortranarray(arr)
    if k == 4:
        big = np.full((arr.shape[0] + 2,) + arr.shape[1:], 7.0)
        big[1:-1] = arr
        return big[1:-1]
    if k == 5 and dtypes and np.array_equal(arr.astype(np.float32).astype(np.float64), arr):
        return arr.astype(np.float32)
    if k == 6 and dtypes and np.array_equal(np.round(arr), arr):
        return arr.astype(np.int64)
    return arr.copy()


def R(x):
    """exact rational text of a float / int for the Lean driver"""
    f = Fr(x)
    return str(f.numerator) if f.denominator == 1 else f'{f.numerator}/{f.denominator}'


def RL(xs):
    return [R(float(x)) for x in xs]


def _fr(s):
    return Fr(s) if not isinstance(s, str) else (Fr(int(s.split('/')[0]), int(s.split('/')[1])) if '/' in s else Fr(int(s)))


def _cmp(impl, model, tol):
    """structural comparison: floats against rational strings with absolute tolerance `tol`."""
    if model is None or impl is None:
        return model is None and impl is None
    if isinstance(model, dict):
        return isinstance(impl, dict) and set(impl) == set(model) and all(_cmp(impl[k], model[k], tol) for k in model)
    if isinstance(model, list):
        if isinstance(impl, np.ndarray):
            impl = impl.tolist()
        return isinstance(impl, (list, tuple)) and len(impl) == len(model) and all(_cmp(a, b, tol) for a, b in zip(impl, model))
    if isinstance(model, bool) or isinstance(impl, (bool, np.bool_)):
        return bool(impl) == bool(model)
    if isinstance(model, str) and isinstance(impl, str):
        return impl == model
    if isinstance(model, (str, int)):
        try:
            m = _fr(model)
        except Exception:  # noqa: BLE001
            return False
        if isinstance(impl, (int, np.integer)):
            return Fr(int(impl)) == m
        if isinstance(impl, (float, np.floating)):
            if not np.isfinite(impl):
                return False
            return abs(Fr(float(impl)) - m) <= tol
    return False


def _dy(r, lo, hi, den=8):
    """dyadic rational k/den in [lo, hi]"""
    return r.randint(int(lo * den), int(hi * den)) / den


def _axis_pairs():
    out = []
    for i in range(3):
        for j in range(3):
            if i != j:
                for si in (1, -1):
                    for sj in (1, -1):
                        out.append((si * E[i], sj * E[j]))
    return out


AXIS_PAIRS = _axis_pairs()
PYTH = [(3, 4, 5), (5, 12, 13), (8, 15, 17), (4, 3, 5), (12, 5, 13)]


def _rot(axis, a, b, h):
    c, s = a / h, b / h
    m = np.eye(3)
    i, j = [(1, 2), (2, 0), (0, 1)][axis]
    m[i, i] = c
    m[j, j] = c
    m[i, j] = -s
    m[j, i] = s
    return m


def _orientation(r):
    """(row cosines, column cosines, class)"""
    row, col = AXIS_PAIRS[r.randrange(24)]
    if r.random() < 0.55:
        return row.copy(), col.copy(), 'axis'
    m = np.eye(3)
    for _ in range(r.choice([1, 1, 2])):
        a, b, h = r.choice(PYTH)
        m = _rot(r.randrange(3), a, b, h) @ m
    return m @ row, m @ col, 'oblique'


def _spacing(r):
    return r.choice([0.125, 0.25, 0.5, 0.5, 1.0, 1.0, 2.0, 0.375, 0.625, 1.5, 2.75, 3.0, 0.7, 1.3])


def _plane(r):
    row, col, cls = _orientation(r)
    pos = [_dy(r, -300, 300) for _ in range(3)]
    ps = [_spacing(r), _spacing(r)]
    if r.random() < 0.25:
        ps[1] = ps[0]
    return {'pos': pos, 'ori': [float(x) for x in row] + [float(x) for x in col], 'ps': ps, 'cls': cls}


def _exact(pl, *spacings):
    """forward arithmetic is exact for axis-aligned planes with dyadic spacings"""
    return pl['cls'] == 'axis' and all(Fr(s).denominator <= 1024 for s in list(pl['ps']) + list(spacings))


def _scale(pl, pts=()):
    m = max([abs(x) for x in pl['pos']] + [1.0] + [abs(float(x)) for p in pts for x in p])
    return Fr(m) * 64


def _spell(r, conv, hand):
    """every accepted spelling of the enum-valued options: short string, tuple of letters, tuple of enum members, mixed;
    handedness as string or enum member (invalid values are passed through unchanged)"""
    from highdicom.enum import AxisHandedness, PixelIndexDirections
    c = conv
    try:
        k = r.randrange(4)
        if k == 1:
            c = tuple(conv)
        elif k == 2:
            c = tuple(PixelIndexDirections(x) for x in conv)
        elif k == 3:
            c = [PixelIndexDirections(conv[0]), conv[1]] if len(conv) == 2 else tuple(conv)
    except ValueError:
        c = conv
    h = hand
    try:
        if r.random() < 0.5:
            h = AxisHandedness(hand)
    except ValueError:
        h = hand
    return c, h


# ------------------------------------------------------------------ 1. affine construction
def _affine_cases(ctx, reqs, pend):
    from highdicom import spatial as sp
    n = ctx.n(800, 5000)
    combos = list(itertools.product(CONVS_ALL, HANDS, (False, True), ('seq', 'scalar')))
    for i in range(n):
        r = ctx.rng('affine', i)
        pl = _plane(r)
        conv, hand, sf, form = combos[i % len(combos)] if i < 2 * len(combos) else r.choice(combos)
        sbs = _spacing(r)
        ps = pl['ps'] if form == 'seq' else pl['ps'][0]
        bad = None
        if r.random() < 0.15:
            bad = r.choice(['conv', 'hand', 'ps0', 'psneg', 'orilen', 'pslen'])
            if bad == 'conv':
                conv = r.choice(['RL', 'UD', 'XY', 'R', 'RDL', 'RR'])
            elif bad == 'hand':
                hand = 'UP_HANDED'
            elif bad == 'ps0':
                ps = [0.0, 1.0] if form == 'seq' else 0.0
            elif bad == 'psneg':
                ps = [1.0, -0.5] if form == 'seq' else -1.0
            elif bad == 'orilen':
                pl['ori'] = pl['ori'][:5]
            elif bad == 'pslen':
                ps = [1.0, 1.0, 1.0]
        conv_arg, hand_arg = _spell(r, conv, hand)
        # --- create_rotation_matrix
        st, val = _pcall(sp.create_rotation_matrix, _present(r, pl['ori']) if len(pl['ori']) == 6 else pl['ori'],
                         index_convention=conv_arg, slices_first=sf, handedness=hand_arg,
                         pixel_spacing=_present(r, ps) if isinstance(ps, list) and bad is None else ps, spacing_between_slices=sbs)
        case = {'fn': 'create_rotation_matrix', 'plane': pl, 'conv': conv, 'hand': hand, 'slices_first': sf, 'ps': ps,
                'sbs': sbs, 'bad': bad}
        key = None
        if st == 'ok' and bad is None:
            key = ('rot', conv, hand, sf, form, pl['cls'])
            _oracle_rotation(ctx, case, val, pl, conv, hand, sf, ps, sbs)
        elif bad is None:
            ctx.fail(case, f'valid input refused: {val}', site='create_rotation_matrix')
        elif st == 'ok':
            ctx.fail(case, 'invalid input accepted', site='create_rotation_matrix')
        ctx.case(sample=case if i % 53 == 0 else None, nontrivial_key=key, fn='create_rotation_matrix', conv=conv,
                 hand=hand, slices_first=sf, spacing_form=form, ori=pl['cls'], outcome=st if st == 'ok' else val, bad=bad)
        reqs.append(('createRotation', {'ori': RL(pl['ori']), 'conv': conv, 'slices_first': sf, 'handedness': hand,
                                        'ps': RL(ps) if isinstance(ps, list) else R(ps), 'sbs': R(sbs)}))
        tol = 0 if _exact(pl, sbs) else TOL * 8
        pend.append((case, (st, val), tol))
        # --- create_affine_matrix_from_attributes (L/U are refused there; scalar spacing is a TypeError)
        st, val = _pcall(sp.create_affine_matrix_from_attributes, _present(r, pl['pos']) if bad is None else pl['pos'],
                         _present(r, pl['ori']) if bad is None else pl['ori'],
                         _present(r, ps) if isinstance(ps, list) and bad is None else ps, sbs, index_convention=conv_arg,
                         slices_first=sf, handedness=hand_arg)
        case = dict(case, fn='create_affine_matrix_from_attributes')
        key = None
        if st == 'ok':
            key = ('aff', conv, hand, sf, pl['cls'])
            if bad is None:
                _oracle_rotation(ctx, case, val[:3, :3], pl, conv, hand, sf, ps, sbs)
                if not np.array_equal(val[:3, 3], np.array(pl['pos'])) or not np.array_equal(val[3], [0, 0, 0, 1]):
                    ctx.fail(case, 'index zero is not mapped to the image position', site='create_affine_matrix_from_attributes')
            else:
                ctx.fail(case, 'invalid input accepted', site='create_affine_matrix_from_attributes')
        elif bad is None and form == 'seq' and conv in ('RD', 'DR'):
            ctx.fail(case, f'valid input refused: {val}', site='create_affine_matrix_from_attributes')
        ctx.case(nontrivial_key=key, fn='create_affine_matrix_from_attributes', outcome=st if st == 'ok' else val)
        reqs.append(('affineFromAttributes', {'pos': RL(pl['pos']), 'ori': RL(pl['ori']), 'conv': conv, 'slices_first': sf,
                                              'handedness': hand, 'ps': RL(ps) if isinstance(ps, list) else R(ps),
                                              'sbs': R(sbs)}))
        pend.append((case, (st, {'m': val[:3, :3], 't': val[:3, 3]} if st == 'ok' else val), tol))


def _oracle_rotation(ctx, case, m, pl, conv, hand, sf, ps, sbs):
    """columns orthogonal, lengths = the given spacings by convention, requested handedness, directions."""
    m = np.asarray(m, dtype=float)
    sr, sc = (ps, ps) if not isinstance(ps, list) else ps
    row, col = np.array(pl['ori'][:3]), np.array(pl['ori'][3:])
    want = []
    for d in conv:
        v, s = {'R': (row, sc), 'L': (-row, sc), 'D': (col, sr), 'U': (-col, sr)}[d]
        want.append((v, s))
    cols = [m[:, k] for k in range(3)]
    inplane = cols[1:] if sf else cols[:2]
    nrm = cols[0] if sf else cols[2]
    eps = 1e-9
    site = case['fn']
    for (v, s), c in zip(want, inplane):
        if np.abs(c - v * s).max() > eps:
            ctx.fail(case, {'what': 'in-plane column is not spacing * signed cosine', 'got': c.tolist(), 'want': (v * s).tolist()}, site=site)
            return
    g = m.T @ m
    if np.abs(g - np.diag(np.diag(g))).max() > eps:
        ctx.fail(case, 'columns are not orthogonal', site=site)
    if abs(np.linalg.norm(nrm) - sbs) > eps:
        ctx.fail(case, {'what': 'slice axis length is not spacing_between_slices', 'got': float(np.linalg.norm(nrm))}, site=site)
    det = np.linalg.det(m)
    if (det > 0) != (hand == 'RIGHT_HANDED'):
        ctx.fail(case, {'what': 'handedness not as requested', 'det': float(det)}, site=site)


# ------------------------------------------------------------------ 2. transformers
def _pts_int(r, k):
    out = []
    for _ in range(k):
        if r.random() < 0.2:
            out.append([r.choice([0, 1, -1]), r.choice([0, 1, -1])])
        else:
            out.append([r.randint(-20, 600), r.randint(-20, 600)])
    return out


def _transformer_cases(ctx, reqs, pend):
    from highdicom import spatial as sp
    n = ctx.n(500, 4000)
    for i in range(n):
        r = ctx.rng('transf', i)
        pl = _plane(r)
        sbs = _spacing(r)
        bad = None
        if r.random() < 0.1:
            bad = r.choice(['poslen', 'orilen', 'singular', 'pslen'])
            if bad == 'poslen':
                pl['pos'] = pl['pos'][:2]
            elif bad == 'orilen':
                pl['ori'] = pl['ori'] + [0.0]
            elif bad == 'singular':
                pl['ori'] = pl['ori'][:3] + pl['ori'][:3]
            elif bad == 'pslen':
                pl['ps'] = pl['ps'] + [1.0]
        args = dict(image_position=pl['pos'], image_orientation=pl['ori'], pixel_spacing=pl['ps'])
        if bad is None:
            args = {kk: _present(r, vv) for kk, vv in args.items()}
        margs = {'pos': RL(pl['pos']), 'ori': RL(pl['ori']), 'ps': RL(pl['ps'])}
        idx = _pts_int(r, 3)
        exact = bad is None and _exact(pl)
        sc = _scale(pl, idx) if bad is None else Fr(1)
        tol_f = 0 if exact else TOL * sc
        tol_i = TOL * sc * 64
        s_p2r, p2r = _pcall(sp.PixelToReferenceTransformer, **args)
        s_r2p, r2p = _pcall(sp.ReferenceToPixelTransformer, spacing_between_slices=sbs, round_output=False, **args)
        s_i2r, i2r = _pcall(sp.ImageToReferenceTransformer, **args)
        s_r2i, r2i = _pcall(sp.ReferenceToImageTransformer, spacing_between_slices=sbs, **args)
        base = {'plane': pl, 'sbs': sbs, 'bad': bad}
        okall = all(s == 'ok' for s in (s_p2r, s_r2p, s_i2r, s_r2i))
        if bad is None and not okall:
            ctx.fail(dict(base, fn='constructors'), f'valid plane refused: {[p2r, r2p, i2r, r2i]}', site='transformer.__init__')
        if bad is not None and bad != 'singular' and okall:
            ctx.fail(dict(base, fn='constructors'), 'malformed plane accepted', site='transformer.__init__')
        ctx.case(sample=base if i % 41 == 0 else None, fn='transformers', ori=pl['cls'], bad=bad,
                 outcome='ok' if okall else 'refused',
                 nontrivial_key=('tr', pl['cls'], pl['ps'][0] == pl['ps'][1], i % 7) if okall and bad is None else None)
        # model: constructors ok-vs-error
        reqs.append(('pixToRef', dict(margs, c=0, r=0)))
        pend.append((dict(base, fn='PixelToReferenceTransformer(0,0)'),
                     (s_p2r, p2r(np.array([[0, 0]]))[0] if s_p2r == 'ok' else p2r), tol_f))
        reqs.append(('invAffine', dict(margs, sbs=R(sbs))))
        pend.append((dict(base, fn='ReferenceToPixelTransformer.affine'),
                     (s_r2p, {'m': r2p.affine[:3, :3], 't': r2p.affine[:3, 3]} if s_r2p == 'ok' else r2p), tol_i))
        if not okall:
            continue
        # batches of every size incl. 0: an empty batch gives an empty result of the right width, a batch = its points one by one
        empties = [(p2r, np.zeros((0, 2), dtype=int), 3), (r2p, np.zeros((0, 3)), 3), (i2r, np.zeros((0, 2)), 3), (r2i, np.zeros((0, 3)), 3),
                   (sp.ReferenceToPixelTransformer(spacing_between_slices=sbs, round_output=False, drop_slice_index=True, **args), np.zeros((0, 3)), 2),
                   (sp.ReferenceToPixelTransformer(spacing_between_slices=sbs, round_output=True, drop_slice_index=True, **args), np.zeros((0, 3)), 2),
                   (sp.ReferenceToImageTransformer(spacing_between_slices=sbs, drop_slice_coord=True, **args), np.zeros((0, 3)), 2)]
        for tr0, e0, w0 in empties:
            st0, out0 = _call(tr0, e0)
            if st0 != 'ok' or out0.shape != (0, w0):
                ctx.fail(dict(base, fn=type(tr0).__name__ + ' on an empty batch'), f'{st0}: {out0 if st0 != "ok" else out0.shape}', site='batch')
        big = np.array(_pts_int(r, r.choice([1, 2, 5, 9])), dtype=int)
        one_by_one = np.vstack([p2r(big[k:k + 1]) for k in range(len(big))])
        if np.abs(p2r(big) - one_by_one).max() > 1e-9 * (1 + np.abs(one_by_one).max()):
            ctx.fail(dict(base, fn='batch = points one by one', n=len(big)), 'differs', site='batch')
        ia = np.array(idx, dtype=int)
        ref = p2r(ia)
        # round trip pixel -> reference -> pixel
        back = r2p(ref)
        lim = float(tol_i) if tol_i else 0.0
        if np.abs(back[:, :2] - ia).max() > max(lim, 1e-9) or np.abs(back[:, 2]).max() > max(lim, 1e-9):
            ctx.fail(dict(base, fn='ref_to_pixel(pixel_to_ref(i))', idx=idx), {'got': back.tolist()}, site='roundtrip')
        # sub-pixel reference points, generated IN the volume around the plane: reference -> pixel -> reference (3-D affine)
        sub = np.array([[_dy(r, -10, 300, 16), _dy(r, -10, 300, 16), _dy(r, -3, 3, 16)] for _ in range(3)])
        fwd3 = sp.create_affine_matrix_from_attributes(pl['pos'], pl['ori'], pl['ps'], sbs)
        refs = (fwd3 @ np.vstack([sub.T, np.ones(3)]))[:3].T
        got = r2p(refs)
        if np.abs(got - sub).max() > max(lim, 1e-9):
            ctx.fail(dict(base, fn='ref_to_pixel(affine(p))', pts=sub.tolist()), {'got': got.tolist()}, site='roundtrip')
        again = (fwd3 @ np.vstack([got.T, np.ones(3)]))[:3].T
        if np.abs(again - refs).max() > max(lim, 1e-9) * 8:
            ctx.fail(dict(base, fn='affine(ref_to_pixel(x))', pts=refs.tolist()), {'got': again.tolist()}, site='roundtrip')
        # half pixel: image coordinates = pixel indices + 0.5
        ic = ia.astype(float) + 0.5
        if np.abs(i2r(ic) - ref).max() > max(float(tol_f), 1e-9):
            ctx.fail(dict(base, fn='image_to_ref(i + .5) = pixel_to_ref(i)', idx=idx), {'got': i2r(ic).tolist(), 'want': ref.tolist()}, site='half_pixel')
        ri = r2i(refs)
        if np.abs(ri - (got + np.array([0.5, 0.5, 0.0]))).max() > max(lim, 1e-9):
            ctx.fail(dict(base, fn='ref_to_image = ref_to_pixel + .5', pts=refs.tolist()), {'got': ri.tolist()}, site='half_pixel')
        # image round trips with sub-pixel image coordinates
        icf = np.array([[_dy(r, -5, 200, 16), _dy(r, -5, 200, 16)] for _ in range(3)])
        rt = r2i(i2r(icf))
        if np.abs(rt[:, :2] - icf).max() > max(lim, 1e-9) or np.abs(rt[:, 2]).max() > max(lim, 1e-9):
            ctx.fail(dict(base, fn='ref_to_image(image_to_ref(x))', pts=icf.tolist()), {'got': rt.tolist()}, site='roundtrip')
        # helpers agree with the batch transformers
        for k in range(len(idx)):
            h = sp.map_pixel_into_coordinate_system(idx[k], pl['pos'], pl['ori'], pl['ps'])
            if np.abs(np.array(h) - ref[k]).max() > 1e-9 * (1 + np.abs(ref[k]).max()):
                ctx.fail(dict(base, fn='map_pixel_into_coordinate_system', idx=idx[k]), {'got': h, 'want': ref[k].tolist()}, site='helper')
        r2p_round = sp.ReferenceToPixelTransformer(spacing_between_slices=sbs, round_output=True, **args)
        rr = r2p_round(refs)
        for k in range(3):
            h = sp.map_coordinate_into_pixel_matrix(refs[k].tolist(), pl['pos'], pl['ori'], pl['ps'], sbs)
            if all(abs((abs(float(x)) % 1.0) - 0.5) > 1e-3 for x in got[k]) and tuple(h) != tuple(int(x) for x in rr[k]):
                ctx.fail(dict(base, fn='map_coordinate_into_pixel_matrix', pt=refs[k].tolist()), {'got': h, 'want': rr[k].tolist()}, site='helper')
        # ---- model comparisons on the same points
        for k in range(len(idx)):
            reqs.append(('pixToRef', dict(margs, c=idx[k][0], r=idx[k][1])))
            pend.append((dict(base, fn='PixelToReferenceTransformer', idx=idx[k]), ('ok', ref[k]), tol_f))
            reqs.append(('imgToRef', dict(margs, x=R(ic[k][0]), y=R(ic[k][1]))))
            pend.append((dict(base, fn='ImageToReferenceTransformer', pt=ic[k].tolist()), ('ok', i2r(ic[k:k + 1])[0]), tol_f))
        for k in range(3):
            v = refs[k]
            reqs.append(('refToImg', dict(margs, sbs=R(sbs), v=RL(v))))
            pend.append((dict(base, fn='ReferenceToImageTransformer', pt=v.tolist()), ('ok', ri[k]), tol_i))
            # rounding and the half-slice test are compared only at a safe distance from their boundaries
            raw = got[k]
            safe_round = all(abs((abs(float(x)) % 1.0) - 0.5) > 1e-3 for x in raw)
            safe_drop = abs(abs(float(raw[2])) - 0.5) > 1e-3
            st_d, val_d = _call(sp.ReferenceToPixelTransformer(spacing_between_slices=sbs, round_output=False,
                                                               drop_slice_index=True, **args), v[None, :])
            impl = {'raw': raw}
            if safe_round:
                impl['rounded'] = [int(x) for x in rr[k]]
            if safe_drop:
                impl['drop'] = val_d[0] if st_d == 'ok' else val_d
            reqs.append(('refToPix', dict(margs, sbs=R(sbs), v=RL(v))))
            pend.append((dict(base, fn='ReferenceToPixelTransformer', pt=v.tolist(), partial=True), ('ok', impl), tol_i))
            # the drop oracle: refused iff farther than half a slice
            if safe_drop and (st_d == 'ok') != (abs(float(sub[k][2])) < 0.5):
                ctx.fail(dict(base, fn='drop_slice_index', pt=v.tolist(), slice=float(sub[k][2])), f'{st_d} {val_d}', site='drop_slice_index')
    # exact .5 ties of np.around / round (round half to even) against the model's rounding
    for x in [k / 2 for k in range(-9, 10)] + [0.25, -0.75, 2.5000001, -2.4999999]:
        reqs.append(('roundHalfEven', {'x': R(x)}))
        pend.append(({'fn': 'np.around', 'x': x}, ('ok', int(np.around(x))), 0))
        if int(np.around(x)) != round(x):
            ctx.fail({'fn': 'round', 'x': x}, 'np.around and round differ', site='round')


# ------------------------------------------------------------------ 2b. __call__ on arrays of every shape, dtype and memory layout
def _layout(r, arr):
    """the same array in another memory layout: C / Fortran order, a strided view, a negative-stride view, read-only"""
    k = r.randrange(5)
    if k == 1:
        return np.asfortranarray(arr), 'fortran'
    if k == 2 and arr.ndim == 2:
        big = np.zeros((arr.shape[0], 2 * arr.shape[1]), dtype=arr.dtype)
        big[:, ::2] = arr
        return big[:, ::2], 'strided'
    if k == 3 and arr.ndim >= 1:
        return arr[::-1].copy()[::-1], 'negative_stride'
    if k == 4:
        a = arr.copy()
        a.flags.writeable = False
        return a, 'read_only'
    return arr, 'c'


def _near_tie(tr, kw, cls, rows):
    """is an un-rounded output of the rounding transformer within 1e-3 of a tie?"""
    from highdicom import spatial as sp
    raw = (sp.ReferenceToPixelTransformer(**dict(kw, round_output=False)) if cls == 'r2p'
           else sp.PixelToPixelTransformer(**dict(kw, round_output=False)))(rows)
    return bool(np.any(np.abs(np.abs(raw % 1.0) - 0.5) < 1e-3))


def _batch_cases(ctx, reqs, pend):
    """every `__call__` on arrays: (n, k) with n = 0, 1, 2, 5, 9 in every memory layout, and the malformed ones (wrong k, 0-d, 1-d,
    3-d, non-integer dtype where integers are demanded); flags round_output / drop_slice_index / drop_slice_coord in every
    combination; points ON, slightly inside and slightly outside the half-slice limit.  Oracle: a batch is its points one by one,
    n rows in = n rows out, refusal exactly for the malformed shapes and - under the drop flag - exactly when one point lies more
    than half a slice off the plane (from the construction).  Model: the interpreter of the regenerated call specs (TC10g)."""
    from highdicom import spatial as sp
    n = ctx.n(600, 2500)
    classes = ['p2r', 'r2p', 'p2p', 'i2r', 'r2i', 'i2i']
    for i in range(n):
        r = ctx.rng('batch', i)
        cls = classes[i % 6]
        pl = _plane(r)
        sbs = _spacing(r)
        boundary = cls in ('r2p', 'r2i') and r.random() < 0.3
        if boundary:
            # the half-slice limit EXACTLY: an axis-aligned plane with power-of-two spacings and dyadic position, for which the
            # inverse affine and its products are exact in floating point; |slice coordinate| = 0.5 is still inside
            a_row, a_col = AXIS_PAIRS[r.randrange(24)]
            pl = {'pos': [_dy(r, -300, 300) for _ in range(3)], 'ori': [float(x) for x in a_row] + [float(x) for x in a_col],
                  'ps': [r.choice([0.25, 0.5, 1.0, 2.0]), r.choice([0.25, 0.5, 1.0, 2.0])], 'cls': 'axis'}
            sbs = r.choice([0.5, 1.0, 2.0, 4.0])
        row, col = np.array(pl['ori'][:3]), np.array(pl['ori'][3:])
        rnd_f, drop_f = r.random() < 0.5, r.random() < 0.5
        k = 3 if cls in ('r2p', 'r2i') else 2
        int_only = cls in ('p2r', 'p2p')
        margs = {'cls': cls, 'round': rnd_f, 'drop': drop_f}
        if cls in ('p2p', 'i2i'):
            du, dv = _dy(r, -40, 40), _dy(r, -40, 40)
            b = {'pos': [float(x) for x in np.array(pl['pos']) + du * row + dv * col],
                 'ori': [float(x) for x in col] + [float(x) for x in -row] if r.random() < 0.5 else list(pl['ori']), 'ps': [_spacing(r), _spacing(r)]}
            kw = dict(image_position_from=pl['pos'], image_orientation_from=pl['ori'], pixel_spacing_from=pl['ps'],
                      image_position_to=b['pos'], image_orientation_to=b['ori'], pixel_spacing_to=b['ps'])
            if cls == 'p2p':
                kw['round_output'] = rnd_f
            tr = (sp.PixelToPixelTransformer if cls == 'p2p' else sp.ImageToImageTransformer)(**kw)
            margs.update(pos_f=RL(pl['pos']), ori_f=RL(pl['ori']), ps_f=RL(pl['ps']), pos_t=RL(b['pos']), ori_t=RL(b['ori']), ps_t=RL(b['ps']))
        else:
            kw = dict(image_position=pl['pos'], image_orientation=pl['ori'], pixel_spacing=pl['ps'])
            if cls == 'r2p':
                kw.update(spacing_between_slices=sbs, round_output=rnd_f, drop_slice_index=drop_f)
            elif cls == 'r2i':
                kw.update(spacing_between_slices=sbs, drop_slice_coord=drop_f)
            tr = {'p2r': sp.PixelToReferenceTransformer, 'r2p': sp.ReferenceToPixelTransformer, 'i2r': sp.ImageToReferenceTransformer,
                  'r2i': sp.ReferenceToImageTransformer}[cls](**kw)
            margs.update(pos=RL(pl['pos']), ori=RL(pl['ori']), ps=RL(pl['ps']), sbs=R(sbs))
        shape_kind = r.choice(['good', 'good', 'good', 'empty', 'one', 'wrong_width', 'wrong_width_empty', 'scalar', 'one_dim', 'three_dim',
                               'three_dim_wrong', 'float_dtype', 'bool_dtype', 'uint8'])
        nrows = {'empty': 0, 'wrong_width_empty': 0, 'one': 1}.get(shape_kind, r.choice([1, 2, 5, 9]))
        zs = []
        if k == 2:
            if int_only or shape_kind in ('uint8', 'bool_dtype'):
                arr = np.array(_pts_int(r, nrows), dtype=np.int64).reshape(nrows, 2)
                if shape_kind == 'uint8':
                    arr = np.abs(arr).astype(np.uint8)
                elif shape_kind == 'bool_dtype':
                    arr = (arr % 2).astype(bool)
                elif shape_kind == 'float_dtype':
                    arr = arr.astype(float)
                elif r.random() < 0.3:
                    arr = arr.astype(r.choice([np.int32, np.int16, np.uint16]))
            else:
                arr = np.array([[_dy(r, -5, 200, 16), _dy(r, -5, 200, 16)] for _ in range(nrows)], dtype=float).reshape(nrows, 2)
        else:
            # reference points built from index-space points whose slice coordinate is chosen around the half-slice limit
            zs = [r.choice([0.0, 0.0, 0.25, -0.25, 0.49, -0.49, 0.51, -0.51, 0.75, 2.0, -3.0]) if r.random() < 0.45 else 0.0 for _ in range(nrows)]
            if boundary:
                zs = [r.choice([0.5, -0.5, 0.5, -0.5, 0.0, 0.25]) for _ in range(nrows)]
            sub = np.array([[_dy(r, -10, 300, 16), _dy(r, -10, 300, 16), z] for z in zs], dtype=float).reshape(nrows, 3)
            fwd3 = sp.create_affine_matrix_from_attributes(pl['pos'], pl['ori'], pl['ps'], sbs)
            arr = (fwd3 @ np.vstack([sub.T, np.ones(nrows)]))[:3].T if nrows else np.zeros((0, 3))
            if shape_kind == 'uint8':
                arr = np.abs(np.round(arr)).astype(np.uint8)
                zs = None
            elif shape_kind == 'bool_dtype':
                arr = (np.round(arr) % 2).astype(bool)
                zs = None
        if shape_kind in ('wrong_width', 'wrong_width_empty'):
            w = r.choice([kk for kk in (1, 2, 3, 4) if kk != k])
            arr = np.zeros((nrows, w), dtype=arr.dtype)
        elif shape_kind == 'scalar':
            arr = np.array(3, dtype=arr.dtype)
        elif shape_kind == 'one_dim':
            arr = np.zeros((k,), dtype=arr.dtype)
        elif shape_kind == 'three_dim':
            arr = np.zeros((nrows, k, r.choice([1, 2])), dtype=arr.dtype)
        elif shape_kind == 'three_dim_wrong':
            arr = np.zeros((nrows, r.choice([kk for kk in (1, 2, 3, 4) if kk != k]), 2), dtype=arr.dtype)
        arr, layout = _layout(r, arr)
        before = arr.copy()
        st, out = _call(tr, arr)
        case = {'fn': 'call', 'cls': cls, 'shape': list(arr.shape), 'dtype': str(arr.dtype), 'layout': layout, 'round': rnd_f, 'drop': drop_f,
                'plane': pl, 'sbs': sbs, 'kind': shape_kind, 'kind_matters': True}
        ctx.case(sample=case if i % 43 == 0 else None, fn='call', cls=cls, shape_kind=shape_kind, layout=layout, dtype=arr.dtype.kind, exact_half_slice=boundary,
                 flags=f'round={rnd_f},drop={drop_f}' if cls in ('r2p', 'r2i', 'p2p') else '-', outcome=st if st == 'ok' else out,
                 nontrivial_key=('call', cls, shape_kind, layout) if st == 'ok' else ('call-refused', cls, shape_kind))
        if not np.array_equal(arr, before, equal_nan=True):
            ctx.fail(case, 'the argument array was modified', site='purity')
        # ---- oracle
        well = arr.ndim == 2 and arr.shape[1] == k and (not int_only or arr.dtype.kind in 'ui')
        dropping = drop_f and cls in ('r2p', 'r2i')
        off_plane = bool(zs) and any(abs(z) > 0.5 for z in zs) if zs is not None else None
        if not well:
            if st == 'ok':
                ctx.fail(case, f'an array of shape {arr.shape} / dtype {arr.dtype} is accepted', site='batch')
        elif dropping and off_plane:
            if st == 'ok' or out != 'runtime':
                ctx.fail(dict(case, slice_coordinates=zs), f'a point more than half a slice off the plane is not refused: {st} {out if st != "ok" else ""}', site='drop_slice_index')
        elif dropping and off_plane is None:
            pass
        else:
            width_out = {'p2r': 3, 'i2r': 3, 'p2p': 2, 'i2i': 2}.get(cls, 2 if dropping else 3)
            if st != 'ok':
                ctx.fail(dict(case, slice_coordinates=zs), f'a well-formed batch is refused: {out}', site='batch')
            elif out.shape != (arr.shape[0], width_out):
                ctx.fail(case, f'result of shape {out.shape}', site='batch')
            else:
                if (rnd_f and cls in ('r2p', 'p2p')) != (out.dtype.kind == 'i'):
                    ctx.fail(case, f'result dtype {out.dtype} with round_output={rnd_f}', site='batch')
                for q in range(arr.shape[0]):
                    st1, o1 = _call(tr, arr[q:q + 1])
                    # (floating point: a matrix product over n columns may differ from n products in the last bits; a rounded
                    # entry may then differ only next to a tie)
                    eps = 1e-9 * (1 + float(np.abs(out[q]).max())) if out.dtype.kind != 'i' else 0
                    if st1 != 'ok' or (np.abs(o1[0] - out[q]).max() > eps and not (out.dtype.kind == 'i' and np.abs(o1[0] - out[q]).max() <= 1
                                                                                    and _near_tie(tr, kw, cls, arr[q:q + 1]))):
                        ctx.fail(dict(case, row=q), 'a batch differs from its points one by one', site='batch')
                        break
        # ---- model
        batch = {'ndim': int(arr.ndim), 'width': int(arr.shape[1]) if arr.ndim >= 2 else 0, 'int': arr.dtype.kind in 'ui',
                 'rows': [RL([float(v) for v in rw]) for rw in arr.tolist()] if arr.ndim == 2 else []}
        reqs.append(('call', dict(margs, batch=batch)))
        tol = TOL * _scale(pl, [[float(np.abs(arr).max())] if arr.size else [1.0]]) * 1024
        val = out
        if st == 'ok' and cls in ('r2p', 'p2p') and rnd_f:
            # rounded output: compared where the un-rounded value is not near a tie
            raw = (sp.ReferenceToPixelTransformer(**dict(kw, round_output=False)) if cls == 'r2p'
                   else sp.PixelToPixelTransformer(**dict(kw, round_output=False)))(arr)
            if np.any(np.abs(np.abs(raw % 1.0) - 0.5) < 1e-3):
                val = None
        if val is None:
            reqs.pop()
        else:
            pend.append((case, (st, val), 0 if (st == 'ok' and out.dtype.kind == 'i') else tol))
    # ---- lists / tuples instead of arrays: no np.asarray is applied, every __call__ refuses them (AttributeError), however well-formed
    for i in range(ctx.n(90, 300)):
        r = ctx.rng('sequence', i)
        cls = classes[i % 6]
        pl = _plane(r)
        k = 3 if cls in ('r2p', 'r2i') else 2
        if cls in ('p2p', 'i2i'):
            tr = (sp.PixelToPixelTransformer if cls == 'p2p' else sp.ImageToImageTransformer)(pl['pos'], pl['ori'], pl['ps'], pl['pos'], pl['ori'], pl['ps'])
            margs = {'cls': cls, 'pos_f': RL(pl['pos']), 'ori_f': RL(pl['ori']), 'ps_f': RL(pl['ps']), 'pos_t': RL(pl['pos']), 'ori_t': RL(pl['ori']),
                     'ps_t': RL(pl['ps'])}
        else:
            tr = {'p2r': sp.PixelToReferenceTransformer, 'r2p': sp.ReferenceToPixelTransformer, 'i2r': sp.ImageToReferenceTransformer,
                  'r2i': sp.ReferenceToImageTransformer}[cls](pl['pos'], pl['ori'], pl['ps'])
            margs = {'cls': cls, 'pos': RL(pl['pos']), 'ori': RL(pl['ori']), 'ps': RL(pl['ps']), 'sbs': '1'}
        rows = [[r.randint(0, 50) for _ in range(k)] for _ in range(r.choice([0, 1, 2, 5]))]
        form = r.choice(['list_of_lists', 'tuple_of_tuples', 'list_of_tuples', 'flat_list', 'ragged', 'deep', 'float_rows'])
        arg = {'list_of_lists': rows, 'tuple_of_tuples': tuple(tuple(x) for x in rows), 'list_of_tuples': [tuple(x) for x in rows],
               'flat_list': [1] * k, 'ragged': rows + [[1]], 'deep': [rows], 'float_rows': [[float(v) for v in x] for x in rows]}[form]
        st, out = _call(tr, arg)
        case = {'fn': 'call', 'cls': cls, 'argument': form, 'rows': len(rows), 'kind_matters': True}
        ctx.case(fn='call', cls=cls, shape_kind='sequence:' + form, outcome=st if st == 'ok' else out, nontrivial_key=('call-seq', cls, form))
        if st == 'ok' or out != 'attribute':
            ctx.fail(case, f'a {form} is not refused with AttributeError: {st} {out if st != "ok" else ""}', site='batch')
        reqs.append(('call', dict(margs, batch=None)))
        pend.append((case, (st, out), 0))
    # ---- the two point helpers on index / coordinate sequences of every length and spelling
    for i in range(ctx.n(200, 600)):
        r = ctx.rng('helperB', i)
        pl = _plane(r)
        ln = r.choice([2, 2, 2, 1, 3, 0])
        index = [r.randint(-20, 300) for _ in range(ln)]
        spelled = r.choice([list, tuple, lambda v: np.array(v, dtype=np.int64), lambda v: [np.int32(x) for x in v]])(index)
        st, out = _call(sp.map_pixel_into_coordinate_system, spelled, pl['pos'], pl['ori'], pl['ps'])
        case = {'fn': 'map_pixel_into_coordinate_system', 'index': index, 'plane': pl, 'kind_matters': ln != 0}
        ctx.case(fn='helper', which='pixel', length=ln, outcome=st if st == 'ok' else out, nontrivial_key=('helperB', ln) if st == 'ok' else None)
        if (st == 'ok') != (ln == 2):
            ctx.fail(case, f'index of length {ln}: {st} {out}', site='helper')
        if st == 'ok':
            want = sp.PixelToReferenceTransformer(pl['pos'], pl['ori'], pl['ps'])(np.array([index]))[0]
            if not isinstance(out, tuple) or len(out) != 3 or not np.array_equal(np.array(out), want):
                ctx.fail(case, {'got': out, 'want': want.tolist()}, site='helper')
        if ln != 0:      # np.array([[]], dtype=int) has shape (1, 0): the same refusal
            reqs.append(('mapPixelB', {'index': index, 'pos': RL(pl['pos']), 'ori': RL(pl['ori']), 'ps': RL(pl['ps'])}))
            pend.append((case, (st, list(out) if st == 'ok' else out), 0 if _exact(pl) else TOL * _scale(pl, [index])))
        sbs = r.choice([None, _spacing(r)])
        ln = r.choice([3, 3, 3, 2, 4])
        sub = [_dy(r, -10, 300, 16), _dy(r, -10, 300, 16), _dy(r, -3, 3, 16)]
        fwd3 = sp.create_affine_matrix_from_attributes(pl['pos'], pl['ori'], pl['ps'], 1.0 if sbs is None else sbs)
        coord = [float(x) for x in (fwd3 @ np.array(sub + [1.0]))[:3]]
        coord = (coord + [1.0])[:ln]
        args = (pl['pos'], pl['ori'], pl['ps']) + (() if sbs is None else (sbs,))
        st, out = _call(sp.map_coordinate_into_pixel_matrix, r.choice([list, tuple, np.array])(coord), *args)
        case = {'fn': 'map_coordinate_into_pixel_matrix', 'coordinate': coord, 'plane': pl, 'sbs': sbs, 'kind_matters': True}
        ctx.case(fn='helper', which='coordinate', length=ln, default_spacing=sbs is None, outcome=st if st == 'ok' else out,
                 nontrivial_key=('helperC', ln, sbs is None) if st == 'ok' else None)
        if (st == 'ok') != (ln == 3):
            ctx.fail(case, f'coordinate of length {ln}: {st} {out}', site='helper')
        safe = all(abs(abs(x % 1.0) - 0.5) > 1e-3 for x in sub)
        if st == 'ok':
            if not all(isinstance(v, int) for v in out) or (safe and list(out) != [int(np.around(x)) for x in sub]):
                ctx.fail(case, {'got': out, 'want': [int(np.around(x)) for x in sub]}, site='helper')
        if safe or st != 'ok':
            reqs.append(('mapCoordB', {'coordinate': RL(coord), 'pos': RL(pl['pos']), 'ori': RL(pl['ori']), 'ps': RL(pl['ps']),
                                       'sbs': None if sbs is None else R(sbs)}))
            pend.append((case, (st, list(out) if st == 'ok' else out), 0))


# ------------------------------------------------------------------ 3. pixel-to-pixel / image-to-image
def _pair_cases(ctx, reqs, pend):
    from highdicom import spatial as sp
    n = ctx.n(550, 3500)
    for i in range(n):
        r = ctx.rng('pair', i)
        a = _plane(r)
        row, col = np.array(a['ori'][:3]), np.array(a['ori'][3:])
        nrm = np.cross(row, col)
        kind = r.choice(['same', 'shift', 'rot90', 'flip', 'rotpyth', 'off_normal', 'tilt', 'off_small', 'mirror', 'mirror_flip',
                         'equal_abs_distance'])
        # in-plane transformations of plane A give coplanar planes B
        du, dv = _dy(r, -40, 40), _dy(r, -40, 40)
        posb = np.array(a['pos']) + du * row + dv * col
        rowb, colb = row, col
        if kind == 'rot90':
            rowb, colb = col, -row
        elif kind == 'flip':
            rowb, colb = col, row          # normal reversed: still the same plane
        elif kind == 'rotpyth':
            p, q, h = r.choice(PYTH)
            rowb, colb = (p * row + q * col) / h, (-q * row + p * col) / h
        elif kind == 'off_normal':
            posb = posb + r.choice([-1, 1]) * r.choice([0.001, 0.5, 3.0, 100.0]) * nrm
        elif kind == 'off_small':
            posb = posb + r.choice([-1, 1]) * 2e-6 * nrm     # inside the 1e-5 tolerance (margin 5)
        elif kind == 'tilt':
            p, q, h = r.choice(PYTH)
            rowb, colb = (p * row + q * nrm) / h, col
        elif kind in ('mirror', 'mirror_flip', 'equal_abs_distance'):
            # a parallel plane at the OPPOSITE signed distance from the origin of the frame of reference (mirror image),
            # with the same or the reversed normal; 'equal_abs_distance' first moves plane A to a chosen distance
            da = float(np.dot(np.array(a['pos']), nrm))
            if kind == 'equal_abs_distance' or abs(da) < 0.5:
                target = r.choice([-30.0, -12.5, 7.0, 12.5, 30.0])
                a['pos'] = [float(x) for x in np.array(a['pos']) + (target - da) * nrm]
                da = target
            posb = np.array(a['pos']) + du * row + dv * col - 2 * da * nrm
            if kind == 'mirror_flip':
                rowb, colb = col, row
        b = {'pos': [float(x) for x in posb], 'ori': [float(x) for x in rowb] + [float(x) for x in colb],
             'ps': [_spacing(r), _spacing(r)], 'cls': 'axis' if (a['cls'] == 'axis' and kind in ('same', 'shift', 'rot90', 'flip', 'off_normal', 'mirror', 'mirror_flip', 'equal_abs_distance')) else 'oblique'}
        coplanar = kind not in ('off_normal', 'tilt', 'mirror', 'mirror_flip', 'equal_abs_distance')
        kw = dict(image_position_from=a['pos'], image_orientation_from=a['ori'], pixel_spacing_from=a['ps'],
                  image_position_to=b['pos'], image_orientation_to=b['ori'], pixel_spacing_to=b['ps'])
        margs = {'pos_f': RL(a['pos']), 'ori_f': RL(a['ori']), 'ps_f': RL(a['ps']),
                 'pos_t': RL(b['pos']), 'ori_t': RL(b['ori']), 'ps_t': RL(b['ps'])}
        base = {'from': a, 'to': b, 'kind': kind}
        kw = {kk: _present(r, vv) for kk, vv in kw.items()}
        s_pp, pp = _pcall(sp.PixelToPixelTransformer, round_output=False, **kw)
        s_ii, ii = _pcall(sp.ImageToImageTransformer, **kw)
        ctx.case(sample=base if i % 37 == 0 else None, fn='pixel_to_pixel', kind=kind, ori=a['cls'],
                 outcome='ok' if s_pp == 'ok' else pp,
                 nontrivial_key=('pp', kind, a['cls'], i % 5) if s_pp == 'ok' else ('pp-refused', kind))
        if coplanar and (s_pp != 'ok' or s_ii != 'ok'):
            ctx.fail(dict(base, fn='PixelToPixelTransformer'), f'coplanar pair refused: {pp} {ii}', site='coplanar')
        if not coplanar and (s_pp == 'ok' or s_ii == 'ok'):
            ctx.fail(dict(base, fn='PixelToPixelTransformer'), 'non-coplanar pair accepted', site='coplanar')
        idx = _pts_int(r, 3)
        sc = _scale(a, idx + [b['pos']])
        tol = TOL * sc * 256
        if s_pp == 'ok' and s_ii == 'ok':
            ia = np.array(idx, dtype=int)
            got = pp(ia)
            via = sp.ReferenceToPixelTransformer(b['pos'], b['ori'], b['ps'], round_output=False)(
                sp.PixelToReferenceTransformer(a['pos'], a['ori'], a['ps'])(ia))
            lim = max(float(tol), 1e-9)
            if np.abs(got - via[:, :2]).max() > lim:
                ctx.fail(dict(base, fn='pixel_to_pixel = via reference', idx=idx), {'got': got.tolist(), 'via': via.tolist()}, site='pix2pix')
            if kind != 'off_small' and np.abs(via[:, 2]).max() > lim:
                ctx.fail(dict(base, fn='coplanar target slice index is 0', idx=idx), {'via': via.tolist()}, site='pix2pix')
            ic = np.array([[_dy(r, -5, 200, 16), _dy(r, -5, 200, 16)] for _ in range(3)])
            goti = ii(ic)
            viai = sp.ReferenceToImageTransformer(b['pos'], b['ori'], b['ps'])(sp.ImageToReferenceTransformer(a['pos'], a['ori'], a['ps'])(ic))
            if np.abs(goti - viai[:, :2]).max() > lim:
                ctx.fail(dict(base, fn='image_to_image = via reference', pts=ic.tolist()), {'got': goti.tolist(), 'via': viai.tolist()}, site='img2img')
            # image = pixel + half a pixel on both sides
            gi = ii(ia.astype(float) + 0.5)
            if np.abs(gi - (got + 0.5)).max() > lim:
                ctx.fail(dict(base, fn='image_to_image(i+.5) = pixel_to_pixel(i)+.5', idx=idx), {'got': gi.tolist()}, site='img2img')
            # rounded variant = rounding of the un-rounded one (away from ties)
            ppr = sp.PixelToPixelTransformer(round_output=True, **kw)(ia)
            for k in range(3):
                if all(abs((abs(float(x)) % 1.0) - 0.5) > 1e-3 for x in got[k]) and \
                        [int(x) for x in ppr[k]] != [int(np.around(x)) for x in got[k]]:
                    ctx.fail(dict(base, fn='round_output', idx=idx[k]), {'got': ppr[k].tolist(), 'raw': got[k].tolist()}, site='pix2pix')
            for k in range(3):
                reqs.append(('pixToPix', dict(margs, c=idx[k][0], r=idx[k][1])))
                pend.append((dict(base, fn='PixelToPixelTransformer', idx=idx[k]), ('ok', got[k]), tol))
                reqs.append(('imgToImg', dict(margs, x=R(ic[k][0]), y=R(ic[k][1]))))
                pend.append((dict(base, fn='ImageToImageTransformer', pt=ic[k].tolist()), ('ok', goti[k]), tol))
        else:
            reqs.append(('pixToPix', dict(margs, c=0, r=0)))
            pend.append((dict(base, fn='PixelToPixelTransformer'), (s_pp, pp), tol))
        st, val = _pcall(sp._are_images_coplanar, _present(r, a['pos']), _present(r, a['ori']), _present(r, b['pos']), _present(r, b['ori']))
        reqs.append(('coplanar', {'pos_a': RL(a['pos']), 'ori_a': RL(a['ori']), 'pos_b': RL(b['pos']), 'ori_b': RL(b['ori'])}))
        pend.append((dict(base, fn='_are_images_coplanar', layer='L2'), (st, bool(val) if st == 'ok' else val), 0))


# ------------------------------------------------------------------ 4. components, letters
def _all_orientations():
    out = []
    for perm in itertools.permutations([('L', 'R'), ('P', 'A'), ('H', 'F')]):
        for pick in itertools.product((0, 1), repeat=3):
            out.append(''.join(p[k] for p, k in zip(perm, pick)))
    return out


LETTER_VEC = {'L': (1, 0, 0), 'R': (-1, 0, 0), 'P': (0, 1, 0), 'A': (0, -1, 0), 'H': (0, 0, 1), 'F': (0, 0, -1)}


def _spell_letters(r, o):
    """every accepted spelling of a patient orientation: 'FPL', tuple / list of letters, enum members, mixed"""
    from highdicom.enum import PatientOrientationValuesBiped as B
    k = r.randrange(4)
    if k == 0:
        return o
    if k == 1:
        return tuple(o)
    if k == 2:
        return tuple(B(c) for c in o)
    return [B(o[0]), o[1], B(o[2])] if len(o) == 3 else tuple(o)


def _letters_cases(ctx, reqs, pend):
    """all 48 orientations, exhaustively: letters -> matrix -> letters, matrix -> letters -> matrix, conventions."""
    import highdicom as hd
    from highdicom import spatial as sp
    oris = _all_orientations()
    assert len(set(oris)) == 48
    r = ctx.rng('letters', 0)
    A0 = np.eye(4)
    A0[:3, :3] = np.array([[0.0, 0.5, 0.0], [0.0, 0.0, -2.0], [1.5, 0.0, 0.0]])
    A0[:3, 3] = [3.0, -7.5, 11.25]
    for o in oris:
        want = np.column_stack([np.array(LETTER_VEC[c], dtype=float) for c in o])
        for spc in (1.0, [0.5, 2.0, 3.0], [_spacing(r), _spacing(r), _spacing(r)]):
            st, m = _pcall(sp.rotation_for_patient_orientation, _spell_letters(r, o), spc)
            case = {'fn': 'rotation_for_patient_orientation', 'letters': o, 'spacing': spc}
            ctx.case(sample=case if o == 'FPL' else None, fn='letters', nontrivial_key=('rot', o, isinstance(spc, list)), outcome=st)
            s3 = [spc] * 3 if not isinstance(spc, list) else spc
            if st != 'ok':
                ctx.fail(case, f'refused: {m}', site='letters')
                continue
            if not np.array_equal(m, want * np.array(s3)):
                ctx.fail(case, {'got': m.tolist(), 'want': (want * np.array(s3)).tolist()}, site='letters')
            m_arg = _present(r, m, dtypes=False)
            st2, back = _pcall(sp.get_closest_patient_orientation, m_arg if isinstance(m_arg, np.ndarray) else m)
            got = ''.join(x.value for x in back) if st2 == 'ok' else back
            if got != o:
                ctx.fail(dict(case, fn='get_closest_patient_orientation(rotation_for_patient_orientation)'), {'got': got}, site='letters')
            reqs.append(('rotationForOrientation', {'letters': o, 'spacing': RL(spc) if isinstance(spc, list) else R(spc)}))
            pend.append((case, (st, m), 0))
            reqs.append(('closestOrientation', {'m': [RL(x) for x in m]}))
            pend.append((dict(case, fn='get_closest_patient_orientation'), (st2, got), 0))
            # 4x4 input and a volume geometry built from the letters
            A = np.eye(4)
            A[:3, :3] = m
            A[:3, 3] = [1.0, 2.0, 3.0]
            st4, b4 = _call(sp.get_closest_patient_orientation, A)
            if st4 != 'ok' or ''.join(x.value for x in b4) != o:
                ctx.fail(dict(case, fn='get_closest_patient_orientation(4x4)'), 'differs', site='letters')
            st3, g = _call(hd.VolumeGeometry.from_components, (2, 3, 4), spacing=s3, coordinate_system='PATIENT',
                           position=[1.0, 2.0, 3.0], patient_orientation=_spell_letters(r, o))
            st5, b5 = _call(g.get_closest_patient_orientation) if st3 == 'ok' else ('err', None)
            if st3 != 'ok' or st5 != 'ok' or ''.join(x.value for x in b5) != o:
                ctx.fail(dict(case, fn='VolumeGeometry.from_components(patient_orientation)'), f'{st3}', site='letters')
        # reference-convention change of an affine: row i of the result is the coordinate along letter i
        st, out = _pcall(sp._transform_affine_to_convention, A0, (3, 4, 5), _spell_letters(r, 'LPH'), _spell_letters(r, o))
        case = {'fn': '_transform_affine_to_convention', 'to': o}
        ctx.case(fn='to_convention', nontrivial_key=('conv', o), outcome=st if st == 'ok' else out)
        wantA = np.eye(4)
        wantA[:3, :] = want.T @ A0[:3, :]
        if st != 'ok':
            ctx.fail(case, f'refused: {out}', site='to_convention')
        elif not np.array_equal(out, wantA):
            ctx.fail(case, {'got': out.tolist(), 'want': wantA.tolist()}, site='to_convention')
        reqs.append(('toConvention', {'m': [RL(x) for x in A0[:3, :3]], 't': RL(A0[:3, 3]), 'from': 'LPH', 'to': o}))
        pend.append((case, (st, {'m': out[:3, :3], 't': out[:3, 3]} if st == 'ok' else out), 0))
        st, out2 = _call(hd.VolumeGeometry(A0, (3, 4, 5), 'PATIENT').get_affine, _spell_letters(r, o))
        if st != 'ok' or not np.array_equal(out2, wantA):
            ctx.fail(dict(case, fn='VolumeGeometry.get_affine'), f'{st}', site='to_convention')
    # a few source conventions other than LPH (model comparison + oracle)
    for k in range(ctx.n(250, 600)):
        rr = ctx.rng('conv', k)
        f, t = rr.choice(oris), rr.choice(oris)
        st, out = _call(sp._transform_affine_to_convention, A0, (3, 4, 5), _spell_letters(rr, f), _spell_letters(rr, t))
        F = np.column_stack([np.array(LETTER_VEC[c], dtype=float) for c in f])
        T = np.column_stack([np.array(LETTER_VEC[c], dtype=float) for c in t])
        wantA = np.eye(4)
        wantA[:3, :] = T.T @ F @ A0[:3, :]
        case = {'fn': '_transform_affine_to_convention', 'from': f, 'to': t}
        ctx.case(fn='to_convention', outcome=st if st == 'ok' else out)
        if st != 'ok' or not np.array_equal(out, wantA):
            ctx.fail(case, f'{st}: {out if st != "ok" else out.tolist()}', site='to_convention')
        reqs.append(('toConvention', {'m': [RL(x) for x in A0[:3, :3]], 't': RL(A0[:3, 3]), 'from': f, 'to': t}))
        pend.append((case, (st, {'m': out[:3, :3], 't': out[:3, 3]} if st == 'ok' else out), 0))
    ctx.exhaustive.append('all 48 patient orientations: rotation_for_patient_orientation, get_closest_patient_orientation, '
                          '_transform_affine_to_convention(LPH -> o), VolumeGeometry.get_affine(o)')
    # invalid letter combinations are refused
    for bad in ['LRH', 'LPP', 'LP', 'LPHF', 'XPH', 'AAA']:
        st, out = _call(sp.rotation_for_patient_orientation, bad)
        ctx.case(fn='letters', outcome=st if st == 'ok' else out)
        if st == 'ok':
            ctx.fail({'fn': 'rotation_for_patient_orientation', 'letters': bad}, 'invalid letters accepted', site='letters')
        reqs.append(('rotationForOrientation', {'letters': bad, 'spacing': '1'}))
        pend.append(({'fn': 'rotation_for_patient_orientation', 'letters': bad}, (st, out), 0))
    # closest orientation of oblique matrices: dominant axis per column, ties at 45 degrees
    for k in range(ctx.n(500, 2000)):
        rr = ctx.rng('closest', k)
        row, col, cls = _orientation(rr)
        m = np.column_stack([np.cross(row, col) * _spacing(rr), col * _spacing(rr), row * _spacing(rr)])
        if rr.random() < 0.15:
            c, s = np.sqrt(0.5), np.sqrt(0.5)
            m = np.array([[c, -s, 0], [s, c, 0], [0, 0, 1.0]]) @ np.column_stack(AXIS_PAIRS[rr.randrange(24)] + (E[0],))
            m[:, 2] = np.cross(m[:, 0], m[:, 1])
            cls = '45deg'
        st, back = _pcall(sp.get_closest_patient_orientation, np.asfortranarray(m) if rr.random() < 0.5 else m)
        got = ''.join(x.value for x in back) if st == 'ok' else back
        case = {'fn': 'get_closest_patient_orientation', 'm': m.tolist(), 'cls': cls}
        ctx.case(fn='closest', ori=cls, outcome=st if st == 'ok' else got, nontrivial_key=('closest', got) if st == 'ok' else None)
        if st == 'ok':
            # oracle: a valid orientation (one letter per anatomical axis) whose vectors have positive alignment
            if sorted('LPH'['LPH'.index(c)] if c in 'LPH' else 'LPH'['RAF'.index(c)] for c in got) != ['H', 'L', 'P']:
                ctx.fail(case, {'got': got, 'what': 'not one letter per axis'}, site='closest')
            else:
                for d, c in enumerate(got):
                    if float(np.dot(m[:, d], np.array(LETTER_VEC[c], dtype=float))) < 0:
                        ctx.fail(case, {'got': got, 'what': f'axis {d} points away from {c}'}, site='closest')
        # ties (45 degrees) compare equal floats: sqrt(.5) entries are identical bit patterns, so the model sees the tie
        reqs.append(('closestOrientation', {'m': [RL(x) for x in m]}))
        pend.append((case, (st, got), 0))


def _components_cases(ctx, reqs, pend):
    import highdicom as hd
    from highdicom import spatial as sp
    oris = _all_orientations()
    n = ctx.n(800, 4000)
    for i in range(n):
        r = ctx.rng('comp', i)
        form = ['seq', 'scalar', 'int'][i % 3] if i < 30 else r.choice(['seq', 'seq', 'scalar', 'int'])
        spacing = [_spacing(r) for _ in range(3)] if form == 'seq' else (_spacing(r) if form == 'scalar' else r.choice([1, 2, 3]))
        use_dir = r.random() < 0.55
        use_center = r.random() < 0.5
        shape = [r.randint(1, 9) for _ in range(3)]
        pos = [_dy(r, -300, 300) for _ in range(3)]
        kw = {'spacing': spacing}
        margs = {'spacing': RL(spacing) if form == 'seq' else R(spacing)}
        cls = 'letters'
        if use_dir:
            row, col, cls = _orientation(r)
            hand = r.choice([1, -1])
            D = np.column_stack([hand * np.cross(row, col), col, row])
            kw['direction'] = D if r.random() < 0.5 else D.flatten().tolist()
            margs['direction'] = RL(D.flatten())
        else:
            o = r.choice(oris)
            kw['patient_orientation'] = _spell_letters(r, o)
            margs['orientation'] = o
            D = np.column_stack([np.array(LETTER_VEC[c], dtype=float) for c in o])
        if use_center:
            kw['center_position'] = pos
            kw['spatial_shape'] = shape
            margs['center'] = RL(pos)
            margs['shape'] = shape
        else:
            kw['position'] = pos
            margs['position'] = RL(pos)
        bad = None
        if r.random() < 0.18:
            bad = r.choice(['both_pos', 'no_pos', 'both_dir', 'no_dir', 'noshape', 'sp_len', 'sp_neg', 'skew', 'notunit', 'poslen'])
            if bad == 'both_pos':
                kw.update(position=pos, center_position=pos, spatial_shape=shape)
                margs.update(position=RL(pos), center=RL(pos), shape=shape)
            elif bad == 'no_pos':
                for k in ('position', 'center_position'):
                    kw.pop(k, None)
                margs.pop('position', None)
                margs.pop('center', None)
            elif bad == 'both_dir':
                kw.update(direction=np.eye(3), patient_orientation='LPH')
                margs.update(direction=RL(np.eye(3).flatten()), orientation='LPH')
            elif bad == 'no_dir':
                kw.pop('direction', None)
                kw.pop('patient_orientation', None)
                margs.pop('direction', None)
                margs.pop('orientation', None)
            elif bad == 'noshape':
                kw.pop('position', None)
                kw['center_position'] = pos
                kw.pop('spatial_shape', None)
                margs.pop('position', None)
                margs['center'] = RL(pos)
                margs.pop('shape', None)
            elif bad == 'sp_len':
                kw['spacing'] = [1.0, 2.0]
                margs['spacing'] = RL([1.0, 2.0])
            elif bad == 'sp_neg':
                kw['spacing'] = [1.0, -2.0, 1.0]
                margs['spacing'] = RL([1.0, -2.0, 1.0])
            elif bad in ('skew', 'notunit'):
                Dm = np.eye(3)
                if bad == 'skew':
                    Dm[0, 1] = 0.25
                else:
                    Dm[1, 1] = 1.5
                kw.pop('patient_orientation', None)
                margs.pop('orientation', None)
                kw['direction'] = Dm
                margs['direction'] = RL(Dm.flatten())
            elif bad == 'poslen':
                kw.pop('center_position', None)
                kw.pop('spatial_shape', None)
                margs.pop('center', None)
                margs.pop('shape', None)
                kw['position'] = pos[:2]
                margs['position'] = RL(pos[:2])
        if bad is None:
            for kk in ('position', 'center_position'):
                if kk in kw:
                    kw[kk] = _present(r, kw[kk])
            if form == 'seq':
                kw['spacing'] = _present(r, kw['spacing'])
            if 'spatial_shape' in kw and r.random() < 0.5:
                kw['spatial_shape'] = np.array(kw['spatial_shape']) if r.random() < 0.5 else tuple(kw['spatial_shape'])
            if 'direction' in kw and isinstance(kw['direction'], np.ndarray) and r.random() < 0.5:
                kw['direction'] = np.asfortranarray(kw['direction'])
        st, A = _pcall(sp.create_affine_matrix_from_components, **kw)
        case = {'fn': 'create_affine_matrix_from_components', 'args': margs, 'bad': bad}
        key = None
        if bad is None:
            if st != 'ok':
                ctx.fail(case, f'valid components refused: {A}', site='from_components')
            else:
                key = ('comp', form, use_dir, use_center, cls)
                s3 = np.array(spacing if form == 'seq' else [spacing] * 3, dtype=float)
                eps = 1e-9
                if np.abs(A[:3, :3] - D * s3).max() > eps:
                    ctx.fail(case, {'what': 'columns are not spacing * direction', 'got': A.tolist()}, site='from_components')
                if use_center:
                    c = A @ np.array([(shape[0] - 1) / 2, (shape[1] - 1) / 2, (shape[2] - 1) / 2, 1.0])
                    if np.abs(c[:3] - np.array(pos)).max() > 1e-9 * (1 + np.abs(np.array(pos)).max()):
                        ctx.fail(case, {'what': 'array centre not mapped to center_position', 'got': c.tolist()}, site='from_components')
                elif not np.array_equal(A[:3, 3], np.array(pos)):
                    ctx.fail(case, 'index zero not mapped to position', site='from_components')
                # the volume classes agree with the function and with their own accessors
                st2, g = _call(hd.VolumeGeometry.from_components, shape, coordinate_system='PATIENT',
                               **{k: v for k, v in kw.items() if k != 'spatial_shape'})
                if st2 != 'ok' or not np.array_equal(g.affine, A):
                    ctx.fail(dict(case, fn='VolumeGeometry.from_components'), f'{st2}', site='from_components')
                else:
                    st_v, vol = _call(hd.Volume.from_components, np.zeros(tuple(shape), dtype=np.uint8), coordinate_system='PATIENT',
                                      **{k: v for k, v in kw.items() if k != 'spatial_shape'})
                    if st_v != 'ok' or not np.array_equal(vol.affine, A):
                        ctx.fail(dict(case, fn='Volume.from_components'), f'{st_v}', site='from_components')
                    if g.handedness.value != ('RIGHT_HANDED' if np.linalg.det(A[:3, :3]) > 0 else 'LEFT_HANDED'):
                        ctx.fail(dict(case, fn='VolumeGeometry.handedness'), {'got': g.handedness.value, 'det': float(np.linalg.det(A[:3, :3]))}, site='accessors')
                    if np.abs(np.array(g.spacing) - s3).max() > 1e-9 or np.abs(g.direction - D).max() > 1e-9:
                        ctx.fail(dict(case, fn='VolumeGeometry.spacing/direction'), {'spacing': g.spacing}, site='accessors')
                    if use_center and np.abs(np.array(g.center_position) - np.array(pos)).max() > 1e-9 * (1 + np.abs(np.array(pos)).max()):
                        ctx.fail(dict(case, fn='VolumeGeometry.center_position'), {'got': g.center_position}, site='accessors')
                    if not use_center and tuple(g.position) != tuple(pos):
                        ctx.fail(dict(case, fn='VolumeGeometry.position'), {'got': g.position}, site='accessors')
        elif st == 'ok':
            ctx.fail(case, 'invalid components accepted', site='from_components')
        ctx.case(sample=case if i % 47 == 0 else None, nontrivial_key=key, fn='from_components', spacing_form=form,
                 direction='matrix' if use_dir else 'letters', centre=use_center, ori=cls, bad=bad, outcome=st if st == 'ok' else A)
        exact = cls in ('axis', 'letters') and not use_center
        tol = 0 if exact else TOL * (1 + Fr(max(abs(x) for x in pos))) * 64
        reqs.append(('fromComponents', margs))
        pend.append((case, (st, {'m': A[:3, :3], 't': A[:3, 3]} if st == 'ok' else A), tol))


def _volume_attr_cases(ctx):
    """VolumeGeometry.from_attributes: accessors return what was given (oracle only; square roots)."""
    import highdicom as hd
    n = ctx.n(200, 1000)
    for i in range(n):
        r = ctx.rng('volattr', i)
        pl = _plane(r)
        sbs = _spacing(r)
        st, g = _call(hd.VolumeGeometry.from_attributes, image_position=pl['pos'], image_orientation=pl['ori'], rows=4, columns=5,
                      pixel_spacing=pl['ps'], spacing_between_slices=sbs, number_of_frames=3, coordinate_system='PATIENT')
        case = {'fn': 'VolumeGeometry.from_attributes', 'plane': pl, 'sbs': sbs}
        ctx.case(fn='volume_accessors', ori=pl['cls'], outcome=st if st == 'ok' else g,
                 nontrivial_key=('volattr', pl['cls'], i % 11) if st == 'ok' else None)
        if st != 'ok':
            ctx.fail(case, f'refused: {g}', site='accessors')
            continue
        eps = 1e-9
        if np.abs(np.array(g.pixel_spacing) - np.array(pl['ps'])).max() > eps or abs(g.spacing_between_slices - sbs) > eps \
                or np.abs(np.array(g.spacing) - np.array([sbs, pl['ps'][0], pl['ps'][1]])).max() > eps:
            ctx.fail(case, {'pixel_spacing': g.pixel_spacing, 'sbs': g.spacing_between_slices, 'spacing': g.spacing}, site='accessors')
        if np.abs(np.array(g.direction_cosines) - np.array(pl['ori'])).max() > eps:
            ctx.fail(case, {'direction_cosines': g.direction_cosines}, site='accessors')
        if tuple(g.position) != tuple(pl['pos']):
            ctx.fail(case, {'position': g.position}, site='accessors')
        if g.handedness.value != 'RIGHT_HANDED':
            ctx.fail(case, 'volume from attributes is not right-handed', site='accessors')
        # map_indices_to_reference((s, r, c)) = PixelToReference of (c, r) on the plane of slice s
        from highdicom import spatial as sp
        idx = np.array([[r.randint(0, 2), r.randint(0, 3), r.randint(0, 4)] for _ in range(3)])
        ref = g.map_indices_to_reference(idx)
        nrm = -np.cross(np.array(pl['ori'][:3]), np.array(pl['ori'][3:]))   # volume convention: D x R
        for k in range(3):
            p = np.array(sp.map_pixel_into_coordinate_system([int(idx[k][2]), int(idx[k][1])], pl['pos'], pl['ori'], pl['ps'])) \
                + idx[k][0] * sbs * nrm
            if np.abs(ref[k] - p).max() > 1e-9 * (1 + np.abs(p).max()):
                ctx.fail(dict(case, idx=idx[k].tolist()), {'got': ref[k].tolist(), 'want': p.tolist()}, site='accessors')
        back = g.map_reference_to_indices(ref)
        if np.abs(back - idx).max() > 1e-7:
            ctx.fail(dict(case, fn='map_reference_to_indices(map_indices_to_reference)'), {'got': back.tolist()}, site='roundtrip')
        # a Volume with an array has the same geometry as the geometry-only object
        st_v, vol = _call(hd.Volume.from_attributes, array=np.zeros((3, 4, 5), dtype=np.uint8), image_position=pl['pos'],
                          image_orientation=pl['ori'], pixel_spacing=pl['ps'], spacing_between_slices=sbs, coordinate_system='PATIENT')
        if st_v != 'ok' or not np.array_equal(vol.affine, g.affine) or not np.array_equal(vol.get_geometry().affine, g.affine):
            ctx.fail(dict(case, fn='Volume.from_attributes'), f'{st_v}: differs from VolumeGeometry.from_attributes', site='accessors')
        # the remaining component accessors, each against its definition
        shp = (3, 4, 5)
        sp3 = np.array([sbs, pl['ps'][0], pl['ps'][1]])
        A = g.affine
        checks = {
            'center_indices': (np.array(g.center_indices), np.array([(d - 1) / 2 for d in shp])),
            'nearest_center_indices': (np.array(g.nearest_center_indices), np.array([(d - 1) // 2 for d in shp])),
            'center_position': (np.array(g.center_position), (A @ np.array([1.0, 1.5, 2.0, 1.0]))[:3]),
            'physical_extent': (np.array(g.physical_extent), sp3 * np.array(shp)),
            'voxel_volume': (np.array([g.voxel_volume]), np.array([sp3.prod()])),
            'physical_volume': (np.array([g.physical_volume]), np.array([sp3.prod() * 60])),
            'spacing_vectors': (np.array(g.spacing_vectors()), A[:3, :3].T),
            'unit_vectors': (np.array(g.unit_vectors()), (A[:3, :3] / sp3).T),
            'inverse_affine': (g.inverse_affine @ A, np.eye(4)),
        }
        for name, (got_v, want_v) in checks.items():
            if got_v.shape != want_v.shape or np.abs(got_v - want_v).max() > 1e-9 * (1 + np.abs(want_v).max()) * (1e3 if name == 'inverse_affine' else 1):
                ctx.fail(dict(case, fn='VolumeGeometry.' + name), {'got': got_v.tolist(), 'want': want_v.tolist()}, site='accessors')
        pps = g.get_plane_positions()
        for k in range(3):
            want_p = (A @ np.array([k, 0, 0, 1.0]))[:3]
            for got_p in (np.array([float(x) for x in pps[k][0].ImagePositionPatient]),
                          np.array([float(x) for x in g.get_plane_position(k)[0].ImagePositionPatient])):
                # DS strings keep 16 characters: compare at that precision
                if np.abs(got_p - want_p).max() > 1e-9 * (1 + np.abs(want_p).max()) + 1e-8:
                    ctx.fail(dict(case, fn='VolumeGeometry.get_plane_position', plane=k), {'got': got_p.tolist(), 'want': want_p.tolist()}, site='accessors')
        po = np.array([float(x) for x in g.get_plane_orientation()[0].ImageOrientationPatient])
        if np.abs(po - np.array(pl['ori'])).max() > 1e-8:
            ctx.fail(dict(case, fn='VolumeGeometry.get_plane_orientation'), {'got': po.tolist()}, site='accessors')
        pm = g.get_pixel_measures()[0]
        if np.abs(np.array([float(x) for x in pm.PixelSpacing]) - np.array(pl['ps'])).max() > 1e-8 or abs(float(pm.SpacingBetweenSlices) - sbs) > 1e-8:
            ctx.fail(dict(case, fn='VolumeGeometry.get_pixel_measures'), {'got': [str(pm.PixelSpacing), str(pm.SpacingBetweenSlices)]}, site='accessors')
        for bad_plane in (-1, 3):
            if _call(g.get_plane_position, bad_plane)[0] == 'ok':
                ctx.fail(dict(case, fn='VolumeGeometry.get_plane_position', plane=bad_plane), 'plane outside the volume accepted', site='accessors')


# ------------------------------------------------------------------ 5. transformers for images / frames / total pixel matrix
def _dataset_cases(ctx, reqs, pend):
    from highdicom import spatial as sp
    from gen import sources
    import copy
    from pydicom.sequence import Sequence as DSeq
    n = ctx.n(190, 700)
    tcls = [sp.PixelToReferenceTransformer, sp.ReferenceToPixelTransformer, sp.ImageToReferenceTransformer,
            sp.ReferenceToImageTransformer]

    def explicit(cls, pos, ori, ps, sbs):
        if cls in (sp.ReferenceToPixelTransformer, sp.ReferenceToImageTransformer):
            return cls(pos, ori, ps, spacing_between_slices=1.0 if sbs is None else sbs)
        return cls(pos, ori, ps)

    nofor = sources.single_image_no_for(3, 4)
    for cls in tcls:
        st, t = _call(cls.for_image, nofor)
        ctx.case(fn='for_image', kind='no_frame_of_reference', outcome=st if st == 'ok' else t)
        if st == 'ok':
            ctx.fail({'fn': 'for_image', 'kind': 'no_frame_of_reference', 'cls': cls.__name__}, 'image without frame of reference accepted', site='for_image')
    for i in range(n):
        r = ctx.rng('ds', i)
        pl = _plane(r)
        kind = ['single', 'perframe', 'shared', 'sparse', 'full', 'full_multi', 'perframe_all', 'full_multi', 'localizer', 'full', 'full_multi'][i % 11]
        case = {'fn': 'for_image', 'kind': kind, 'plane': pl}
        row, col = np.array(pl['ori'][:3]), np.array(pl['ori'][3:])
        if kind == 'localizer':
            # a multi-frame image in the patient coordinate system whose frames have DIFFERENT planes: orientation, position and
            # pixel measures live in the per-frame functional groups and differ from frame to frame (axial + sagittal + oblique)
            import io
            import pydicom
            from gen.images import to_bytes
            nfr = r.randint(2, 4)
            planes = [_plane(r) for _ in range(nfr)]
            sls = [_spacing(r) for _ in range(nfr)]
            ds = sources.enhanced_multiframe(nfr, 3, 4, orientation=planes[0]['ori'], origin=planes[0]['pos'], pixel_spacing=planes[0]['ps'],
                                             slice_spacing=sls[0])
            sh = ds.SharedFunctionalGroupsSequence[0]
            for f, it in enumerate(ds.PerFrameFunctionalGroupsSequence):
                it.PlaneOrientationSequence = copy.deepcopy(sh.PlaneOrientationSequence)
                it.PlaneOrientationSequence[0].ImageOrientationPatient = planes[f]['ori']
                it.PixelMeasuresSequence = copy.deepcopy(sh.PixelMeasuresSequence)
                it.PixelMeasuresSequence[0].PixelSpacing = planes[f]['ps']
                it.PixelMeasuresSequence[0].SpacingBetweenSlices = sls[f]
                it.PlanePositionSequence[0].ImagePositionPatient = planes[f]['pos']
            del sh.PlaneOrientationSequence
            del sh.PixelMeasuresSequence
            variants = [('memory', ds)]
            st_b, back = _call(lambda d: pydicom.dcmread(io.BytesIO(to_bytes(d))), ds)
            if st_b == 'ok':
                variants.append(('bytes', back))
            else:
                ctx.note(f'localizer dataset could not be written: {back}')
            for vname, dv in variants:
                # frames are asked for in a shuffled order, so that no answer can lean on the previous one
                order = list(range(nfr))
                r.shuffle(order)
                for f in order:
                    # what the file holds for this frame (DS values are rounded to 16 characters when written)
                    item = dv.PerFrameFunctionalGroupsSequence[f]
                    pos_f = [float(x) for x in item.PlanePositionSequence[0].ImagePositionPatient]
                    ori_f = [float(x) for x in item.PlaneOrientationSequence[0].ImageOrientationPatient]
                    ps_f = [float(x) for x in item.PixelMeasuresSequence[0].PixelSpacing]
                    sbs_f = float(item.PixelMeasuresSequence[0].SpacingBetweenSlices)
                    if vname == 'memory' and (pos_f != planes[f]['pos'] or ori_f != planes[f]['ori'] or ps_f != planes[f]['ps']):
                        ctx.note('generator: per-frame attributes not stored as given')
                    for cls in tcls:
                        st, t = _call(cls.for_image, dv, frame_number=f + 1)
                        ctx.case(fn='for_image', kind=kind, outcome=st if st == 'ok' else t,
                                 nontrivial_key=('ds', kind, vname, cls.__name__, planes[f]['cls']) if st == 'ok' else None)
                        want = explicit(cls, pos_f, ori_f, ps_f, sbs_f).affine
                        if st != 'ok' or not np.array_equal(t.affine, want):
                            ctx.fail(dict(case, cls=cls.__name__, frame=f + 1, frames=nfr, variant=vname),
                                     {'what': "transformer of a frame differs from the frame's own explicit attributes",
                                      'got': t.affine.tolist() if st == 'ok' else t, 'want': want.tolist()}, site='for_image')
                _check_outside_refused(ctx, dict(case, variant=vname), dv, nfr, r)
                # the model of _get_spatial_information / for_image: every frame, frame 0, negative ones, one outside, none
                mtol = TOL * 4096 * (1 + Fr(max(abs(x) for p_ in planes for x in p_['pos'])))
                dsc = _describe(dv)
                for fno in list(range(-nfr, nfr + 2)) + [None]:
                    _for_image_compare(reqs, pend, dict(case, variant=vname), dv, fno, False, mtol, dsc)
                _for_image_compare(reqs, pend, dict(case, variant=vname), dv, 1, True, mtol, dsc)
                # two frames of the same image with different planes: pixel-to-pixel is refused unless they are coplanar
                st, t = _call(sp.PixelToPixelTransformer.for_images, dv, dv, frame_number_from=1, frame_number_to=2)
                st_w, _w = _call(sp.PixelToPixelTransformer, planes[0]['pos'], planes[0]['ori'], planes[0]['ps'],
                                 planes[1]['pos'], planes[1]['ori'], planes[1]['ps'])
                if (st == 'ok') != (st_w == 'ok'):
                    ctx.fail(dict(case, what='for_images between two frames', variant=vname), f'{st} vs explicit {st_w}', site='for_image')
            continue
        if kind in ('single', 'perframe', 'shared', 'perframe_all'):
            nfr = r.randint(1, 4)
            sl = _spacing(r)
            if kind == 'single':
                dss = sources.ct_series(nfr, 3, 4, orientation=pl['ori'], origin=pl['pos'], pixel_spacing=pl['ps'], slice_spacing=sl)
                sbs1 = None
                if r.random() < 0.5:
                    # a single-frame image that declares its slice spacing: the inverse transformers must use it
                    sbs1 = _spacing(r)
                    for ds in dss:
                        ds.SpacingBetweenSlices = sbs1
                frames = [(ds, None if r.random() < 0.5 else 1, [float(x) for x in ds.ImagePositionPatient], sbs1) for ds in dss]
            else:
                ds = sources.enhanced_multiframe(nfr, 3, 4, orientation=pl['ori'], origin=pl['pos'], pixel_spacing=pl['ps'], slice_spacing=sl)
                if kind == 'perframe_all':
                    # orientation and pixel measures (with the slice spacing) per frame instead of shared
                    sh = ds.SharedFunctionalGroupsSequence[0]
                    for it in ds.PerFrameFunctionalGroupsSequence:
                        it.PlaneOrientationSequence = copy.deepcopy(sh.PlaneOrientationSequence)
                        it.PixelMeasuresSequence = copy.deepcopy(sh.PixelMeasuresSequence)
                    del sh.PlaneOrientationSequence
                    del sh.PixelMeasuresSequence
                if kind == 'shared':
                    # position in the shared functional groups (one plane for all frames)
                    pp = ds.PerFrameFunctionalGroupsSequence[0].PlanePositionSequence
                    ds.SharedFunctionalGroupsSequence[0].PlanePositionSequence = pp
                    for it in ds.PerFrameFunctionalGroupsSequence:
                        del it.PlanePositionSequence
                    frames = [(ds, f + 1, [float(x) for x in pp[0].ImagePositionPatient], sl) for f in range(nfr)]
                else:
                    frames = [(ds, f + 1, [float(x) for x in ds.PerFrameFunctionalGroupsSequence[f].PlanePositionSequence[0].ImagePositionPatient], sl)
                              for f in range(nfr)]
            for ds, f, pos, sbs in frames:
                for cls in tcls:
                    st, t = _call(cls.for_image, ds, frame_number=f)
                    ctx.case(fn='for_image', kind=kind, outcome=st if st == 'ok' else t,
                             nontrivial_key=('ds', kind, cls.__name__, pl['cls']) if st == 'ok' else None)
                    if st != 'ok':
                        ctx.fail(dict(case, cls=cls.__name__, frame=f), f'refused: {t}', site='for_image')
                    elif not np.array_equal(t.affine, explicit(cls, pos, pl['ori'], pl['ps'], sbs).affine):
                        ctx.fail(dict(case, cls=cls.__name__, frame=f), 'differs from the transformer built from explicit attributes', site='for_image')
            # the model of _get_spatial_information / for_image on the same datasets: valid frames, frame 0, outside, none, total
            mtol = TOL * 4096 * (1 + Fr(max(abs(x) for x in pl['pos'])) + 8 * Fr(abs(sl)))
            if kind == 'single':
                for ds1, f1, _p, _s in frames:
                    for fno in (f1, 1, None, 2, 0):
                        _for_image_compare(reqs, pend, case, ds1, fno, False, mtol)
                    _for_image_compare(reqs, pend, case, ds1, None, True, mtol)
            else:
                _check_outside_refused(ctx, case, frames[0][0], nfr, r)
                dsc = _describe(frames[0][0])
                for fno in list(range(-nfr, nfr + 2)) + [None]:
                    _for_image_compare(reqs, pend, case, frames[0][0], fno, False, mtol, dsc)
                _for_image_compare(reqs, pend, case, frames[0][0], 1, True, mtol, dsc)
            # the option flags of the inverse transformers are passed through
            ds_f, f_f, pos_f, sbs_f = frames[-1]
            pt = np.array([pos_f]) + 0.25 * row * pl['ps'][1]
            for flags in ({'round_output': False, 'drop_slice_index': True}, {'round_output': True}, {'round_output': False}):
                st, t = _call(sp.ReferenceToPixelTransformer.for_image, ds_f, frame_number=f_f, **flags)
                want_t = sp.ReferenceToPixelTransformer(pos_f, pl['ori'], pl['ps'], spacing_between_slices=1.0 if sbs_f is None else sbs_f, **flags)
                if st != 'ok' or not np.array_equal(t(pt), want_t(pt)):
                    ctx.fail(dict(case, cls='ReferenceToPixelTransformer', flags=flags), 'for_image ignores the option flags', site='for_image')
            st, t = _call(sp.ReferenceToImageTransformer.for_image, ds_f, frame_number=f_f, drop_slice_coord=True)
            if st != 'ok' or t(pt).shape != (1, 2):
                ctx.fail(dict(case, cls='ReferenceToImageTransformer', flags='drop_slice_coord'), 'for_image ignores drop_slice_coord', site='for_image')
            # two-image transformers built from datasets: = explicit attributes; other / missing frame of reference refused
            ds_a, f_a, pos_a, _ = frames[0]
            for cls2 in (sp.PixelToPixelTransformer, sp.ImageToImageTransformer):
                kw2 = {'round_output': False} if cls2 is sp.PixelToPixelTransformer else {}
                st, t = _call(cls2.for_images, ds_a, ds_f, frame_number_from=f_a, frame_number_to=f_f, **kw2)
                st_w, want_t = _call(cls2, pos_a, pl['ori'], pl['ps'], pos_f, pl['ori'], pl['ps'], **kw2)
                ctx.case(fn='for_images', kind=kind, outcome=st if st == 'ok' else t)
                if (st == 'ok') != (st_w == 'ok') or (st == 'ok' and not np.array_equal(t.affine, want_t.affine)):
                    ctx.fail(dict(case, cls=cls2.__name__), f'for_images ({st}) differs from explicit attributes ({st_w})', site='for_image')
                other = copy.deepcopy(ds_f)
                other.FrameOfReferenceUID = sources._uid()
                if _call(cls2.for_images, ds_a, other, frame_number_from=f_a, frame_number_to=f_f)[0] == 'ok':
                    ctx.fail(dict(case, cls=cls2.__name__), 'images in different frames of reference accepted', site='for_image')
                del other.FrameOfReferenceUID
                if _call(cls2.for_images, ds_a, other, frame_number_from=f_a, frame_number_to=f_f)[0] == 'ok':
                    ctx.fail(dict(case, cls=cls2.__name__), 'image without frame of reference accepted', site='for_image')
            # multi-frame image needs a frame number, single frame refuses others than 1
            ds0 = frames[0][0]
            st, t = _call(sp.PixelToReferenceTransformer.for_image, ds0, frame_number=None if kind != 'single' else 2)
            if st == 'ok':
                ctx.fail(dict(case, what='frame number rule'), 'accepted', site='for_image')
            continue
        # tiled slide images
        tr_, tc_ = r.randint(1, 4), r.randint(1, 4)
        trows, tcols = r.randint(1, 9), r.randint(1, 9)
        full = kind in ('full', 'full_multi')
        nth, ntw = -(-trows // tr_), -(-tcols // tc_)
        omit = []
        if not full and nth * ntw > 1 and r.random() < 0.5:
            omit = [(r.randrange(nth), r.randrange(ntw))]
        origin = (pl['pos'][0], pl['pos'][1], 0.0)
        ds, _ = sources.slide_image(trows, tcols, tr_, tc_, tiled_full=full, origin=origin, pixel_spacing=pl['ps'],
                                    orientation=pl['ori'], omit=omit)
        tiles = [(a, b) for a in range(nth) for b in range(ntw) if (a, b) not in set(omit)]
        if kind == 'full_multi':
            # TILED_FULL with ANY number of channels (optical paths / segments) and focal planes: see _tiled_multi_case
            _tiled_multi_case(ctx, reqs, pend, r, pl, case, (trows, tcols, tr_, tc_))
            continue
        st, ttot = _call(sp.PixelToReferenceTransformer.for_image, ds, for_total_pixel_matrix=True)
        ctx.case(sample=case if i % 5 == 0 else None, fn='for_image', kind=kind, outcome=st if st == 'ok' else ttot,
                 nontrivial_key=('ds', kind, 'total', pl['cls']) if st == 'ok' else None)
        if st != 'ok':
            ctx.fail(dict(case, what='total pixel matrix'), f'refused: {ttot}', site='for_image')
            continue
        if not np.array_equal(ttot.affine, sp.PixelToReferenceTransformer(list(origin), pl['ori'], pl['ps']).affine):
            ctx.fail(dict(case, what='total pixel matrix'), 'differs from explicit attributes', site='for_image')
        exact = _exact(pl)
        lim = 0.0 if exact else 1e-9 * (1 + max(abs(x) for x in pl['pos']))
        for f, (a, b) in enumerate(tiles):
            C, Rr = b * tc_ + 1, a * tr_ + 1
            st, tf = _call(sp.PixelToReferenceTransformer.for_image, ds, frame_number=f + 1)
            ctx.case(fn='for_image', kind=kind, outcome=st if st == 'ok' else tf,
                     nontrivial_key=('ds', kind, 'frame', pl['cls'], (a > 0, b > 0)) if st == 'ok' else None)
            if st != 'ok':
                ctx.fail(dict(case, frame=f + 1), f'refused: {tf}', site='for_image')
                continue
            cr = np.array([[0, 0], [tc_ - 1, tr_ - 1], [r.randint(0, tc_ - 1), r.randint(0, tr_ - 1)]])
            got = tf(cr)
            want = ttot(cr + np.array([C - 1, Rr - 1]))
            if np.abs(got - want).max() > lim:
                ctx.fail(dict(case, frame=f + 1, offset=[C, Rr], total=[trows, tcols], tile=[tr_, tc_]),
                         {'what': 'pixel (c, r) of the frame is not pixel (C-1+c, R-1+r) of the total pixel matrix',
                          'got': got.tolist(), 'want': want.tolist()}, site='frame_vs_total')
            # the other three transformers of the frame agree with explicit attributes at the frame position
            fpos = [float(x) for x in tf.affine[:3, 3]]
            for cls in tcls[1:]:
                st2, t2 = _call(cls.for_image, ds, frame_number=f + 1)
                if st2 != 'ok' or not np.array_equal(t2.affine, explicit(cls, fpos, pl['ori'], pl['ps'], None).affine):
                    ctx.fail(dict(case, cls=cls.__name__, frame=f + 1), f'{st2}: differs from explicit attributes', site='for_image')
            if full:
                reqs.append(('tilePosition', {'rows': tr_, 'cols': tc_, 'pos': RL(origin), 'ori': RL(pl['ori']), 'ps': RL(pl['ps']),
                                              'tc': b, 'tr': a}))
                pend.append((dict(case, fn='TILED_FULL frame position', frame=f + 1),
                             ('ok', {'offsets': [C, Rr], 'position': tf.affine[:3, 3]}), 0 if exact else TOL * _scale(pl)))
        # the model of _get_spatial_information / iter_tiled_full_frame_data / for_image: every frame, outside, total matrix
        mtol = TOL * 4096 * (1 + Fr(max(abs(x) for x in pl['pos'])) + (trows + tcols) * 4)
        dsc = _describe(ds)
        if tiles:
            _check_outside_refused(ctx, case, ds, len(tiles), r)
        for fno in list(range(-1, len(tiles) + 2)) + [None, -len(tiles)]:
            _for_image_compare(reqs, pend, case, ds, fno, False, mtol, dsc)
        _for_image_compare(reqs, pend, case, ds, None, True, mtol, dsc)
        # pixel-to-pixel between a frame and the total pixel matrix of the same image
        if tiles:
            f = r.randrange(len(tiles))
            a, b = tiles[f]
            st, t = _call(sp.PixelToPixelTransformer.for_images, ds, ds, frame_number_from=f + 1, for_total_pixel_matrix_to=True,
                          round_output=False)
            if st != 'ok':
                ctx.fail(dict(case, what='frame -> total pixel matrix'), f'refused: {t}', site='frame_vs_total')
            else:
                got = t(np.array([[0, 0], [1, 2]]))
                want = np.array([[b * tc_, a * tr_], [b * tc_ + 1, a * tr_ + 2]], dtype=float)
                if np.abs(got - want).max() > 1e-7:
                    ctx.fail(dict(case, what='frame -> total pixel matrix', frame=f + 1), {'got': got.tolist(), 'want': want.tolist()}, site='frame_vs_total')


# ------------------------------------------------------------------ 5.0 datasets as the model sees them
def _describe(ds):
    """the attributes `_get_spatial_information` / `iter_tiled_full_frame_data` read, as the record of Model/AffineImage.lean.  The
    coordinate system and the multi-frame test are taken from the library (not modelled: inputs of the model)."""
    from highdicom.spatial import get_image_coordinate_system
    from highdicom._module_utils import is_multiframe_image

    def rl(v):
        return [R(float(x)) for x in v]

    def groups(item):
        g = {}
        if 'PixelMeasuresSequence' in item:
            pm = item.PixelMeasuresSequence[0]
            g['measures'] = {'ps': rl(pm.PixelSpacing), 'sbs': R(float(pm.SpacingBetweenSlices)) if 'SpacingBetweenSlices' in pm else None}
        if 'PlanePositionSlideSequence' in item:
            pp = item.PlanePositionSlideSequence[0]
            g['pos_slide'] = rl([pp.XOffsetInSlideCoordinateSystem, pp.YOffsetInSlideCoordinateSystem, pp.ZOffsetInSlideCoordinateSystem])
        if 'PlanePositionSequence' in item and 'ImagePositionPatient' in item.PlanePositionSequence[0]:
            g['pos_patient'] = rl(item.PlanePositionSequence[0].ImagePositionPatient)
        if 'PlaneOrientationSequence' in item:
            g['ori_patient'] = rl(item.PlaneOrientationSequence[0].ImageOrientationPatient)
        return g
    cs = get_image_coordinate_system(ds)
    d = {'coord': None if cs is None else cs.value.lower(), 'multiframe': bool(is_multiframe_image(ds)),
         'for_uid': str(ds.FrameOfReferenceUID) if 'FrameOfReferenceUID' in ds else None}
    if 'ImagePositionPatient' in ds:
        d.update(root_pos=rl(ds.ImagePositionPatient), root_ori=rl(ds.ImageOrientationPatient), root_ps=rl(ds.PixelSpacing),
                 root_sbs=R(float(ds.SpacingBetweenSlices)) if 'SpacingBetweenSlices' in ds else None)
    if 'SharedFunctionalGroupsSequence' in ds:
        d['shared'] = groups(ds.SharedFunctionalGroupsSequence[0])
    if 'PerFrameFunctionalGroupsSequence' in ds:
        d['per_frame'] = [groups(it) for it in ds.PerFrameFunctionalGroupsSequence]
    if 'ImageOrientationSlide' in ds:
        d['ori_slide'] = rl(ds.ImageOrientationSlide)
    if 'TotalPixelMatrixOriginSequence' in ds:
        org = ds.TotalPixelMatrixOriginSequence[0]
        d['total_origin'] = {'x': R(float(org.XOffsetInSlideCoordinateSystem)), 'y': R(float(org.YOffsetInSlideCoordinateSystem)),
                             'z': R(float(org.ZOffsetInSlideCoordinateSystem)) if 'ZOffsetInSlideCoordinateSystem' in org else None}
    if ds.get('DimensionOrganizationType', '') == 'TILED_FULL':
        # the RAW attributes the number of channels is derived from (the derivation itself is in the model, regenerated from the source)
        d['tiled_full'] = {'rows': int(ds.Rows), 'cols': int(ds.Columns), 'trows': int(ds.TotalPixelMatrixRows), 'tcols': int(ds.TotalPixelMatrixColumns),
                           'sop_class': str(ds.SOPClassUID), 'segmentation_type': str(ds.SegmentationType) if 'SegmentationType' in ds else None,
                           'segments': len(ds.SegmentSequence) if 'SegmentSequence' in ds else 0,
                           'declared_paths': int(ds.NumberOfOpticalPaths) if 'NumberOfOpticalPaths' in ds else None,
                           'path_items': len(ds.OpticalPathSequence) if 'OpticalPathSequence' in ds else 0,
                           'planes': int(ds.TotalPixelMatrixFocalPlanes) if 'TotalPixelMatrixFocalPlanes' in ds else None}
    return d


def _for_image_compare(reqs, pend, case, ds, frame, total, tol, desc=None):
    """`_get_spatial_information` and the four for_image constructors of the implementation against the model, on one request"""
    from highdicom import spatial as sp
    impl = {}
    st, info = _call(sp._get_spatial_information, ds, frame_number=frame, for_total_pixel_matrix=total)
    impl['info'] = (st, {'pos': [float(x) for x in info[0]], 'ori': [float(x) for x in info[1]], 'ps': [float(x) for x in info[2]],
                         'sbs': None if info[3] is None else float(info[3])} if st == 'ok' else info)
    for name, cls in zip(('p2r', 'r2p', 'i2r', 'r2i'), _tcls()):
        st, t = _call(cls.for_image, ds, frame_number=frame, for_total_pixel_matrix=total)
        impl[name] = (st, {'m': t.affine[:3, :3], 't': t.affine[:3, 3]} if st == 'ok' else t)
    reqs.append(('forImage', {'ds': desc if desc is not None else _describe(ds), 'frame': frame, 'total': total}))
    pend.append((dict(case, fn='for_image vs model', frame=frame, total=total, multi=True), impl, tol))


def _check_outside_refused(ctx, case, ds, nframes, r):
    """a 1-based frame number outside 1 … n names no frame: every for_image / for_images constructor refuses it (0 and negative numbers
    must not be answered with a frame counted from the end)"""
    from highdicom import spatial as sp
    for fno in (0, -1, -nframes, -nframes + 1, nframes + 1, nframes + r.randint(2, 9)):
        if 1 <= fno <= nframes:
            continue
        for cls in _tcls():
            st, t = _call(cls.for_image, ds, frame_number=fno)
            ctx.case(fn='for_image', kind='frame_number_outside', outcome=st if st == 'ok' else t)
            if st == 'ok':
                ctx.fail(dict(case, cls=cls.__name__, frame=fno, frames=nframes),
                         {'what': 'a frame number outside 1 … n is answered with a transformer', 'origin': t.affine[:3, 3].tolist()}, site='frame_number')
                return False
        for cls2 in (sp.PixelToPixelTransformer, sp.ImageToImageTransformer):
            for kw in ({'frame_number_from': fno, 'frame_number_to': 1}, {'frame_number_from': 1, 'frame_number_to': fno}):
                if _call(cls2.for_images, ds, ds, **kw)[0] == 'ok':
                    ctx.fail(dict(case, cls=cls2.__name__, frames=nframes, **kw), 'a frame number outside 1 … n is accepted by for_images', site='frame_number')
                    return False
    return True


def _for_images_compare(reqs, pend, case, ds_f, ds_t, frame_f, frame_t, total_f, total_t, tol, desc_f=None, desc_t=None):
    """PixelToPixelTransformer.for_images / ImageToImageTransformer.for_images (same frame of reference) against the model"""
    from highdicom import spatial as sp
    impl = {}
    for name, cls, kw in (('p2p', sp.PixelToPixelTransformer, {'round_output': False}), ('i2i', sp.ImageToImageTransformer, {})):
        st, t = _call(cls.for_images, ds_f, ds_t, frame_number_from=frame_f, frame_number_to=frame_t, for_total_pixel_matrix_from=total_f,
                      for_total_pixel_matrix_to=total_t, **kw)
        impl[name] = (st, {'m': t.affine[:3, :3], 't': t.affine[:3, 3]} if st == 'ok' else t)
    reqs.append(('forImages', {'ds_f': desc_f if desc_f is not None else _describe(ds_f), 'ds_t': desc_t if desc_t is not None else _describe(ds_t),
                               'frame_f': frame_f, 'frame_t': frame_t, 'total_f': total_f, 'total_t': total_t}))
    pend.append((dict(case, fn='for_images vs model', frames=[frame_f, frame_t], total=[total_f, total_t], multi=True), impl, tol))


def _coord_input(ds):
    """what get_image_coordinate_system looks at, read off the dataset independently of it"""
    present = [kw for kw in ('FrameOfReferenceUID', 'ImageOrientationSlide', 'ImageCenterPointCoordinatesSequence', 'ImagePositionPatient',
                             'SharedFunctionalGroupsSequence', 'PerFrameFunctionalGroupsSequence') if kw in ds]
    first, empty = [], []
    for kw in ('SharedFunctionalGroupsSequence', 'PerFrameFunctionalGroupsSequence'):
        if kw not in ds:
            continue
        if not len(ds[kw].value):
            empty.append(kw)
        elif 'PlanePositionSequence' in ds[kw].value[0]:
            if not len(ds[kw].value[0].PlanePositionSequence):
                empty.append(kw)
            elif 'ImagePositionPatient' in ds[kw].value[0].PlanePositionSequence[0]:
                first.append(kw)
    return {'present': present, 'first_item': first, 'empty': empty}


def _coord_cases(ctx, reqs, pend):
    """PATIENT vs SLIDE: get_image_coordinate_system on every image kind of the generators and on variants with attributes removed
    / added (no frame of reference, slide markers on a patient image, positions only in the shared / only in the per-frame groups,
    no position at all).  Oracle from the construction; model = `imageCoordinateSystem` over the regenerated marker lists."""
    import copy
    from pydicom import Dataset
    from pydicom.sequence import Sequence as DSeq
    from highdicom import spatial as sp
    from gen import sources
    for i in range(ctx.n(120, 300)):
        r = ctx.rng('coord', i)
        pl = _plane(r)
        kind = ['single', 'perframe', 'shared', 'sparse', 'full', 'nofor'][i % 6]
        if kind == 'single':
            ds, want = sources.ct_series(1, 2, 3, orientation=pl['ori'], origin=pl['pos'], pixel_spacing=pl['ps'])[0], 'PATIENT'
        elif kind in ('perframe', 'shared'):
            ds, want = sources.enhanced_multiframe(2, 2, 3, orientation=pl['ori'], origin=pl['pos'], pixel_spacing=pl['ps']), 'PATIENT'
            if kind == 'shared':
                ds.SharedFunctionalGroupsSequence[0].PlanePositionSequence = ds.PerFrameFunctionalGroupsSequence[0].PlanePositionSequence
                for it in ds.PerFrameFunctionalGroupsSequence:
                    del it.PlanePositionSequence
        elif kind in ('sparse', 'full'):
            ds, _ = sources.slide_image(4, 4, 2, 2, tiled_full=(kind == 'full'), origin=(pl['pos'][0], pl['pos'][1], 0.0), pixel_spacing=pl['ps'],
                                        orientation=pl['ori'])
            want = 'SLIDE'
        else:
            ds, want = sources.single_image_no_for(3, 4), None
        edit = r.choice(['none', 'none', 'drop_for', 'add_slide_marker', 'add_center_point', 'drop_positions', 'position_in_second_frame_only',
                         'drop_slide_orientation', 'add_root_position', 'empty_shared_groups', 'empty_plane_position',
                         'position_missing_in_second_frame'])
        ds = copy.deepcopy(ds)
        if edit == 'drop_for' and 'FrameOfReferenceUID' in ds:
            del ds.FrameOfReferenceUID
            want = None
        elif edit == 'add_slide_marker' and want is not None:
            ds.ImageOrientationSlide = [0.0, -1.0, 0.0, -1.0, 0.0, 0.0]
            want = 'SLIDE'
        elif edit == 'add_center_point' and want is not None:
            ds.ImageCenterPointCoordinatesSequence = DSeq([Dataset()])
            want = 'SLIDE'
        elif edit == 'drop_positions' and want == 'PATIENT':
            if 'ImagePositionPatient' in ds:
                del ds.ImagePositionPatient
            for kw in ('SharedFunctionalGroupsSequence', 'PerFrameFunctionalGroupsSequence'):
                for it in (ds[kw].value if kw in ds else []):
                    if 'PlanePositionSequence' in it:
                        del it.PlanePositionSequence
            want = None
        elif edit == 'position_in_second_frame_only' and kind == 'perframe':
            del ds.PerFrameFunctionalGroupsSequence[0].PlanePositionSequence      # only the FIRST item is looked at
            want = None
        elif edit == 'position_missing_in_second_frame' and kind == 'perframe':
            del ds.PerFrameFunctionalGroupsSequence[1].PlanePositionSequence      # non-conformant the other way round: still PATIENT
        elif edit == 'drop_slide_orientation' and want == 'SLIDE':
            del ds.ImageOrientationSlide
            want = None
        elif edit == 'empty_shared_groups' and kind in ('perframe', 'shared'):
            ds.SharedFunctionalGroupsSequence = DSeq([])                           # `fgs[0]` of an empty sequence: IndexError
            want = 'index'
        elif edit == 'empty_plane_position' and kind == 'perframe':
            ds.PerFrameFunctionalGroupsSequence[0].PlanePositionSequence = DSeq([])
            want = 'index'
        elif edit == 'add_root_position' and want == 'SLIDE':
            ds.ImagePositionPatient = [1.0, 2.0, 3.0]                              # slide markers win
        st, got = _call(sp.get_image_coordinate_system, ds)
        gv = None if (st != 'ok' or got is None) else got.value
        case = {'fn': 'get_image_coordinate_system', 'kind': kind, 'edit': edit, 'kind_matters': True}
        ctx.case(fn='coordinate_system', kind=kind, edit=edit, outcome=str(gv) if st == 'ok' else got,
                 nontrivial_key=('coord', kind, edit, gv))
        if (got if st != 'ok' else gv) != want:
            ctx.fail(case, {'got': gv if st == 'ok' else got, 'want': want}, site='coordinate_system')
        reqs.append(('coordSystem', _coord_input(ds)))
        pend.append((case, (st, (None if gv is None else gv.lower()) if st == 'ok' else got), 0))
        # the EXCLUDED, non-conformant images (per-frame items that disagree about the position group; ASSUMPTIONS): never a transformer
        # with another frame's geometry - frames without a position are refused, frames with one get their own
        if kind == 'perframe' and edit == 'position_missing_in_second_frame':
            for cls in _tcls():
                st1, t1 = _call(cls.for_image, ds, frame_number=1)
                st2, t2 = _call(cls.for_image, ds, frame_number=2)
                if st1 != 'ok' or st2 == 'ok':
                    ctx.fail(dict(case, cls=cls.__name__), f'frame with position: {st1}; frame without position: {st2}', site='coordinate_system')
            _for_image_compare(reqs, pend, case, ds, 1, False, TOL * 4096 * (1 + Fr(max(abs(x) for x in pl['pos']))))
            _for_image_compare(reqs, pend, case, ds, 2, False, TOL * 4096 * (1 + Fr(max(abs(x) for x in pl['pos']))))
        # images without a coordinate system have no transformers
        if want is None:
            for cls in _tcls():
                if _call(cls.for_image, ds, frame_number=1 if 'NumberOfFrames' in ds else None)[0] == 'ok':
                    ctx.fail(dict(case, cls=cls.__name__), 'a transformer is built for an image without coordinate system', site='coordinate_system')


# ------------------------------------------------------------------ 5.1 two DIFFERENT images of one frame of reference
def _cross_cases(ctx, reqs, pend):
    """for_images between two different datasets that share a frame of reference: two enhanced multi-frame stacks over the same
    planes (other in-plane origin, other pixel spacing, other number of frames) and two levels of a slide pyramid (TILED_FULL, other
    tile size and spacing) - every combination of frame / total pixel matrix on both sides, both directions, both classes.  Oracle: the
    transformer equals the explicit constructor on the attributes known from the construction of EACH side; refused iff the two
    planes are different slices.  (A from / to mix-up that is invisible when both sides are the same dataset shows here.)"""
    import copy
    from highdicom import spatial as sp
    from gen import sources
    for i in range(ctx.n(60, 200)):
        r = ctx.rng('cross', i)
        pl = _plane(r)
        row, col = np.array(pl['ori'][:3]), np.array(pl['ori'][3:])
        nrm = np.cross(row, col)
        kind = ['stacks', 'pyramid', 'seg_over_slide'][i % 3]
        sides = []
        if kind == 'seg_over_slide':
            # a TILED_FULL segmentation (1-3 segments, other tile size) over a TILED_FULL slide image (1-3 optical paths) with the same total
            # pixel matrix: frames of any channel of one side against frames of any channel of the other
            trows, tcols = r.randint(2, 6), r.randint(2, 6)
            for side in range(2):
                geo = (trows, tcols, r.randint(1, 3), r.randint(1, 3))
                t = _tiled_truth(r, pl, geo, flavour=r.choice(['wsi', 'wsi_nocount']) if side == 0 else r.choice(['seg_binary', 'seg_fractional', 'seg_labelmap']))
                t.update(z=None, zsp=None, npl=1)
                ds, _ = sources.slide_image(trows, tcols, geo[2], geo[3], tiled_full=True, origin=(t['x'], t['y'], 0.0), pixel_spacing=t['ps'],
                                            orientation=t['ori'])
                _apply_tiled_truth(ds, t)
                frames = [(None, True, [t['x'], t['y'], 0.0], 0)]
                for f in range(int(ds.NumberOfFrames)):
                    frames.append((f + 1, False, [float(x) for x in _tiled_frame(t, f)[4]], 0))
                sides.append((ds, t['ps'], frames))
        elif kind == 'stacks':
            sl = _spacing(r)
            for side in range(2):
                nfr = r.randint(2, 4)
                first = r.randint(0, 2)                       # the stack starts at this slice of the common grid
                du, dv = (_dy(r, -40, 40), _dy(r, -40, 40)) if side else (0.0, 0.0)
                ps = [_spacing(r), _spacing(r)] if side else pl['ps']
                org = np.array(pl['pos']) + du * row + dv * col + first * sl * nrm
                ds = sources.enhanced_multiframe(nfr, 2, 3, orientation=pl['ori'], origin=[float(x) for x in org], pixel_spacing=ps, slice_spacing=sl)
                frames = [(f + 1, False, [float(x) for x in org + f * sl * nrm], first + f) for f in range(nfr)]
                sides.append((ds, ps, frames))
        else:
            for side in range(2):
                tr_, tc_ = r.randint(1, 3), r.randint(1, 3)
                scale = 1 if side == 0 else r.choice([2, 4])
                ps = [pl['ps'][0] * scale, pl['ps'][1] * scale]
                trows, tcols = r.randint(2, 6), r.randint(2, 6)
                ds, _ = sources.slide_image(trows, tcols, tr_, tc_, tiled_full=True, origin=(pl['pos'][0], pl['pos'][1], 0.0), pixel_spacing=ps,
                                            orientation=pl['ori'])
                ntw = -(-tcols // tc_)
                org = np.array([pl['pos'][0], pl['pos'][1], 0.0])
                frames = [(None, True, [float(x) for x in org], 0)]
                for f in range(int(ds.NumberOfFrames)):
                    a, b = divmod(f, ntw)
                    frames.append((f + 1, False, [float(x) for x in org + b * tc_ * ps[1] * row + a * tr_ * ps[0] * col], 0))
                sides.append((ds, ps, frames))
        sides[1][0].FrameOfReferenceUID = sides[0][0].FrameOfReferenceUID
        descs = [_describe(sides[0][0]), _describe(sides[1][0])]
        case = {'fn': 'for_images', 'kind': 'cross_' + kind, 'plane': pl}
        tol = TOL * 2 ** 24 * (1 + Fr(max(abs(x) for x in pl['pos'])))
        for trial in range(4):
            a_i = r.randrange(2)
            (ds_f, ps_f, fr_f), (ds_t, ps_t, fr_t) = sides[a_i], sides[1 - a_i]
            fno_f, tot_f, pos_f, slice_f = r.choice(fr_f)
            fno_t, tot_t, pos_t, slice_t = r.choice(fr_t)
            for cls2, kw in ((sp.PixelToPixelTransformer, {'round_output': False}), (sp.ImageToImageTransformer, {})):
                st, t = _call(cls2.for_images, ds_f, ds_t, frame_number_from=fno_f, frame_number_to=fno_t, for_total_pixel_matrix_from=tot_f,
                              for_total_pixel_matrix_to=tot_t, **kw)
                st_w, want = _call(cls2, pos_f, pl['ori'], ps_f, pos_t, pl['ori'], ps_t, **kw)
                ctx.case(fn='for_images', kind='cross_' + kind, same_slice=slice_f == slice_t, outcome=st if st == 'ok' else t,
                         nontrivial_key=('cross', kind, cls2.__name__, slice_f == slice_t, tot_f, tot_t))
                fcase = dict(case, cls=cls2.__name__, frame_from=fno_f, frame_to=fno_t, total_from=tot_f, total_to=tot_t, direction=a_i)
                if (st == 'ok') != (slice_f == slice_t):
                    ctx.fail(fcase, f'{"different" if slice_f != slice_t else "the same"} slices: {st} {t if st != "ok" else ""}', site='for_images')
                elif st == 'ok' and (st_w != 'ok' or np.abs(t.affine - want.affine).max() > 1e-7 * (1 + np.abs(want.affine).max())):
                    ctx.fail(fcase, {'what': 'for_images differs from the constructor on the attributes of the two sides',
                                     'got': t.affine.tolist(), 'want': want.affine.tolist() if st_w == 'ok' else want}, site='for_images')
            _for_images_compare(reqs, pend, case, ds_f, ds_t, fno_f, fno_t, tot_f, tot_t, tol, descs[a_i], descs[1 - a_i])
            if trial == 0:
                # another frame of reference / none at all on one side: refused, in code and model
                other = copy.deepcopy(ds_t)
                if r.random() < 0.5:
                    other.FrameOfReferenceUID = sources._uid()
                else:
                    del other.FrameOfReferenceUID
                for cls2 in (sp.PixelToPixelTransformer, sp.ImageToImageTransformer):
                    if _call(cls2.for_images, ds_f, other, frame_number_from=fno_f, frame_number_to=fno_t, for_total_pixel_matrix_from=tot_f,
                             for_total_pixel_matrix_to=tot_t)[0] == 'ok':
                        ctx.fail(dict(case, cls=cls2.__name__, what='no common frame of reference'), 'accepted', site='for_images')
                _for_images_compare(reqs, pend, dict(case, what='no common frame of reference'), ds_f, other, fno_f, fno_t, tot_f, tot_t, tol, descs[a_i])


# ------------------------------------------------------------------ 5a. TILED_FULL images in general form
SEG_UID = '1.2.840.10008.5.1.4.1.1.66.4'
LABELMAP_UID = '1.2.840.10008.5.1.4.1.1.66.7'
WSI_UID = '1.2.840.10008.5.1.4.1.1.77.1.6'
TILED_FLAVOURS = ['wsi', 'wsi', 'wsi_nocount', 'seg_binary', 'seg_fractional', 'seg_labelmap', 'seg_labelmap']


def _tcls():
    from highdicom import spatial as sp
    return [sp.PixelToReferenceTransformer, sp.ReferenceToPixelTransformer, sp.ImageToReferenceTransformer,
            sp.ReferenceToImageTransformer]


def _explicit(cls, pos, ori, ps, sbs):
    """the transformer of that class from explicit attributes; the inverse ones take the declared slice spacing (1.0 if none)"""
    from highdicom import spatial as sp
    if cls in (sp.ReferenceToPixelTransformer, sp.ReferenceToImageTransformer):
        return cls(pos, ori, ps, spacing_between_slices=1.0 if sbs is None else sbs)
    return cls(pos, ori, ps)


def _tiled_truth(r, pl, geo, flavour=None):
    """geometry of a TILED_FULL image in general form: any number of channels (optical paths of a slide image - declared by
    NumberOfOpticalPaths or only by the length of OpticalPathSequence -, segments of a BINARY / FRACTIONAL segmentation, the
    single channel of a LABELMAP), any number of focal planes (attribute absent = 1), z origin and slice spacing present or not"""
    trows, tcols, tr_, tc_ = geo
    return {'x': pl['pos'][0], 'y': pl['pos'][1], 'z': r.choice([None, None, 0.0, _dy(r, -20, 20)]),
            'ori': list(pl['ori']), 'ps': list(pl['ps']), 'cls': pl['cls'], 'zsp': r.choice([None, _spacing(r), _spacing(r)]),
            'trows': trows, 'tcols': tcols, 'tr': tr_, 'tc': tc_, 'nch': r.choice([1, 2, 2, 3]), 'npl': r.choice([1, 1, 2, 3]),
            'flavour': flavour or r.choice(TILED_FLAVOURS), 'planes_attr': r.random() < 0.7}


def _tiled_counts(t):
    nth, ntw = -(-t['trows'] // t['tr']), -(-t['tcols'] // t['tc'])
    return nth, ntw, (1 if t['flavour'] == 'seg_labelmap' else t['nch']), t['npl']


def _apply_tiled_truth(ds, t):
    """write the geometry `t` into the TILED_FULL dataset IN PLACE: every attribute the implicit frame positions depend on"""
    from pydicom import Dataset
    from pydicom.sequence import Sequence as DSeq

    def put(item, kw, val):
        if val is None:
            if kw in item:
                delattr(item, kw)
        else:
            setattr(item, kw, val)
    org = ds.TotalPixelMatrixOriginSequence[0]
    org.XOffsetInSlideCoordinateSystem = t['x']
    org.YOffsetInSlideCoordinateSystem = t['y']
    put(org, 'ZOffsetInSlideCoordinateSystem', t['z'])
    ds.ImageOrientationSlide = list(t['ori'])
    pm = ds.SharedFunctionalGroupsSequence[0].PixelMeasuresSequence[0]
    pm.PixelSpacing = list(t['ps'])
    put(pm, 'SpacingBetweenSlices', t['zsp'])
    ds.Rows, ds.Columns = t['tr'], t['tc']
    ds.TotalPixelMatrixRows, ds.TotalPixelMatrixColumns = t['trows'], t['tcols']
    nth, ntw, nch, npl = _tiled_counts(t)
    put(ds, 'TotalPixelMatrixFocalPlanes', None if (npl == 1 and not t['planes_attr']) else npl)
    fl = t['flavour']
    if fl.startswith('seg'):
        ds.SOPClassUID = LABELMAP_UID if fl == 'seg_labelmap' else SEG_UID
        ds.SegmentationType = {'seg_binary': 'BINARY', 'seg_fractional': 'FRACTIONAL', 'seg_labelmap': 'LABELMAP'}[fl]
        segs = []
        for k in range(t['nch']):
            it = Dataset()
            it.SegmentNumber = k + 1
            it.SegmentLabel = f's{k + 1}'
            segs.append(it)
        ds.SegmentSequence = DSeq(segs)
    else:
        ops = []
        for k in range(t['nch']):
            it = Dataset()
            it.OpticalPathIdentifier = str(k + 1)
            ops.append(it)
        ds.OpticalPathSequence = DSeq(ops)
        put(ds, 'NumberOfOpticalPaths', None if fl == 'wsi_nocount' else t['nch'])
    ds.NumberOfFrames = nch * npl * nth * ntw


def _tiled_frame(t, f):
    """what frame f (0-based) of the TILED_FULL image is, from the construction: (channel, focal plane, tile row, tile column,
    position): channels are the outer loop, then focal planes, then the tiles row by row; focal plane k lies (k - 1) x
    SpacingBetweenSlices (1.0 if absent) above the z origin (0.0 if absent) ALONG z OF THE SLIDE"""
    nth, ntw, nch, npl = _tiled_counts(t)
    ch, rem = divmod(f, npl * nth * ntw)
    plane, tl = divmod(rem, nth * ntw)
    a, b = divmod(tl, ntw)
    row, col = np.array(t['ori'][:3]), np.array(t['ori'][3:])
    zsp = 1.0 if t['zsp'] is None else t['zsp']
    z0 = 0.0 if t['z'] is None else t['z']
    pos = np.array([t['x'], t['y'], z0 + plane * zsp]) + b * t['tc'] * t['ps'][1] * row + a * t['tr'] * t['ps'][0] * col
    return ch, plane, a, b, pos


def _pick_frames(r, t, k=10):
    """frame numbers (0-based) to ask for: the first and last frame, the first and last frame of every channel and focal plane,
    a few others; in shuffled order"""
    nth, ntw, nch, npl = _tiled_counts(t)
    ntile = nth * ntw
    n = nch * npl * ntile
    pick = {0, n - 1}
    for c in range(nch):
        for p in range(npl):
            pick.add((c * npl + p) * ntile)
            pick.add((c * npl + p) * ntile + ntile - 1)
    pick = sorted(pick)
    if len(pick) > k:
        pick = [0, n - 1] + r.sample(pick[1:-1], k - 2)
    pick = list(pick) + [r.randrange(n) for _ in range(3)]
    pick = list(dict.fromkeys(pick))
    r.shuffle(pick)
    return pick


def _check_tiled_frames(ctx, case, ds, t, r, frames, site, classes=None):
    """TILED_FULL oracle for the given frames: every for_image transformer = explicit attributes at the frame's position from the
    construction; frame (C, R) pixel (c, r) = total pixel matrix pixel (C-1+c, R-1+r) lifted by the focal plane; frame -> total
    pixel matrix pixel-to-pixel / image-to-image is the shift by (C-1, R-1) when the frame lies in the plane of the total pixel
    matrix and refused when it lies off it; the same tile in another channel is the same plane.  Returns False on the first failure."""
    from highdicom import spatial as sp
    tcls = classes or _tcls()
    ori, ps = t['ori'], t['ps']
    row, col = np.array(ori[:3]), np.array(ori[3:])
    nrm = np.cross(row, col)
    zsp = 1.0 if t['zsp'] is None else t['zsp']
    z0 = 0.0 if t['z'] is None else t['z']
    origin = [t['x'], t['y'], z0]
    nth, ntw, nch, npl = _tiled_counts(t)
    ntile = nth * ntw
    lim = 1e-9 * (1 + max(abs(v) for v in origin) + (t['trows'] + t['tcols']) * max(ps) + npl * zsp)
    st, ttot = _call(sp.PixelToReferenceTransformer.for_image, ds, for_total_pixel_matrix=True)
    if st != 'ok' or not np.array_equal(ttot.affine, sp.PixelToReferenceTransformer(origin, ori, ps).affine):
        ctx.fail(dict(case, what='total pixel matrix'), f'{st}: differs from the current attributes', site=site)
        return False
    for cls in tcls:
        st, tt = _call(cls.for_image, ds, for_total_pixel_matrix=True)
        if st != 'ok' or not np.array_equal(tt.affine, _explicit(cls, origin, ori, ps, t['zsp']).affine):
            ctx.fail(dict(case, what='total pixel matrix', cls=cls.__name__), f'{st}: differs from the current attributes', site=site)
            return False
    for f in frames:
        ch, plane, a, b, pos = _tiled_frame(t, f)
        C, Rr = b * t['tc'] + 1, a * t['tr'] + 1
        fcase = dict(case, frame=f + 1, channel=ch + 1, focal_plane=plane + 1, offset=[C, Rr])
        for cls in tcls:
            st, tfm = _call(cls.for_image, ds, frame_number=f + 1)
            want = _explicit(cls, [float(x) for x in pos], ori, ps, t['zsp']).affine
            ctx.case(fn='for_image', kind='tiled_full', outcome=st if st == 'ok' else tfm)
            if st != 'ok' or np.abs(tfm.affine - want).max() > lim * 16:
                ctx.fail(dict(fcase, cls=cls.__name__),
                         {'what': 'frame transformer does not follow the current attributes of the dataset',
                          'got': tfm.affine.tolist() if st == 'ok' else tfm, 'want': want.tolist()}, site=site)
                return False
        st, tf = _call(sp.PixelToReferenceTransformer.for_image, ds, frame_number=f + 1)
        cr = np.array([[0, 0], [t['tc'] - 1, t['tr'] - 1], [r.randint(0, t['tc'] - 1), r.randint(0, t['tr'] - 1)]])
        off = np.array([C - 1, Rr - 1])
        want = ttot(cr + off) + np.array([0.0, 0.0, plane * zsp])
        if st != 'ok' or np.abs(tf(cr) - want).max() > lim:
            ctx.fail(fcase, {'what': 'pixel (c, r) of the frame is not pixel (C-1+c, R-1+r) of the total pixel matrix (lifted by the focal plane)',
                             'got': tf(cr).tolist() if st == 'ok' else tf, 'want': want.tolist()}, site='frame_vs_total')
            return False
        dist = plane * zsp * float(nrm[2])      # signed distance of the frame's plane from the total pixel matrix
        st2, t2 = _call(sp.PixelToPixelTransformer.for_images, ds, ds, frame_number_from=f + 1, for_total_pixel_matrix_to=True,
                        round_output=False)
        st3, t3 = _call(sp.ImageToImageTransformer.for_images, ds, ds, frame_number_from=f + 1, for_total_pixel_matrix_to=True)
        if abs(dist) < 2.5e-6:
            # in the plane of the total pixel matrix; displaced WITHIN it when the slide's z axis lies in the image plane
            shift = np.linalg.solve(np.column_stack([row * ps[1], col * ps[0], nrm]), np.array([0.0, 0.0, plane * zsp]))[:2]
            ok = st2 == 'ok' and st3 == 'ok' and np.abs(t2(cr) - (cr + off + shift)).max() < 1e-6 \
                and np.abs(t3(cr + 0.25) - (cr + off + shift + 0.25)).max() < 1e-6
            if not ok:
                ctx.fail(fcase, {'what': 'frame -> total pixel matrix is not the shift by (C-1, R-1)', 'status': [st2, st3]}, site='frame_vs_total')
                return False
            # ... and the opposite direction, total pixel matrix -> frame, is the opposite shift (both two-image classes)
            st6, t6 = _call(sp.PixelToPixelTransformer.for_images, ds, ds, for_total_pixel_matrix_from=True, frame_number_to=f + 1, round_output=False)
            st7, t7 = _call(sp.ImageToImageTransformer.for_images, ds, ds, for_total_pixel_matrix_from=True, frame_number_to=f + 1)
            if not (st6 == 'ok' and st7 == 'ok' and np.abs(t6(cr + off) - (cr - shift)).max() < 1e-6
                    and np.abs(t7(cr + off + 0.25) - (cr - shift + 0.25)).max() < 1e-6):
                ctx.fail(fcase, {'what': 'total pixel matrix -> frame is not the shift by -(C-1, R-1)', 'status': [st6, st7]}, site='frame_vs_total')
                return False
            if plane == 0:
                st4, back = _call(lambda: sp.ReferenceToPixelTransformer.for_image(ds, frame_number=f + 1, drop_slice_index=True)(ttot(cr + off)))
                if st4 != 'ok' or not np.array_equal(back, cr):
                    ctx.fail(fcase, {'what': 'reference -> pixel of the frame does not return the frame indices',
                                     'got': back.tolist() if st4 == 'ok' else back}, site='frame_vs_total')
                    return False
        elif abs(dist) > 4e-5 and (st2 == 'ok' or st3 == 'ok'):
            ctx.fail(fcase, {'what': 'a focal plane off the total pixel matrix is accepted as coplanar with it', 'distance': dist}, site='coplanar')
            return False
        if nch > 1:
            f2 = (f + npl * ntile) % (nch * npl * ntile)
            st5, t5 = _call(sp.PixelToPixelTransformer.for_images, ds, ds, frame_number_from=f + 1, frame_number_to=f2 + 1, round_output=False)
            if st5 != 'ok' or np.abs(t5(cr) - cr).max() > 1e-6:
                ctx.fail(dict(fcase, other_frame=f2 + 1), {'what': 'the same tile in another channel is not the same pixels', 'status': st5}, site='frame_vs_total')
                return False
    return True


def _tiled_multi_case(ctx, reqs, pend, r, pl, case, geo):
    import io
    import pydicom
    from highdicom import spatial as sp
    from gen import sources
    from gen.images import to_bytes
    t = _tiled_truth(r, pl, geo)
    ds, _ = sources.slide_image(t['trows'], t['tcols'], t['tr'], t['tc'], tiled_full=True, origin=(t['x'], t['y'], 0.0),
                                pixel_spacing=t['ps'], orientation=t['ori'])
    _apply_tiled_truth(ds, t)
    variant = 'memory'
    if r.random() < 0.3:
        # after a bytes round trip: the file holds the numbers rounded to DS strings, the truth is what the file holds
        st_b, back = _call(lambda d: pydicom.dcmread(io.BytesIO(to_bytes(d))), ds)
        if st_b == 'ok':
            ds, variant = back, 'bytes'
            org = ds.TotalPixelMatrixOriginSequence[0]
            pm = ds.SharedFunctionalGroupsSequence[0].PixelMeasuresSequence[0]
            t = dict(t, x=float(org.XOffsetInSlideCoordinateSystem), y=float(org.YOffsetInSlideCoordinateSystem),
                     z=None if t['z'] is None else float(org.ZOffsetInSlideCoordinateSystem),
                     ori=[float(v) for v in ds.ImageOrientationSlide], ps=[float(v) for v in pm.PixelSpacing],
                     zsp=None if t['zsp'] is None else float(pm.SpacingBetweenSlices))
    nth, ntw, nch, npl = _tiled_counts(t)
    n = nch * npl * nth * ntw
    frames = _pick_frames(r, t)
    case = dict(case, tiled=dict(t), variant=variant)
    ok = _check_tiled_frames(ctx, case, ds, t, r, frames, 'for_image')
    ctx.case(sample=case if r.random() < 0.1 else None, fn='for_image', kind='full_multi', flavour=t['flavour'], channels=nch, planes=npl,
             z_origin='absent' if t['z'] is None else 'given', slice_spacing='absent' if t['zsp'] is None else 'given', variant=variant,
             nontrivial_key=('ds', 'full_multi', t['flavour'], min(nch, 2), min(npl, 2), t['cls']) if ok else None)
    # frame numbers outside the image are refused
    _check_outside_refused(ctx, case, ds, n, r)
    for bad_f in (0, n + 1, n + 1 + r.randint(1, 50)):
        st, tf = _call(sp.PixelToReferenceTransformer.for_image, ds, frame_number=bad_f)
        if st == 'ok':
            ctx.fail(dict(case, frame=bad_f, frames=n), 'a frame number outside the image is accepted', site='for_image')
    # the model of _get_spatial_information / iter_tiled_full_frame_data / for_image on the same frames, one outside, frame 0, the
    # total pixel matrix and a missing frame number
    exact = t['cls'] == 'axis' and variant == 'memory' and all(Fr(s).denominator <= 1024 for s in t['ps'])
    tol = TOL * 4096 * (1 + Fr(max(abs(t['x']), abs(t['y']), abs(t['z'] or 0.0))) + (t['trows'] + t['tcols']) * 4)
    desc = _describe(ds)
    for f in frames[:5] + [n, -1]:
        _for_image_compare(reqs, pend, case, ds, f + 1, False, tol, desc)
    _for_image_compare(reqs, pend, case, ds, None, True, tol, desc)
    _for_image_compare(reqs, pend, case, ds, None, False, tol, desc)
    if r.random() < 0.2:
        # the same attributes under a SOP class iter_tiled_full_frame_data does not accept (Enhanced CT): frames refused, in code and model
        import copy
        other = copy.deepcopy(ds)
        other.SOPClassUID = '1.2.840.10008.5.1.4.1.1.2.1'
        st_o, _o = _call(sp.PixelToReferenceTransformer.for_image, other, frame_number=1)
        if st_o == 'ok':
            ctx.fail(dict(case, what='TILED_FULL frame of an image that is neither a slide image nor a segmentation'), 'accepted', site='for_image')
        _for_image_compare(reqs, pend, dict(case, sop_class='enhanced ct'), other, 1, False, tol)
    # two-image constructors: frame -> total pixel matrix, total -> frame, frame -> the same tile in the next channel / focal plane.
    # Compared only where the coplanarity decision is far from its tolerance (planes exactly coplanar or a slice apart).
    nrm_z = float(np.cross(np.array(t['ori'][:3]), np.array(t['ori'][3:]))[2])
    zsp_eff = 1.0 if t['zsp'] is None else t['zsp']
    ptol = tol * 4096
    for f in frames[:3]:
        ch, plane, a, b, pos = _tiled_frame(t, f)
        if abs(plane * zsp_eff * nrm_z) < 1e-9 or abs(plane * zsp_eff * nrm_z) > 1e-3:
            _for_images_compare(reqs, pend, case, ds, ds, f + 1, None, False, True, ptol, desc, desc)
            _for_images_compare(reqs, pend, case, ds, ds, None, f + 1, True, False, ptol, desc, desc)
        f2 = (f + nth * ntw) % n
        d2 = (_tiled_frame(t, f2)[1] - plane) * zsp_eff * nrm_z
        if abs(d2) < 1e-9 or abs(d2) > 1e-3:
            _for_images_compare(reqs, pend, case, ds, ds, f + 1, f2 + 1, False, False, ptol, desc, desc)


# ------------------------------------------------------------------ 5b. histories: transformers depend only on the CURRENT attributes
def _history_cases(ctx, reqs=None, pend=None):
    """No hidden state, in general form.  An image (TILED_FULL with any channels / focal planes, TILED_SPARSE, enhanced multi-frame,
    a series of single frames) goes through a HISTORY of steps; before the first and after every step some or all of its
    for_image / for_images transformers are requested (frames in shuffled order, sometimes only a few, sometimes after a request
    that is refused), and every answer must follow the attributes of the dataset AS IT IS NOW.  Steps: edit the geometry IN
    PLACE (origin incl. z, orientation, pixel spacing, slice spacing, tile size, number of channels / focal planes), edit a
    deepcopy that keeps the SOP Instance UID (a corrected copy), build a new synthetic dataset reusing the UID, or go BACK to
    an earlier version that is still in memory."""
    import copy
    from highdicom import spatial as sp
    from gen import sources
    n = ctx.n(85, 340)
    tcls = _tcls()

    def plain_truth(r, pl, kind):
        return {'pos': list(pl['pos']), 'ori': list(pl['ori']), 'ps': list(pl['ps']), 'cls': pl['cls'], 'sl': _spacing(r),
                'nfr': r.randint(1, 3)}

    def frame_pos(t, f):
        nrm = np.cross(np.array(t['ori'][:3]), np.array(t['ori'][3:]))
        return [float(x) for x in np.array(t['pos']) + f * t['sl'] * nrm]

    def sparse_tiles(t):
        nth, ntw = -(-t['trows'] // t['tr']), -(-t['tcols'] // t['tc'])
        return [(a, b) for a in range(nth) for b in range(ntw)]

    def apply_plain(kind, obj, t):
        """IN PLACE edit of a series of single frames / an enhanced multi-frame image / a TILED_SPARSE image"""
        if kind == 'single':
            for f, d in enumerate(obj):
                d.ImagePositionPatient = frame_pos(t, f)
                d.ImageOrientationPatient = list(t['ori'])
                d.PixelSpacing = list(t['ps'])
        elif kind == 'perframe':
            sh = obj.SharedFunctionalGroupsSequence[0]
            sh.PlaneOrientationSequence[0].ImageOrientationPatient = list(t['ori'])
            sh.PixelMeasuresSequence[0].PixelSpacing = list(t['ps'])
            sh.PixelMeasuresSequence[0].SpacingBetweenSlices = abs(t['sl'])
            for f, it in enumerate(obj.PerFrameFunctionalGroupsSequence):
                it.PlanePositionSequence[0].ImagePositionPatient = frame_pos(t, f)
        else:
            org = obj.TotalPixelMatrixOriginSequence[0]
            org.XOffsetInSlideCoordinateSystem, org.YOffsetInSlideCoordinateSystem = t['x'], t['y']
            obj.ImageOrientationSlide = list(t['ori'])
            obj.SharedFunctionalGroupsSequence[0].PixelMeasuresSequence[0].PixelSpacing = list(t['ps'])
            row, col = np.array(t['ori'][:3]), np.array(t['ori'][3:])
            for (a, b), it in zip(sparse_tiles(t), obj.PerFrameFunctionalGroupsSequence):
                p = np.array([t['x'], t['y'], 0.0]) + b * t['tc'] * t['ps'][1] * row + a * t['tr'] * t['ps'][0] * col
                pp = it.PlanePositionSlideSequence[0]
                pp.XOffsetInSlideCoordinateSystem, pp.YOffsetInSlideCoordinateSystem, pp.ZOffsetInSlideCoordinateSystem = (float(v) for v in p)

    def build(kind, t, uids):
        if kind in ('full', 'sparse'):
            ds, _ = sources.slide_image(t['trows'], t['tcols'], t['tr'], t['tc'], tiled_full=(kind == 'full'), origin=(t['x'], t['y'], 0.0),
                                        pixel_spacing=t['ps'], orientation=t['ori'])
            if kind == 'full':
                _apply_tiled_truth(ds, t)
            if uids:
                ds.SOPInstanceUID = uids[0]
                ds.file_meta.MediaStorageSOPInstanceUID = uids[0]
            return ds, [str(ds.SOPInstanceUID)]
        if kind == 'single':
            dss = sources.ct_series(t['nfr'], 2, 3, orientation=t['ori'], origin=t['pos'], pixel_spacing=t['ps'], slice_spacing=t['sl'])
            for d, u in zip(dss, uids or []):
                d.SOPInstanceUID = u
            return dss, [str(d.SOPInstanceUID) for d in dss]
        ds = sources.enhanced_multiframe(t['nfr'], 2, 3, orientation=t['ori'], origin=t['pos'], pixel_spacing=t['ps'], slice_spacing=t['sl'])
        if uids:
            ds.SOPInstanceUID = uids[0]
        return ds, [str(ds.SOPInstanceUID)]

    def verify(case, kind, obj, t, r, plan):
        if plan == 'refused_first':
            # a request that is refused must leave nothing behind
            if kind == 'full':
                bad = _call(sp.PixelToReferenceTransformer.for_image, obj, frame_number=int(obj.NumberOfFrames) + 1)
            elif kind == 'sparse':
                bad = _call(sp.PixelToReferenceTransformer.for_image, obj, frame_number=None)
            elif kind == 'perframe':
                bad = (_call(sp.PixelToReferenceTransformer.for_image, obj, for_total_pixel_matrix=True) if r.random() < 0.5
                       else _call(sp.PixelToReferenceTransformer.for_image, obj, frame_number=r.choice([0, -1, t['nfr'] + 1])))
            else:
                bad = _call(sp.PixelToReferenceTransformer.for_image, obj[0], frame_number=2)
            if bad[0] == 'ok':
                ctx.fail(dict(case, what='invalid request'), 'accepted', site='history')
        some = plan in ('some', 'refused_first')
        classes = tcls if not some else r.sample(tcls, r.randint(1, 4))
        if kind == 'full':
            frames = _pick_frames(r, t, k=8)
            if some:
                frames = frames[:r.randint(1, 3)]
            return _check_tiled_frames(ctx, case, obj, t, r, frames, 'history', classes=classes)
        if kind == 'sparse':
            row, col = np.array(t['ori'][:3]), np.array(t['ori'][3:])
            origin = [t['x'], t['y'], 0.0]
            lim = 1e-9 * (1 + max(abs(t['x']), abs(t['y'])) + (t['trows'] + t['tcols']) * max(t['ps']))
            st, ttot = _call(sp.PixelToReferenceTransformer.for_image, obj, for_total_pixel_matrix=True)
            if st != 'ok' or not np.array_equal(ttot.affine, sp.PixelToReferenceTransformer(origin, t['ori'], t['ps']).affine):
                ctx.fail(dict(case, what='total pixel matrix'), f'{st}: differs from the current attributes', site='history')
                return False
            tiles = list(enumerate(sparse_tiles(t)))
            r.shuffle(tiles)
            for f, (a, b) in (tiles[:r.randint(1, 3)] if some else tiles[:12]):
                C, Rr = b * t['tc'] + 1, a * t['tr'] + 1
                fpos = np.array(origin) + (C - 1) * t['ps'][1] * row + (Rr - 1) * t['ps'][0] * col
                for cls in classes:
                    st, tf = _call(cls.for_image, obj, frame_number=f + 1)
                    ctx.case(fn='history', kind=kind, outcome=st if st == 'ok' else tf)
                    want = _explicit(cls, [float(x) for x in fpos], t['ori'], t['ps'], None).affine
                    if st != 'ok' or np.abs(tf.affine - want).max() > lim * 16:
                        ctx.fail(dict(case, cls=cls.__name__, frame=f + 1, offset=[C, Rr]),
                                 {'what': 'frame transformer does not follow the current attributes of the dataset',
                                  'got': tf.affine.tolist() if st == 'ok' else tf, 'want': want.tolist()}, site='history')
                        return False
                st, tf = _call(sp.PixelToReferenceTransformer.for_image, obj, frame_number=f + 1)
                cr = np.array([[0, 0], [t['tc'] - 1, t['tr'] - 1]])
                if st != 'ok' or np.abs(tf(cr) - ttot(cr + np.array([C - 1, Rr - 1]))).max() > lim:
                    ctx.fail(dict(case, frame=f + 1, offset=[C, Rr]),
                             {'what': 'pixel (c, r) of the frame is not pixel (C-1+c, R-1+r) of the total pixel matrix'}, site='frame_vs_total')
                    return False
                st, t2 = _call(sp.PixelToPixelTransformer.for_images, obj, obj, frame_number_from=f + 1, for_total_pixel_matrix_to=True,
                               round_output=False)
                if st != 'ok' or np.abs(t2(np.array([[0, 0]])) - np.array([[C - 1, Rr - 1]], dtype=float)).max() > 1e-6:
                    ctx.fail(dict(case, frame=f + 1, offset=[C, Rr]), {'what': 'frame -> total pixel matrix mapping', 'status': st}, site='frame_vs_total')
                    return False
            return True
        lim = 1e-9 * (1 + max(abs(x) for x in t['pos']) + 4 * abs(t['sl']))
        order = list(range(t['nfr']))
        r.shuffle(order)
        for f in (order[:1] if some else order):
            d, fn = (obj[f], None) if kind == 'single' else (obj, f + 1)
            for cls in classes:
                st, tf = _call(cls.for_image, d, frame_number=fn)
                ctx.case(fn='history', kind=kind, outcome=st if st == 'ok' else tf)
                want = _explicit(cls, frame_pos(t, f), t['ori'], t['ps'], None if kind == 'single' else abs(t['sl'])).affine
                if st != 'ok' or np.abs(tf.affine - want).max() > lim * 16:
                    ctx.fail(dict(case, cls=cls.__name__, frame=f + 1),
                             {'what': 'transformer does not follow the current attributes of the dataset',
                              'got': tf.affine.tolist() if st == 'ok' else tf, 'want': want.tolist()}, site='history')
                    return False
        if t['nfr'] > 1:
            # two frames of a stack: parallel planes one slice apart are not coplanar, a frame with itself is the identity
            d0, f0 = (obj[0], None) if kind == 'single' else (obj, 1)
            d1, f1 = (obj[1], None) if kind == 'single' else (obj, 2)
            st, t2 = _call(sp.PixelToPixelTransformer.for_images, d0, d1, frame_number_from=f0, frame_number_to=f1)
            if st == 'ok':
                ctx.fail(dict(case, what='two slices of a stack'), 'accepted as coplanar', site='coplanar')
                return False
        return True

    def edit(kind, t, what, r, mode):
        """the new geometry after changing `what`"""
        pl2 = _plane(r)
        t2 = dict(t)
        tiled = kind in ('full', 'sparse')
        if what in ('origin', 'all'):
            if tiled:
                t2.update(x=pl2['pos'][0], y=pl2['pos'][1])
                if kind == 'full':
                    t2['z'] = r.choice([None, 0.0, _dy(r, -20, 20), _dy(r, -20, 20)])
            else:
                t2['pos'] = list(pl2['pos'])
        if what in ('orientation', 'all'):
            t2.update(ori=list(pl2['ori']), cls=pl2['cls'])
        if what in ('spacing', 'all'):
            t2['ps'] = list(pl2['ps'])
        if what in ('zstack', 'all'):
            if kind == 'full':
                t2.update(zsp=r.choice([None, _spacing(r), _spacing(r)]), npl=r.choice([1, 2, 3]))
            elif not tiled:
                t2['sl'] = _spacing(r)
        if what in ('tiles', 'all') and (kind == 'full' or (kind == 'sparse' and mode == 'regenerate')):
            t2.update(tr=r.randint(1, 3), tc=r.randint(1, 3))
        if what in ('channels', 'all') and kind == 'full':
            t2['nch'] = r.choice([1, 2, 3])
        return t2

    for i in range(n):
        r = ctx.rng('hist', i)
        kind = ['full', 'full', 'sparse', 'perframe', 'single', 'full'][i % 6]
        pl = _plane(r)
        if kind in ('full', 'sparse'):
            geo = (r.randint(2, 7), r.randint(2, 7), r.randint(1, 3), r.randint(1, 3))
            t = _tiled_truth(r, pl, geo)
            if kind == 'sparse':
                t.update(z=None, zsp=None, nch=1, npl=1, flavour='wsi')
        else:
            t = plain_truth(r, pl, kind)
        obj, uids = build(kind, t, [])
        versions = [[obj, t]]
        cur = 0
        case = {'fn': 'history', 'kind': kind, 'i': i, 'steps': []}
        verify(dict(case, step=0), kind, obj, t, r, r.choice(['all', 'some']))
        for step in range(1, 4):
            mode = r.choice(['inplace', 'inplace', 'deepcopy', 'regenerate', 'revisit'])
            what = r.choice(['origin', 'origin', 'orientation', 'spacing', 'zstack', 'tiles', 'channels', 'all'])
            obj, t = versions[cur]
            if mode == 'revisit':
                cur = r.randrange(len(versions))
                obj, t = versions[cur]
                what = 'nothing'
            else:
                t2 = edit(kind, t, what, r, mode)
                if mode == 'regenerate':
                    obj, _ = build(kind, t2, uids)
                    versions.append([obj, t2])
                    cur = len(versions) - 1
                else:
                    if mode == 'deepcopy':
                        obj = copy.deepcopy(obj)
                        versions.append([obj, t2])
                        cur = len(versions) - 1
                    else:
                        versions[cur][1] = t2
                    if kind == 'full':
                        _apply_tiled_truth(obj, t2)
                    else:
                        apply_plain(kind, obj, t2)
                t = t2
            plan = r.choice(['all', 'some', 'some', 'refused_first'])
            case['steps'].append([mode, what, plan])
            ctx.case(fn='history', kind=kind, edit=what, mode=mode, plan=plan, nontrivial_key=('hist', kind, mode, what))
            if not verify(dict(case, step=step, geometry={k: v for k, v in t.items()}), kind, obj, t, r, plan):
                break

# ------------------------------------------------------------------ run
def _compare(ctx, reqs, pend):
    answers = ctx.model(reqs)
    if answers is None:
        return
    for (case, impl, tol), ans in zip(pend, answers):
        layer = case.get('layer', 'L0')
        if 'proto_err' in ans:
            ctx.disagree(layer, case, impl, ans, 'model protocol error')
            continue
        if case.get('multi'):
            # several results of one request: {name: (status, value)} against {name: value | {'error': kind}}
            model = ans.get('ok', {})
            for name, (st, val) in impl.items():
                m = model.get(name)
                m_ok = not (isinstance(m, dict) and 'error' in m)
                if (st == 'ok') != m_ok:
                    ctx.disagree(layer, dict(case, part=name), (st, val), m, 'ok-vs-error')
                elif st == 'ok' and not _cmp(val, m, tol):
                    ctx.disagree(layer, dict(case, part=name), (st, val), m, 'value')
                elif st != 'ok' and m.get('error') != val:
                    ctx.disagree(layer, dict(case, part=name), (st, val), m, 'error kind')
            continue
        if (impl[0] == 'ok') != ('ok' in ans):
            ctx.disagree(layer, case, impl, ans, 'ok-vs-error')
            continue
        if impl[0] != 'ok':
            if case.get('kind_matters') and ans.get('err') != impl[1]:
                ctx.disagree(layer, case, impl, ans, 'error kind')
            continue
        model = ans['ok']
        if case.get('partial'):
            model = {k: v for k, v in model.items() if k in impl[1]}
        if not _cmp(impl[1], model, tol):
            ctx.disagree(layer, case, impl, ans, 'value')


def run(ctx):
    _CTX[0] = ctx
    reqs, pend = [], []
    _affine_cases(ctx, reqs, pend)
    _transformer_cases(ctx, reqs, pend)
    _batch_cases(ctx, reqs, pend)
    _pair_cases(ctx, reqs, pend)
    _letters_cases(ctx, reqs, pend)
    _components_cases(ctx, reqs, pend)
    _volume_attr_cases(ctx)
    _dataset_cases(ctx, reqs, pend)
    _coord_cases(ctx, reqs, pend)
    _cross_cases(ctx, reqs, pend)
    _history_cases(ctx)
    _compare(ctx, reqs, pend)


def replay(ctx, case):
    """Re-run the generator stream the case came from and return the failures that mention the same function."""
    sub = type(ctx)(ctx.prop, ctx.tier, ctx.seed, 1, ctx.driver)
    sub.model_available = False
    fn = case.get('fn', '') if isinstance(case, dict) else ''
    streams = [_affine_cases, _transformer_cases, _batch_cases, _pair_cases, _letters_cases, _components_cases, _dataset_cases, _coord_cases, _cross_cases]
    for s in streams:
        s(sub, [], [])
    _volume_attr_cases(sub)
    _history_cases(sub)
    hits = [f for f in sub.failures if isinstance(f['case'], dict) and f['case'].get('fn', '') == fn]
    return (hits or sub.failures)[:3] or None
