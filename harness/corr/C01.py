"""C01  Segmentation masks survive encode, write and read unchanged.

Oracle (independent of the model): the expectation is computed from the *input mask* by a few lines of
numpy / `fractions` (indicator of the segment, `round_half_even(q * mfv)` for fractional input) and compared
with what `get_pixels_by_source_instance` / `get_pixels_by_source_frame` return for the source ids in the
order supplied -- from the object in memory, after `save_as` -> `segread` (eager) and after
`segread(lazy_frame_retrieval=True)`; the input array must be left untouched; masks the constructor must
refuse (undescribed label, non-binary stacked integers, floats outside [0, 1] ...) must be refused.

Tie T: T20 (frame-loop guard, carry arithmetic, flush, pad, admission of max_fractional_value in
`Segmentation.__init__`), T21 (the cast / round / scale statements of the three cast-carrying helpers, pinned),
T8 (`_get_unsigned_dtype`: LABELMAP bit depth), T1, T4, T12 (read side).
Tie C: the model (Model/SegEncode.lean) is run on the same masks:
  L0  model read-back (`roundtrip`) vs the implementation's read-back, ok-vs-refused of the constructor;
  L1  NumberOfFrames, the multiset of (segment, plane, pixels) seen through pydicom's `pixel_array` of the
      written file and the per-frame functional groups, and the raw `PixelData` bytes (native syntaxes) vs the
      model's frames packed in the implementation's own frame order;
  L2  the loop order, and the private helpers `_check_and_cast_pixel_array`, `_get_segment_pixel_array`.
"""
from __future__ import annotations

import io
import json
import os
from fractions import Fraction

import numpy as np

PROP = 'C01'
TARGETS = ['T20', 'T21', 'T22', 'T23', 'T24', 'T25', 'T26']
# consumed, owned elsewhere: T8 (C02: _get_unsigned_dtype), T1 / T1b / T4 / T12 (C05: frame number, byte range, bit slice),
# T6 (C04) / T7b (C12) (get_tile_array bounds, tile counts).  Regenerated so that C01's proofs speak about the current source;
# a selector of theirs that breaks is their owner's alarm (evidence: stages.foreign_targets_broken), not a C01 violation.
FOREIGN_TARGETS = ['T8', 'T1', 'T1b', 'T4', 'T12', 'T6', 'T7b']
LEAN_MODULES = ['HdVerif.Props.C01']
MODEL_MODULES = ['HdVerif.Model.SegEncode', 'HdVerif.Model.SegFrames']
NAMESPACE = 'HdVerif.C01'
DRIVER = 'Drivers/C01.lean'
RULE = ('one case = one Segmentation built from a generated (source kind and geometry, planes, rows, cols, plane order, type, '
        'layout, dtype, memory layout of the array, segment numbers, max fractional value, fractional type, omit_empty_frames, '
        'empty-plane pattern, transfer syntax, workers) and read back by source instance / source frame in the supplied order '
        '(+ a sub-permutation with a repeated source) on the access paths memory / eager / lazy / real files / cached '
        'pixel_array / from_dataset / pickle / deepcopy / re-encapsulated with an empty basic or an extended offset table, and through '
        'the other entry points (get_stored_frame, pixel_array, by dimension index values, get_volume); stream `tiled`: masks of '
        'tiled slide images (total pixel matrix or one array per source frame; own tile size; TILED_FULL / TILED_SPARSE; sources '
        'listing their tiles in any order or lacking some; pyramids with one mask per level) read back as total pixel matrix, '
        'region, by source frame and frame by frame; stream `many`: 255..300 described segments of every type; plus an '
        'exhaustive 1 x n frame-size grid with long carry chains and tiny arrays through the two static helpers; '
        'non-trivial = accepted mask with at least one non-empty and (when planes > 1) one differing '
        'plane, distinct by (type, layout, dtype, rows*cols mod 8, rows*cols < 8, planes, segments, omit, empties, syntax, '
        'source kind, path)')
ASSUMPTIONS = [
    'a mask is its logical content: the model sees planes in row-major order whatever the memory layout of the numpy array '
    '(the code flattens with flatten(); pinned by T20 and exercised with non-contiguous / Fortran / strided / read-only arrays)',
    'fractional inputs are dyadic rationals k/2^j, random float32/float64 values and values within 2 ulps of a tie; the model is '
    'fed the float product x * max_fractional_value taken by NumPy (as an exact rational), the oracle accepts either neighbour '
    'only within float error of a tie; NaN is excluded',
    'plane order (DimensionIndexSequence.get_index_values) is a parameter of the model: theorems hold for every order; '
    'the geometry that produces it belongs to C03/C11 (tiled masks: the raster order of compute_tile_positions_per_frame, '
    'bridged to C04\'s regenerated definitions)',
    'codecs (RLE, JPEG-LS) are parameters with the law decode(encode x) = x, exercised here on every encapsulated case; '
    'JPEG 2000 Lossless cannot be exercised (no openjpeg in this environment)',
    'the 2-D -> 3-D lift (pixel_array[np.newaxis]) and numpy dtype casts of in-range values are taken as given',
    'tiled masks: the model cuts the matrix first and casts the tiles, the code casts the matrix and cuts then (the checks are per '
    'pixel, padding adds background only); both are run on every `tiled` case (L0/L1)',
    'DimensionIndexValues of slide-coordinate (tiled) objects -- one index per coordinate, computed with np.where over the unique '
    'values -- are not in the model: the oracle of the `tiled` stream checks them (first value = segment number, strictly increasing '
    'along the frames); the model covers stacks of planes in a frame of reference and single images without one',
    'sources of the tiled stream have one optical path and one focal plane; pyramids are built from one source image with one mask '
    'per level (down-sampled levels are resampled by Pillow: not an exact round trip, left to C03)',
]
MODELLED_NOT_VERIFIED = ['numpy casting / unique / setdiff1d / around', 'pydicom Dataset, encapsulate, file writer/reader, pack_bits',
                         'RLE / JPEG-LS codecs', 'SQLite join of the frame LUT (modelled as a list comprehension)',
                         'concurrent.futures pool (only order-independent collection is proved)',
                         'offset tables of encapsulated PixelData (a frame is a fragment in the model; tables: C05)',
                         'get_volume / get_total_pixel_matrix assembly (oracle here; theorems: C03 / C04)']

DTYPES = ['bool', 'uint8', 'uint16', 'float32', 'float64']
NATIVE = ('Explicit VR Little Endian', 'Implicit VR Little Endian')


# ------------------------------------------------------------------------------------------- generation
def gen_case(ctx, idx, stream='case'):
    """All parameters of case `idx` -- a pure function of (seed, stream, idx)."""
    r = ctx.rng(stream, idx)
    c = {'idx': idx, 'stream': stream, 'seed': ctx.seed, 'tier': ctx.tier}
    c['source'] = r.choice(['series', 'series', 'series', 'enhanced', 'enhanced', 'single'])
    if c['source'] == 'single':
        c['planes'] = 1
    else:
        c['planes'] = r.choice([1, 2, 2, 3, 3, 3, 4, 4, 5, 5, 6, 6, 6, r.choice([11, 13])])      # a tail beyond 9 (two-digit frame numbers)
    u = r.random()
    if u < 0.45:
        c['rows'], c['cols'] = r.randint(1, 3), r.randint(1, 4)         # many frames with < 8 pixels
    elif u < 0.85:
        c['rows'], c['cols'] = r.randint(1, 9), r.randint(1, 9)
    else:
        c['rows'], c['cols'] = r.randint(1, 40), r.randint(1, 40)
    perm = list(range(c['planes']))
    if r.random() < 0.5:
        r.shuffle(perm)
    c['src_order'] = perm                   # list position -> slice index along the normal
    # type x dtype x layout are stratified (every triple once per 40 consecutive indices, BINARY twice), the rest is drawn
    k = (idx + ctx.rng('rotation', 0).randrange(40)) % 40
    c['type'] = ['BINARY', 'FRACTIONAL', 'LABELMAP', 'BINARY'][k % 4]
    c['dtype'] = DTYPES[(k // 4) % 5]
    isfloat = c['dtype'].startswith('float')
    c['layout'] = ['3d', '4d'][(k // 20) % 2]
    if c['planes'] == 1 and c['layout'] == '3d' and r.random() < 0.4:
        c['layout'] = '2d'
    nseg = r.choice([1, 1, 2, 2, 3, 4, 5])
    if isfloat and c['layout'] != '4d' and not (c['type'] != 'LABELMAP' and r.random() < 0.1):
        nseg = 1                            # a 3-D float array is a single segment by definition (10 %: several
        #                                     descriptions anyway -- BINARY: label-map meaning, segment 1 only;
        #                                     FRACTIONAL: must be refused, a 4-D array is required -- fix d437594)
    if c['type'] == 'LABELMAP' and r.random() < 0.6:
        pool = [1, 2, 3, 5, 8, 13, 40, 100, 254, 255, 256, 257, 300, 511, 700, 4097, 65535]
        segs = sorted(r.sample(pool, nseg))
        if isfloat and c['layout'] != '4d' and segs[0] != 1 and r.random() < 0.8:
            segs[0] = 1         # (the remaining 20 %: label 1 undescribed, must be refused -- fix f08a76b)
    else:
        segs = list(range(1, nseg + 1))
    c['segs'] = segs
    if c['dtype'] == 'uint8' and c['layout'] != '4d':
        c['segs'] = segs = [s for s in segs if s < 256] or [1]
    if c['dtype'] == 'bool' and c['layout'] != '4d':
        # a bool 3-D mask can only address label 1; further described segments must come back empty
        if 1 not in segs or r.random() < 0.7:
            segs = [1]
        else:
            segs = [1] + [s_ for s_ in segs if s_ != 1][:2]
        c['segs'] = segs = sorted(set(segs))
    c['mfv'] = r.choice([1, 2, 100, 255, 255, 255, 256, 7, 0, 3])
    c['omit'] = r.random() < 0.6
    c['empty'] = r.choice(['none', 'none', 'some_planes', 'some_seg_planes', 'all', 'one_pixel', 'tiny'])
    # fractions: dyadic k/1024 (+ exact ties), or non-dyadic values within a few ulps of a tie (k + 1/2) / mfv
    c['fractions'] = r.choice(['dyadic', 'dyadic', 'near_tie', 'random'])
    c['density'] = r.choice([0.2, 0.5, 0.8])
    if c['type'] == 'BINARY':
        c['ts'] = r.choice(NATIVE)
    else:
        c['ts'] = r.choice(list(NATIVE) + ['RLE Lossless', 'JPEG-LS Lossless Image Compression'])
    if c['ts'].startswith('JPEG-LS') and (c['rows'] < 8 or c['cols'] < 8):
        c['rows'], c['cols'] = c['rows'] + 7, c['cols'] + 7       # pyjpegls cannot encode tiny frames
    c['workers'] = 0
    if c['ts'] not in NATIVE and r.random() < 0.3:
        # the thread pool 'executor' is ONE pool shared by all cases of a run (a constructor must leave it usable)
        c['workers'] = r.choice([2, 'executor', 'executor', 'reversing', 'reversing'] + ([-1] if ctx.tier == 'thorough' else []))
    elif c['ts'] in NATIVE and r.random() < 0.02:
        c['workers'] = 'executor'          # has no effect for native syntaxes (a warning), must not change anything
    c['bad'] = None
    u = r.random()
    four = c['layout'] == '4d'
    applicable = [k for k, ok in (
        ('undescribed', not four and c['dtype'] in ('uint8', 'uint16')),
        ('nonbinary4d', four and c['dtype'] in ('uint8', 'uint16')),
        ('float_range', isfloat),
        ('float_nonbinary', isfloat and c['type'] != 'FRACTIONAL'),
        ('overlap_labelmap', four and c['type'] == 'LABELMAP' and len(c['segs']) > 1),
        ('channels', four),
        ('dtype', not isfloat and c['dtype'] != 'bool')) if ok]
    if u < 0.15 and applicable:
        c['bad'] = r.choice(applicable)
    c['read_perm_seed'] = r.randrange(1 << 30)
    # memory layout of the user's array: the same values behind different strides / flags
    c['mem'] = ['C', 'F', 'T', 'C', 'neg', 'strided', 'C', 'readonly', 'slice4', 'T', 'C'][(idx // 40 + idx) % 11]
    # geometry of the sources (the mask must stay attached to the right source whatever the stacking direction)
    c['orientation'] = r.choice([[1, 0, 0, 0, 1, 0]] * 3 + [[0, 1, 0, 0, 0, -1], [1, 0, 0, 0, 0, -1], [-1, 0, 0, 0, 1, 0],
                                                            [0, 1, 0, 1, 0, 0], [0.6, 0.8, 0, -0.8, 0.6, 0]])
    c['spacing'] = r.choice([1.0, 1.0, 2.5, 0.5, -1.0])
    c['fractional_type'] = r.choice(['PROBABILITY', 'OCCUPANCY'])
    c['ts_as_str'] = r.random() < 0.3
    c['ctor_spelling'] = r.choice(['plain', 'plain', 'enums', 'numpy', 'tuples'])
    # LABELMAP with a palette colour LUT (PhotometricInterpretation PALETTE COLOR): the labels must still read back
    c['palette'] = c['type'] == 'LABELMAP' and max(c['segs']) <= 4097 and r.random() < 0.3
    return c


def build_mask(c):
    """The user's pixel_array for case c (regenerated from the case's own PRNG)."""
    import hd_env
    if c.get('explicit') is not None:
        # an explicitly given array (escalated L2 disagreements, hand-written corpus cases)
        dt = {'bool': np.bool_, 'uint8': np.uint8, 'uint16': np.uint16, 'float32': np.float32, 'float64': np.float64}[c['dtype']]
        return np.array(c['explicit'], dtype=dt), None
    nr = hd_env.np_rng(PROP, c.get('stream', 'case') + '/pix', c['seed'], c['idx'])
    P, R, C, segs = c['planes'], c['rows'], c['cols'], c['segs']
    S = len(segs)
    isfloat = c['dtype'].startswith('float')
    dt = {'bool': np.bool_, 'uint8': np.uint8, 'uint16': np.uint16, 'float32': np.float32, 'float64': np.float64}[c['dtype']]
    fractional_values = isfloat and c['type'] == 'FRACTIONAL'
    if c['layout'] == '4d':
        if fractional_values:
            m = nr.integers(0, 1025, size=(P, R, C, S)) / 1024.0
            m[nr.random((P, R, C, S)) < 0.3] = 0.5
            m[nr.random((P, R, C, S)) > c['density']] = 0.0
        else:
            if c['type'] == 'LABELMAP' or nr.random() < 0.5:
                lab = nr.integers(0, S + 1, size=(P, R, C))
                lab[nr.random((P, R, C)) > c['density']] = 0
                m = np.stack([(lab == i + 1) for i in range(S)], axis=-1).astype(np.int64)
            else:
                m = (nr.random((P, R, C, S)) < c['density']).astype(np.int64)
    else:
        if fractional_values:
            m = nr.integers(0, 1025, size=(P, R, C)) / 1024.0
            m[nr.random((P, R, C)) < 0.3] = 0.5
            m[nr.random((P, R, C)) > c['density']] = 0.0
        elif isfloat or c['dtype'] == 'bool':
            m = (nr.random((P, R, C)) < c['density']).astype(np.int64)
        else:
            m = np.array(segs, dtype=np.int64)[nr.integers(0, S, size=(P, R, C))]
            m[nr.random((P, R, C)) > c['density']] = 0
    if fractional_values and c.get('fractions', 'dyadic') != 'dyadic' and c['mfv'] > 1:
        shape = m.shape
        if c['fractions'] == 'random':
            vals = nr.random(shape)
        else:
            # the float nearest to a tie (k + 1/2) / mfv, k >= 1, moved by -2..2 ulps (k = 0 would move emptiness)
            k = nr.integers(1, max(c['mfv'], 2), size=shape)
            vals = ((k + 0.5) / c['mfv']).astype(dt)
            for _ in range(2):
                step = nr.integers(-1, 2, size=shape)
                vals = np.where(step > 0, np.nextafter(vals, dt(2)), np.where(step < 0, np.nextafter(vals, dt(-1)), vals))
            vals = np.clip(vals, 0, 1)
        m = np.where(m != 0, vals, 0.0)
    # emptiness patterns
    e = c['empty']
    if e == 'all':
        m[...] = 0
    elif e == 'some_planes' and P > 1:
        for p in range(P):
            if nr.random() < 0.5:
                m[p] = 0
    elif e == 'some_seg_planes':
        for p in range(P):
            for s in range(S):
                if nr.random() < 0.5:
                    if c['layout'] == '4d':
                        m[p, ..., s] = 0
                    elif not isfloat and c['dtype'] != 'bool':
                        m[p][m[p] == segs[s]] = 0
    elif e == 'one_pixel':
        v = m.reshape(-1)[0] if m.reshape(-1)[0] != 0 else (0.5 if fractional_values else (1 if (c['layout'] == '4d' or isfloat or c['dtype'] == 'bool') else segs[-1]))
        m[...] = 0
        m.reshape(-1)[int(nr.integers(0, m.size))] = v
    elif e == 'tiny' and fractional_values:
        # fractions that quantise to zero: everywhere, or in some planes only
        tiny = m * (0.4375 / max(c['mfv'], 1))
        if nr.random() < 0.5:
            m = tiny
        else:
            for p in range(P):
                if nr.random() < 0.6:
                    m[p] = tiny[p]
    # malformed variants (the constructor must refuse these)
    b = c['bad']
    applied = None
    if b == 'undescribed' and c['layout'] != '4d' and not isfloat and c['dtype'] != 'bool':
        free = [v for v in range(1, max(segs) + 3) if v not in segs and v < (256 if c['dtype'] == 'uint8' else 65536)]
        if free:
            m.reshape(-1)[int(nr.integers(0, m.size))] = free[int(nr.integers(0, len(free)))]
            applied = b
    elif b == 'nonbinary4d' and c['layout'] == '4d' and c['dtype'] in ('uint8', 'uint16'):
        m.reshape(-1)[int(nr.integers(0, m.size))] = int(nr.integers(2, 5))
        applied = b
    elif b == 'float_range' and isfloat:
        m = m.astype(np.float64)
        m.reshape(-1)[int(nr.integers(0, m.size))] = [1.5, -0.25, 1.0009765625][int(nr.integers(0, 3))]
        applied = b
    elif b == 'float_nonbinary' and isfloat and c['type'] != 'FRACTIONAL':
        m = m.astype(np.float64)
        m.reshape(-1)[int(nr.integers(0, m.size))] = 0.5
        applied = b
    elif b == 'overlap_labelmap' and c['layout'] == '4d' and c['type'] == 'LABELMAP' and S > 1:
        i = int(nr.integers(0, P * R * C))
        m.reshape(-1, S)[i, :2] = 1
        applied = b
    elif b == 'channels' and c['layout'] == '4d':
        m = np.concatenate([m, m[..., :1]], axis=-1)
        applied = b
    m = m.astype(dt)
    if b == 'dtype' and applied is None and not isfloat and c['dtype'] != 'bool':
        m = m.astype([np.int16, np.int32, np.int64, np.uint32][int(nr.integers(0, 4))])   # not an accepted dtype
        applied = b
    if c['layout'] == '2d':
        m = m[0]
    m = _relayout(m, c.get('mem', 'C'))
    return m, applied


def _relayout(m, mem):
    """Same values, different memory layout: Fortran order, a transposed view (row stride < column stride, as
    for an (x, y, z) volume turned into (slice, row, col) with .transpose()), negative strides, a strided view into
    a larger buffer, a read-only array, a slice of an array with an extra trailing axis."""
    r_ax, c_ax = (0, 1) if m.ndim == 2 else (1, 2)
    if mem == 'F':
        out = np.asfortranarray(m)
    elif mem == 'T':
        out = np.swapaxes(np.ascontiguousarray(np.swapaxes(m, r_ax, c_ax)), r_ax, c_ax)
    elif mem == 'neg':
        out = np.flip(np.ascontiguousarray(np.flip(m, c_ax)), c_ax)
    elif mem == 'strided':
        shape = list(m.shape)
        shape[c_ax] *= 2
        big = np.ones(shape, dtype=m.dtype)
        idx = [slice(None)] * m.ndim
        idx[c_ax] = slice(0, None, 2)
        big[tuple(idx)] = m
        out = big[tuple(idx)]
    elif mem == 'readonly':
        out = m.copy()
        out.setflags(write=False)
    elif mem == 'slice4':
        big = np.ones(m.shape + (3,), dtype=m.dtype)
        big[..., 1] = m
        out = big[..., 1]
    else:
        out = m
    assert out.shape == m.shape and np.array_equal(out, m)
    return out


def near_tie_alternative(c, mask, exp):
    """Audit A, C01-2: the code rounds the *float* product x * mfv.  Where the exact product lies within float error of
    a tie k + 1/2 either neighbour may be stored: returns the array of the alternative acceptable values (= exp
    elsewhere)."""
    m = mask[None] if mask.ndim == 2 else mask
    alt = exp.copy()
    if not (m.dtype.kind == 'f' and c['type'] == 'FRACTIONAL'):
        return alt
    mfv = c['mfv']
    rel = Fraction(1, 2 ** (21 if m.dtype == np.float32 else 50))
    src = m if m.ndim == 4 else m[..., None]
    it = np.nditer(src, flags=['multi_index'])
    for x in it:
        if x == 0:
            continue
        q = Fraction(float(x)) * mfv
        fl = q.numerator // q.denominator
        d = abs(q - (fl + Fraction(1, 2)))
        if d <= q * rel:
            idx = it.multi_index
            tgt = idx if m.ndim == 4 else idx[:3] + (slice(None),)
            cur = exp[tgt]
            alt[tgt] = np.where(cur == fl, fl + 1, fl)
    return alt


def float_product_mask(c, mask):
    """What the model is fed for float FRACTIONAL input: x~ = fl(x * mfv) / mfv with the product taken by NumPy in the
    array's own float type (independently of highdicom), as exact rationals -- so the model's exact `x~ * mfv` IS the
    float product the code rounds."""
    if not (mask.dtype.kind == 'f' and c['type'] == 'FRACTIONAL' and c['mfv'] >= 1):
        return None
    prod = mask * float(c['mfv'])          # float32 array * Python float stays float32
    assert prod.dtype == mask.dtype
    return prod


def expected_raw(c, mask):
    """Independent statement of the property: stored value of every (plane, pixel, segment).  int64 array
    (P, R, C, S); fractional input rounded half-to-even on exact rationals."""
    m = mask[None] if mask.ndim == 2 else mask
    segs, mfv = c['segs'], c['mfv']
    scale = mfv if c['type'] == 'FRACTIONAL' else 1
    P, R, C = m.shape[:3]
    out = np.zeros((P, R, C, len(segs)), dtype=np.int64)
    isfloat = m.dtype.kind == 'f'
    if isfloat and c['type'] == 'FRACTIONAL':
        q = np.vectorize(lambda x: int(round(Fraction(float(x)) * mfv)), otypes=[np.int64])
        if m.ndim == 4:
            out[...] = q(m)
        else:
            out[..., 0] = q(m)
    elif m.ndim == 4:
        out[...] = (m != 0).astype(np.int64) * scale
    elif isfloat or m.dtype == np.bool_:
        # a binary 3-D mask is the single segment number 1
        for i, s in enumerate(segs):
            if s == 1:
                out[..., i] = (m != 0).astype(np.int64) * scale
    else:
        for i, s in enumerate(segs):
            out[..., i] = (m == s).astype(np.int64) * scale
    return out


def must_refuse(c, mask):
    """Independent statement of which masks are invalid (docstring of Segmentation.__init__)."""
    m = mask[None] if mask.ndim == 2 else mask
    segs = c['segs']
    if m.dtype not in (np.bool_, np.uint8, np.uint16, np.float32, np.float64):
        return 'dtype'
    if m.ndim == 4 and m.shape[-1] != len(segs):
        return 'channels'
    if m.dtype.kind == 'f':
        if m.min() < 0.0 or m.max() > 1.0:
            return 'float_range'
        if c['type'] != 'FRACTIONAL' and np.any((m > 0) & (m < 1)):
            return 'float_nonbinary'
        if c['type'] == 'LABELMAP' and m.ndim == 3 and 1 not in segs and np.any(m == 1.0):
            return 'undescribed'        # a binary 3-D mask is segment number 1, which is not described
        if c['type'] == 'FRACTIONAL' and m.ndim == 3 and len(segs) > 1:
            return 'float_several'      # a 2-D/3-D array of fractions is ONE segment (the docstring requires a 4-D array)
    elif m.ndim == 4:
        if m.max() > 1:
            return 'nonbinary4d'
    else:
        if len(np.setdiff1d(np.unique(m.astype(np.int64)), [0] + list(segs))):
            return 'undescribed'
    if c['type'] == 'LABELMAP' and m.ndim == 4 and np.any((m != 0).sum(axis=-1) > 1):
        return 'overlap_labelmap'
    return None


def build_sources(c):
    from gen.sources import ct_series, enhanced_multiframe, single_image_no_for
    geo = dict(orientation=tuple(c.get('orientation', (1, 0, 0, 0, 1, 0))), slice_spacing=c.get('spacing', 1.0))
    if c['source'] == 'series':
        src = ct_series(c['planes'], c['rows'], c['cols'], order=c['src_order'], **geo)
        ids = [('inst', s.SOPInstanceUID) for s in src]
    elif c['source'] == 'enhanced':
        e = enhanced_multiframe(c['planes'], c['rows'], c['cols'], order=c['src_order'], **geo)
        src = [e]
        ids = [('frame', i + 1) for i in range(c['planes'])]
    else:
        s = single_image_no_for(c['rows'], c['cols'])
        src = [s]
        ids = [('inst', s.SOPInstanceUID)]
    return src, ids


def _ts(name):
    from pydicom.uid import (ExplicitVRLittleEndian, ImplicitVRLittleEndian,
                             JPEGLSLossless, RLELossless)
    return {'Explicit VR Little Endian': ExplicitVRLittleEndian, 'Implicit VR Little Endian': ImplicitVRLittleEndian,
            'RLE Lossless': RLELossless, 'JPEG-LS Lossless Image Compression': JPEGLSLossless}[name]


_POOL = None


class _ReversingExecutor:
    """An Executor whose tasks *complete in the reverse of the submission order* (they are run, last first, once no
    submission has arrived for 50 ms).  Gathering results by position is unaffected; gathering them in completion
    order is not."""

    def __new__(cls):
        import threading
        from concurrent.futures import Executor, Future

        class Rev(Executor):
            def __init__(self):
                self.items, self.lock, self.timer = [], threading.Lock(), None

            def submit(self, fn, /, *a, **k):
                f = Future()
                with self.lock:
                    self.items.append((f, fn, a, k))
                    if self.timer is not None:
                        self.timer.cancel()
                    self.timer = threading.Timer(0.05, self._drain)
                    self.timer.daemon = True
                    self.timer.start()
                return f

            def _drain(self):
                with self.lock:
                    items, self.items = self.items, []
                for f, fn, a, k in reversed(items):
                    try:
                        f.set_result(fn(*a, **k))
                    except BaseException as e:  # noqa: BLE001
                        f.set_exception(e)
        return Rev()


def _executor():
    global _POOL
    if _POOL is None:
        from concurrent.futures import ThreadPoolExecutor
        _POOL = ThreadPoolExecutor(2)
    return _POOL


def construct(c, src, mask):
    import highdicom as hd
    from gen.sources import seg_description
    w = c['workers']
    if w == 'executor':
        w = _executor()
    elif w == 'reversing':
        w = _ReversingExecutor()
    extra = {}
    if c.get('palette'):
        n = max(c['segs']) + 1
        luts = []
        for k, col in enumerate(('red', 'green', 'blue')):
            data = ((np.arange(n, dtype=np.uint32) * (7919 + 13 * k) + 17 * k) % 65521).astype(np.uint16)
            data[0] = 0
            luts.append(hd.PaletteColorLUT(first_mapped_value=0, lut_data=data, color=col))
        extra['palette_color_lut_transformation'] = hd.PaletteColorLUTTransformation(
            red_lut=luts[0], green_lut=luts[1], blue_lut=luts[2], palette_color_lut_uid=hd.UID())
    typ, ftyp, mfv, descs = c['type'], c.get('fractional_type', 'PROBABILITY'), c['mfv'], [seg_description(s) for s in c['segs']]
    how = c.get('ctor_spelling', 'plain')
    if how == 'enums':
        typ = hd.seg.SegmentationTypeValues[typ]
        ftyp = hd.seg.SegmentationFractionalTypeValues[ftyp]
    elif how == 'numpy':
        mfv = np.int64(mfv)
    elif how == 'tuples':
        src, descs = tuple(src), tuple(descs)
    return hd.seg.Segmentation(
        src, mask, typ, descs, **extra,
        series_instance_uid=hd.UID(), series_number=2, sop_instance_uid=hd.UID(), instance_number=1,
        manufacturer='verif', manufacturer_model_name='m', software_versions='1', device_serial_number='1',
        max_fractional_value=mfv, fractional_type=ftyp,
        transfer_syntax_uid=(str(_ts(c['ts'])) if c.get('ts_as_str') else _ts(c['ts'])),
        omit_empty_frames=c['omit'], workers=w)


def _err_kind(e):
    return {'IndexError': 'index', 'ValueError': 'value', 'TypeError': 'type', 'RuntimeError': 'runtime',
            'KeyError': 'key', 'AttributeError': 'attribute'}.get(type(e).__name__, 'other')


FRAME_SPELLINGS = ['list', 'tuple', 'ndarray', 'ndarray-int32', 'np.int64', 'np.int32', 'np.uint16', 'np.intp', 'range']
UID_SPELLINGS = ['list', 'tuple', 'ndarray', 'list-of-UID']
SEG_SPELLINGS = [None, None, 'list', 'tuple', 'ndarray', 'np.int64', 'np.uint16']


def _spell_ints(vals, how):
    """The same integers in every spelling the API accepts."""
    vals = [int(v) for v in vals]
    if how == 'tuple':
        return tuple(vals)
    if how == 'ndarray':
        return np.array(vals)
    if how == 'ndarray-int32':
        return np.array(vals, dtype=np.int32)
    if how in ('np.int64', 'np.int32', 'np.uint16', 'np.intp'):
        t = {'np.int64': np.int64, 'np.int32': np.int32, 'np.uint16': np.uint16, 'np.intp': np.intp}[how]
        return [t(v) for v in vals]
    if how == 'range' and vals == list(range(vals[0], vals[0] + len(vals))):
        return range(vals[0], vals[0] + len(vals))
    return list(vals)


def read_back(seg, c, src, ids, order, spell=None, segspell=None, **kw):
    """Read the planes `order` (indices into the supplied source list) through the public API; `spell` / `segspell`
    choose how the frame numbers / UIDs / segment numbers are spelled (list, tuple, ndarray, NumPy scalars, range)."""
    if segspell:
        kw['segment_numbers'] = _spell_ints(c['segs'], segspell)
    if c['source'] == 'enhanced':
        return seg.get_pixels_by_source_frame(src[0].SOPInstanceUID, _spell_ints([ids[i][1] for i in order], spell or 'list'), **kw)
    uids = [ids[i][1] for i in order]
    if spell == 'tuple':
        uids = tuple(uids)
    elif spell == 'ndarray':
        uids = np.array([str(u) for u in uids])
    elif spell == 'list-of-UID':
        import highdicom as hd
        uids = [hd.UID(str(u)) for u in uids]
    else:
        uids = [str(u) for u in uids] if spell == 'list' else uids
    return seg.get_pixels_by_source_instance(uids, **kw)


def _snapshot(obj):
    """What a read must leave untouched."""
    import hashlib
    try:
        n_items = len(obj.PerFrameFunctionalGroupsSequence)
    except Exception:  # noqa: BLE001
        n_items = -1
    return (hashlib.sha1(bytes(obj.get('PixelData', b''))).hexdigest(), str(obj.NumberOfFrames), n_items,
            [int(d.SegmentNumber) for d in obj.SegmentSequence])


def frame_keys(ds, c, src, ids):
    """(segment number or None, plane index) of every stored frame, through pydicom only."""
    uid_to_plane = {v: i for i, (k, v) in enumerate(ids)} if c['source'] != 'enhanced' else None
    keys = []
    for it in ds.PerFrameFunctionalGroupsSequence:
        seg = None
        if 'SegmentIdentificationSequence' in it:
            seg = int(it.SegmentIdentificationSequence[0].ReferencedSegmentNumber)
        s = it.DerivationImageSequence[0].SourceImageSequence[0]
        if c['source'] == 'enhanced':
            plane = int(s.ReferencedFrameNumber) - 1
        else:
            plane = uid_to_plane[s.ReferencedSOPInstanceUID]
        keys.append((seg, plane))
    return keys


# ------------------------------------------------------------------------------------------- model requests
def _rat(x):
    f = Fraction(float(x))
    return str(f.numerator) if f.denominator == 1 else f'{f.numerator}/{f.denominator}'


def model_args(c, mask):
    m = mask[None] if mask.ndim == 2 else mask
    isfloat = m.dtype.kind == 'f'
    P = m.shape[0]
    if m.ndim == 4:
        flat = m.reshape(P, -1, m.shape[-1])
    else:
        flat = m.reshape(P, -1)
    prod = float_product_mask(c, m)
    if prod is not None:
        pflat = prod.reshape(flat.shape)
        mfv_ = c['mfv']

        def rat_over(x):
            f = Fraction(float(x)) / mfv_
            return str(f.numerator) if f.denominator == 1 else f'{f.numerator}/{f.denominator}'
        planes = np.vectorize(rat_over, otypes=[object])(pflat).tolist()
    elif isfloat:
        planes = np.vectorize(_rat, otypes=[object])(flat).tolist()
    else:
        planes = flat.astype(np.int64).tolist()
    # plane_sort_index as highdicom derives it for these sources: decreasing position along the slice normal
    sign = 1 if c.get('spacing', 1.0) > 0 else -1
    order = sorted(range(c['planes']), key=lambda k: -sign * c['src_order'][k])
    return {'kind': 'float' if isfloat else 'int', 'four': m.ndim == 4, 'planes': planes, 'rows': c['rows'], 'cols': c['cols'],
            'order': order,
            'type': c['type'], 'segs': c['segs'], 'mfv': c['mfv'], 'omit': c['omit'],
            'bits': (1 if c['type'] == 'BINARY' else 8 if c['type'] == 'FRACTIONAL' else (8 if max(c['segs']) < 256 else 16)),
            'native': c['ts'] in NATIVE}


# ------------------------------------------------------------------------------------------- other entry points
def _div(item):
    """DimensionIndexValues of a per-frame item as a list of ints (pydicom hands a single value back as a scalar)"""
    v = item.FrameContentSequence[0].DimensionIndexValues
    return [int(x) for x in v] if hasattr(v, '__iter__') else [int(v)]


def _source_positions(c, src):
    """ImagePositionPatient of every source plane (list order), read from the sources themselves"""
    if c['source'] == 'series':
        return [np.array([float(v) for v in s_.ImagePositionPatient]) for s_ in src]
    if c['source'] == 'enhanced':
        return [np.array([float(v) for v in it.PlanePositionSequence[0].ImagePositionPatient])
                for it in src[0].PerFrameFunctionalGroupsSequence]
    return None


def _entry_points(ctx, obj, path, c, src, ids, exp, alt, desc, hist, reqs=None, pending=None, margs=None):
    """The same stored frames through the other reading entry points: frame by frame (`get_stored_frame`, `pixel_array`),
    by dimension index values, as a volume.  Every answer is compared with the expectation computed from the input mask;
    the (segment, plane) of a frame and its dimension index are read with pydicom from the per-frame functional groups."""
    P, R, C = c['planes'], c['rows'], c['cols']
    segs = c['segs']
    case = dict(desc, path=path)

    def same(got, want, walt):
        got = np.asarray(got).astype(np.int64)
        return got.shape == want.shape and bool(np.all((got == want) | (got == walt)))

    def frame_exp(sg, p, which):
        if c['type'] == 'LABELMAP':
            lab = np.zeros((R, C), dtype=np.int64)
            for j, sn in enumerate(segs):
                lab[which[p, :, :, j] != 0] = sn
            return lab
        return which[p, :, :, segs.index(sg)]
    ctx.case(path=path + '/entry-points', **hist)
    k_of = {}
    try:
        keys = frame_keys(obj, c, src, ids)
        nf = int(obj.NumberOfFrames)
        # (1) frame by frame
        pr = np.random.default_rng([c['read_perm_seed'], 77])
        for i in sorted({0, nf - 1, int(pr.integers(0, nf))}):
            sg, p = keys[i]
            got = obj.get_stored_frame(i + 1)
            if not same(got, frame_exp(sg, p, exp), frame_exp(sg, p, alt)):
                ctx.fail(dict(case, request='get_stored_frame', frame=i + 1),
                         f'get_stored_frame({i + 1}) (segment {sg}, plane {p}) differs from the mask', site='get_stored_frame')
        if c['idx'] % 3 == 0:
            pa = np.asarray(obj.pixel_array).reshape((nf, R, C))
            want = np.stack([frame_exp(sg, p, exp) for sg, p in keys])
            walt = np.stack([frame_exp(sg, p, alt) for sg, p in keys])
            if not same(pa, want, walt):
                ctx.fail(dict(case, request='pixel_array'), 'pixel_array differs from the mask (frame by frame, per-frame keys)',
                         site='pixel_array')
    except Exception as e:  # noqa: BLE001
        ctx.fail(dict(case, request='frames'), f'frame access failed: {type(e).__name__}: {e}'[:300], site='get_stored_frame')
        return
    if c['source'] == 'single':
        return
    # (2) dimension organisation: the plane index of a frame agrees with where the plane lies, and addresses the same pixels
    try:
        ptrs = [int(d.DimensionIndexPointer) for d in obj.DimensionIndexSequence if int(d.DimensionIndexPointer) != 0x0062000B]
        divs = [_div(it) for it in obj.PerFrameFunctionalGroupsSequence]
        k_of = {}
        bad = None
        for (sg, p), dv in zip(keys, divs):
            if sg is not None and dv[0] != sg:
                bad = f'frame of segment {sg} carries segment index value {dv[0]}'
            if k_of.setdefault(p, dv[-1]) != dv[-1]:
                bad = f'plane {p} carries two different position index values'
        if len(set(k_of.values())) != len(k_of):
            bad = 'two source planes share a position index value'
        if any(divs[i] >= divs[i + 1] for i in range(len(divs) - 1)):
            bad = 'DimensionIndexValues do not strictly increase along the stored frames'
        pos = _source_positions(c, src)
        o6 = [float(v) for v in c.get('orientation', (1, 0, 0, 0, 1, 0))]
        normal = np.cross(o6[:3], o6[3:])
        along = {p: float(np.dot(pos[p], normal)) for p in k_of}
        ranked = sorted(k_of, key=lambda p: k_of[p])
        if not (all(along[a] > along[b] for a, b in zip(ranked, ranked[1:])) or all(along[a] < along[b] for a, b in zip(ranked, ranked[1:]))):
            bad = 'position index values are not monotone in the position along the slice normal'
        if sorted(k_of.values()) != list(range(1, len(k_of) + 1)):
            bad = f'position index values {sorted(k_of.values())} are not 1..{len(k_of)}'
        if bad:
            ctx.fail(dict(case, request='dimension-organisation'), bad, site='dimension-index')
        order = [int(x) for x in np.random.default_rng([c['read_perm_seed'], 78]).permutation(sorted(k_of))]
        got = obj.get_pixels_by_dimension_index_values([[k_of[p]] for p in order], dimension_index_pointers=ptrs,
                                                       assert_missing_frames_are_empty=True, rescale_fractional=False)
        if not same(got, exp[order], alt[order]):
            ctx.fail(dict(case, request='by-dimension-index', order=order), 'read by dimension index values differs from the mask',
                     site='read-dimension-index')
        if reqs is not None and path == 'memory' and np.shape(got) == exp[order].shape:
            reqs.append(('readDim', dict(margs, request=[k_of[p] for p in order])))
            pending.append((dict(case, request='by-dimension-index', order=order), 'read', None,
                            np.asarray(got).astype(np.int64).transpose(0, 3, 1, 2).reshape(len(order), -1, R * C).tolist()))
    except Exception as e:  # noqa: BLE001
        ctx.fail(dict(case, request='by-dimension-index'), f'read by dimension index values failed: {type(e).__name__}: {e}'[:300],
                 site='read-dimension-index')
    # (3) as a volume: every slice lies at the position of a source plane and holds that plane's mask
    try:
        vol = obj.get_volume(allow_missing_positions=True, rescale_fractional=False)
        arr = np.asarray(vol.array)
        stored = sorted(k_of)
        seen = set()
        for i in range(arr.shape[0]):
            xyz = (np.asarray(vol.affine, dtype=float) @ np.array([i, 0, 0, 1.0]))[:3]
            match = [p for p in range(P) if np.allclose(pos[p], xyz, atol=1e-6)]
            if len(match) != 1:
                if arr[i].any():
                    ctx.fail(dict(case, request='volume', slice=i), 'non-empty volume slice at a position that is no source plane',
                             site='read-volume')
                continue
            seen.add(match[0])
            if not same(arr[i], exp[match[0]], alt[match[0]]):
                ctx.fail(dict(case, request='volume', slice=i, plane=match[0]),
                         'volume slice differs from the mask of the source plane at its position', site='read-volume')
                break
        if not set(stored) <= seen:
            ctx.fail(dict(case, request='volume'), f'stored planes {sorted(set(stored) - seen)} do not appear in the volume',
                     site='read-volume')
    except Exception as e:  # noqa: BLE001
        ctx.fail(dict(case, request='volume'), f'get_volume failed: {type(e).__name__}: {e}'[:300], site='read-volume')


# ------------------------------------------------------------------------------------------- one case
def run_case(ctx, c, reqs, pending, paths=('memory', 'eager', 'lazy'), light=False):
    import highdicom as hd
    import pydicom
    mask, applied = build_mask(c)
    src, ids = build_sources(c)
    keep = mask.copy()
    refuse = must_refuse(c, mask)
    P = c['planes']
    n = c['rows'] * c['cols']
    desc = dict(c)
    desc['bad_applied'] = applied
    try:
        seg = construct(c, src, mask)
        built = ('ok', None)
    except Exception as e:  # noqa: BLE001
        seg = None
        built = ('err', f'{type(e).__name__}: {e}'[:200])
        kind = _err_kind(e)
    hist = dict(type=c['type'], layout=c['layout'], dtype=c['dtype'], source=c['source'], syntax=c['ts'], omit=c['omit'],
                empty=c['empty'], residue=n % 8, small=n < 8, planes=P, segments=len(c['segs']), workers=c['workers'],
                mem=c.get('mem', 'C'), palette=bool(c.get('palette')), ctor_spelling=c.get('ctor_spelling', 'plain'),
                mfv=c['mfv'] if c['type'] == 'FRACTIONAL' else '-', bad=applied or '-', must_refuse=refuse or '-',
                outcome='ok' if seg is not None else 'refused')
    margs = model_args(c, keep)
    # ---- input must not be modified (also when the constructor raises)
    if not (mask.dtype == keep.dtype and np.array_equal(mask, keep)):
        ctx.fail(desc, {'what': 'constructor modified the caller\'s pixel_array', 'max_after': float(mask.max()),
                        'max_before': float(keep.max())}, site='input-mutated')
        mask = keep.copy()
    # ---- refusal
    mfv_invalid = c['type'] == 'FRACTIONAL' and not 1 <= c['mfv'] <= 255
    if refuse or mfv_invalid:
        ctx.case(sample=None, nontrivial_key=None, **hist)
        if seg is not None:
            ctx.fail(desc, f'invalid input accepted ({refuse or "max_fractional_value outside 1..255"})', site='refusal')
        if refuse != 'dtype':            # the model's Mask has no other dtypes: oracle only
            reqs.append(('build', margs))
            pending.append((desc, 'refusal', ('ok', None) if seg is not None else ('err', kind)))
        return
    if seg is None and c['ts'].startswith('JPEG-LS') and 'Unable to encode' in built[1]:
        # the external JPEG-LS encoder gives up on some small noisy frames: a refusal by the codec, not by highdicom
        ctx.case(**dict(hist, outcome='codec-refused'))
        return
    if seg is None:
        ctx.case(**hist)
        ctx.fail(desc, f'valid input refused: {built[1]}', site='construct')
        reqs.append(('build', margs))
        pending.append((desc, 'refusal', ('err', kind)))
        return
    exp = expected_raw(c, mask)
    alt = near_tie_alternative(c, mask, exp)
    n_ties = int((alt != exp).sum())
    ctx.hist('near_tie_pixels', n_ties if n_ties < 9 else '9+')

    def same(got, sel=slice(None)):
        got = np.asarray(got).astype(np.int64)
        return got.shape == exp[sel].shape and bool(np.all((got == exp[sel]) | (got == alt[sel])))
    nonempty = bool(exp.any())
    varied = P == 1 or any(not np.array_equal(exp[0], exp[p]) for p in range(1, P))
    # ---- write once
    blob = None
    try:
        bio = io.BytesIO()
        seg.save_as(bio)
        blob = bio.getvalue()
    except Exception as e:  # noqa: BLE001
        ctx.fail(desc, f'save_as failed: {type(e).__name__}: {e}'[:300], site='save_as')
    objs = {}
    tmpdir = None
    # which optional paths a case takes is drawn per case (never from idx modulo something: the type x dtype x layout
    # stratification has period 40, a path tied to idx % 2 / 4 / 5 / 10 would only ever see some types)
    coin = np.random.default_rng([int(c.get('read_perm_seed', 0)), 4242]).random(8)
    if blob is not None and coin[0] < 0.1 and 'lazy' in paths:
        # every tenth case also goes through a real file on disk (save_as(path) / segread(path))
        import tempfile
        tmpdir = tempfile.TemporaryDirectory(prefix='hdv_c01_')
        fpath = os.path.join(tmpdir.name, 'seg.dcm')
        try:
            seg.save_as(fpath)
            paths = tuple(paths) + ('eager-file', 'lazy-file')
        except Exception as e:  # noqa: BLE001
            ctx.fail(desc, f'save_as(path) failed: {type(e).__name__}: {e}'[:300], site='save_as')
    if 'lazy' in paths and coin[1] < 0.2:
        paths = tuple(paths) + ('from_dataset', 'pickle', 'deepcopy')
    if 'lazy' in paths and coin[2] < 0.25:
        paths = tuple(paths) + ('cached',)
    if 'lazy' in paths and c['ts'] not in NATIVE and coin[3] < 0.5:
        # the same encoded frames behind the other offset-table forms of an encapsulated PixelData element: an empty basic
        # offset table, and an extended offset table (the constructor writes a filled basic offset table)
        paths = tuple(paths) + ('empty-bot', 'extended-ot', 'fragmented-bot')
    for path in paths:
        try:
            if path == 'memory':
                objs[path] = seg
            elif blob is not None and path == 'eager':
                objs[path] = hd.seg.segread(io.BytesIO(blob))
            elif blob is not None and path == 'lazy':
                objs[path] = hd.seg.segread(io.BytesIO(blob), lazy_frame_retrieval=True)
            elif blob is not None and path == 'from_dataset':
                objs[path] = hd.seg.Segmentation.from_dataset(pydicom.dcmread(io.BytesIO(blob)), copy=bool(coin[4] < 0.5))
            elif path == 'pickle':
                import pickle
                objs[path] = pickle.loads(pickle.dumps(seg))
            elif path == 'deepcopy':
                import copy
                objs[path] = copy.deepcopy(seg)
            elif blob is not None and path == 'cached':
                # pixel_array decoded and cached before the read: the array branch of _get_pixels_by_frame
                o2 = hd.seg.segread(io.BytesIO(blob))
                _ = o2.pixel_array
                objs[path] = o2
            elif blob is not None and path in ('empty-bot', 'extended-ot', 'fragmented-bot'):
                from pydicom.encaps import encapsulate, generate_frames
                d3 = pydicom.dcmread(io.BytesIO(blob))
                enc_frames = list(generate_frames(d3.PixelData, number_of_frames=int(d3.NumberOfFrames)))
                # frames spread over 1-3 fragments (a filled basic or an extended offset table then has to be followed to
                # the first fragment of a frame, and a frame is the concatenation of its fragments)
                nfrag = int(np.random.default_rng([c['read_perm_seed'], len(path), 5]).integers(1, 4))
                nfrag = min(nfrag, max(1, min(len(f_) for f_ in enc_frames) // 2))
                ctx.hist('fragments_per_frame', f'{path}/{nfrag if path == "fragmented-bot" else 1}')
                if path == 'empty-bot':
                    d3.PixelData = encapsulate(enc_frames, has_bot=False)
                elif path == 'fragmented-bot':
                    d3.PixelData = encapsulate(enc_frames, fragments_per_frame=nfrag, has_bot=True)
                else:       # (with an extended offset table a frame is one fragment: PS3.5 A.4)
                    from pydicom.encaps import encapsulate_extended
                    d3.PixelData, d3.ExtendedOffsetTable, d3.ExtendedOffsetTableLengths = encapsulate_extended(enc_frames)
                b3 = io.BytesIO()
                d3.save_as(b3)
                lazy3 = bool(np.random.default_rng([c['read_perm_seed'], len(path)]).integers(0, 2))
                ctx.hist('offset_table_path', f'{path}/{"lazy" if lazy3 else "eager"}')
                objs[path] = hd.seg.segread(io.BytesIO(b3.getvalue()), lazy_frame_retrieval=lazy3)
            elif path == 'eager-file':
                objs[path] = hd.seg.segread(fpath)
            elif path == 'lazy-file':
                objs[path] = hd.seg.segread(fpath, lazy_frame_retrieval=True)
        except Exception as e:  # noqa: BLE001
            if path in ('pickle', 'deepcopy') and "Can't pickle local object" in str(e):
                # pydicom cannot pickle some elements (palette LUT descriptors carry a local function): not this property
                ctx.hist('path_skipped', f'{path}: pydicom element not picklable')
                continue
            ctx.fail(dict(desc, path=path), f'segread failed: {type(e).__name__}: {e}'[:300], site='segread')
    supplied = list(range(P))
    pr = np.random.default_rng(c['read_perm_seed'])
    sub = [int(x) for x in pr.permutation(P)[:int(pr.integers(1, P + 1))]]
    if pr.random() < 0.4:
        sub.insert(int(pr.integers(0, len(sub) + 1)), sub[int(pr.integers(0, len(sub)))])     # a source named twice
    frac = c['type'] == 'FRACTIONAL'
    for path, obj in objs.items():
        for order, oname in ((supplied, 'supplied'), (sub, 'subset')):
            if oname == 'subset' and path != 'memory' and ctx.tier == 'quick' and c['idx'] % 3:
                continue
            case = dict(desc, path=path, request=oname, order=order)
            key = None
            if nonempty and varied and oname == 'supplied':
                key = (c['type'], c['layout'], c['dtype'], n % 8, n < 8, P, len(c['segs']), c['omit'], c['empty'], c['ts'],
                       c['source'], path)
            ctx.case(sample=case if ctx.evaluations % 211 == 0 else None, nontrivial_key=key, path=path, request=oname, **hist)
            want = exp[order]
            sp = np.random.default_rng([c['read_perm_seed'], len(path), len(oname), c['idx']])
            spell = str(sp.choice(FRAME_SPELLINGS if c['source'] == 'enhanced' else UID_SPELLINGS))
            segspell = SEG_SPELLINGS[int(sp.integers(0, len(SEG_SPELLINGS)))]
            case['spelling'] = [spell, segspell]
            ctx.hist('spelling', spell)
            ctx.hist('segment_spelling', segspell)
            # raw stored values
            try:
                got = read_back(obj, c, src, ids, order, spell=spell, segspell=segspell,
                                assert_missing_frames_are_empty=True, rescale_fractional=False)
            except Exception as e:  # noqa: BLE001
                ctx.fail(case, f'read refused: {type(e).__name__}: {e}'[:300], site=f'read/{path}')
                continue
            if not same(got, order):
                bad = np.argwhere((got.astype(np.int64) != want) & (got.astype(np.int64) != alt[order]))[:3].tolist() \
                    if got.shape == want.shape else 'shape'
                ctx.fail(case, {'what': 'read-back differs from the mask passed in', 'shape_got': list(got.shape),
                                'shape_want': list(want.shape), 'first_diffs': bad}, site=f'read/{path}')
            if path == 'memory' and not (light and oname != 'supplied'):
                reqs.append(('roundtrip', dict(margs, request=order, allow_missing=True)))
                pending.append((case, 'read', None,
                                got.astype(np.int64).transpose(0, 3, 1, 2).reshape(len(order), -1, n).tolist()
                                if got.shape == want.shape else None))
            # default read (rescaled fractions)
            if frac and oname == 'supplied':
                try:
                    gotf = read_back(obj, c, src, ids, order, spell=str(sp.choice(FRAME_SPELLINGS if c['source'] == 'enhanced'
                                                                                 else UID_SPELLINGS)),
                                     assert_missing_frames_are_empty=True)
                    wantf = want.astype(np.float64) / c['mfv']
                    altf = alt[order].astype(np.float64) / c['mfv']
                    if gotf.shape != wantf.shape or not np.all((np.abs(gotf.astype(np.float64) - wantf) <= 1e-7) |
                                                               (np.abs(gotf.astype(np.float64) - altf) <= 1e-7)):
                        ctx.fail(case, 'rescaled fractional read-back differs from round(q*mfv)/mfv', site=f'read-rescaled/{path}')
                except Exception as e:  # noqa: BLE001
                    ctx.fail(case, f'rescaled read refused: {type(e).__name__}: {e}'[:300], site=f'read-rescaled/{path}')
        # several calls on ONE object: the same read again, a read after a refused call, after a read with other options;
        # none of them may change the object or the answer
        if path in ('memory', 'eager', 'lazy') and (path == 'memory' or coin[5] < 0.5):
            case = dict(desc, path=path, request='sequence')
            ctx.case(path=path + '/sequence', **hist)
            try:
                snap = _snapshot(obj)
                first = read_back(obj, c, src, ids, supplied, assert_missing_frames_are_empty=True, rescale_fractional=False)
                try:        # a refused call in between: unknown source / frame number 0 without the missing-frames flag
                    if c['source'] == 'enhanced':
                        obj.get_pixels_by_source_frame(src[0].SOPInstanceUID, [0])
                    else:
                        obj.get_pixels_by_source_instance(['1.2.3.4.5.6.7'])
                    ctx.fail(case, 'request naming an unknown source accepted without assert_missing_frames_are_empty',
                             site='read-sequence')
                except Exception:  # noqa: BLE001
                    pass
                read_back(obj, c, src, ids, list(reversed(supplied)), spell='tuple', assert_missing_frames_are_empty=True)
                again = read_back(obj, c, src, ids, supplied, spell='ndarray' if c['source'] == 'enhanced' else 'tuple',
                                  assert_missing_frames_are_empty=True, rescale_fractional=False)
                if not (first.shape == again.shape and np.array_equal(first, again) and same(again)):
                    ctx.fail(case, 'the same read gives a different answer after other calls on the object', site='read-sequence')
                if _snapshot(obj) != snap:
                    ctx.fail(case, 'reading modified the object (PixelData / NumberOfFrames / per-frame items / segments)',
                             site='read-sequence')
            except Exception as e:  # noqa: BLE001
                ctx.fail(case, f'call sequence failed: {type(e).__name__}: {e}'[:300], site='read-sequence')
        # without the missing-frames flag (audit A, C01-1).  Independent statement of what the documented API does:
        # * by source instance every one of the object's source images is known -> the read succeeds, an omitted (empty)
        #   plane comes back as zeros; an unknown UID is refused;
        # * by source frame a number above the highest frame number that has a stored frame is refused ("cannot be
        #   certain that it is valid"), every number up to it succeeds (omitted ones as zeros).
        if path in ('memory', 'eager'):
            stored_planes = {p for p in range(P) if exp[p].any()} if (c['omit'] and nonempty) else set(range(P))
            ambiguous = c['omit'] and bool(np.any((alt != exp) & ((alt == 0) | (exp == 0))))
            for order, oname in ((supplied, 'strict'), (sub, 'strict-subset')):
                scase = dict(desc, path=path, request=oname, order=order)
                must_succeed = max(order) <= max(stored_planes) if c['source'] == 'enhanced' else True
                kind = None
                try:
                    got = read_back(obj, c, src, ids, order, rescale_fractional=False)
                    ok = True
                except (KeyError, ValueError) as e:
                    ok = False
                    kind = _err_kind(e)
                except Exception as e:  # noqa: BLE001
                    ok = None
                    ctx.fail(scase, f'strict read failed: {type(e).__name__}: {e}'[:300], site='read-strict')
                ctx.case(path=path + '/strict', outcome='ok' if ok else 'refused', strict_must_succeed=must_succeed)
                if ok is True and not same(got, order):
                    ctx.fail(scase, 'strict read-back differs from the mask passed in', site='read-strict')
                if not ambiguous:
                    if ok is True and not must_succeed:
                        ctx.fail(scase, 'source frame above the highest referenced frame accepted without '
                                 'assert_missing_frames_are_empty', site='read-strict')
                    if ok is False and must_succeed:
                        ctx.fail(scase, 'strict read refused although every requested source is known to the object',
                                 site='read-strict')
                if path == 'memory' and ok is not None and not light:
                    reqs.append(('roundtrip', dict(margs, request=order, allow_missing=False,
                                                   multiframe=c['source'] == 'enhanced', nsrc=P)))
                    pending.append((scase, 'strict', ('ok', got.astype(np.int64).transpose(0, 3, 1, 2)
                                                      .reshape(len(order), -1, n).tolist()) if ok else ('err', kind)))
            # an unknown source is refused without the flag
            try:
                if c['source'] == 'enhanced':
                    obj.get_pixels_by_source_frame('1.2.3.4.5.6.7.8', [1])
                else:
                    obj.get_pixels_by_source_instance([ids[0][1], '1.2.3.4.5.6.7.8'])
                ctx.fail(dict(desc, path=path, request='unknown-source'), 'unknown source accepted without '
                         'assert_missing_frames_are_empty', site='read-strict')
            except Exception:  # noqa: BLE001
                pass
        if path == 'memory' or (path in ('eager', 'lazy') and (c['idx'] + len(path)) % 3 == 0):
            _entry_points(ctx, obj, path, c, src, ids, exp, alt, desc, hist, None if light else reqs, pending, margs)
    objs.clear()
    if tmpdir is not None:
        tmpdir.cleanup()
    # ---- L1 through pydicom: frames of the written file
    if blob is not None:
        try:
            ds = pydicom.dcmread(io.BytesIO(blob))
            px = ds.pixel_array
            nf = int(ds.NumberOfFrames)
            px = px.reshape((nf, c['rows'], c['cols']))
            keys = frame_keys(ds, c, src, ids)
            ctx.case(path='pydicom', **hist)
            bad = None
            if len(keys) != nf:
                bad = 'per-frame items != NumberOfFrames'
            else:
                for i, (s, p) in enumerate(keys):
                    if c['type'] == 'LABELMAP':
                        lab = np.zeros((c['rows'], c['cols']), dtype=np.int64)
                        for j, sn in enumerate(c['segs']):
                            lab[exp[p, :, :, j] != 0] = sn
                        w = lab
                    else:
                        w = exp[p, :, :, c['segs'].index(s)]
                    w2 = w if c['type'] == 'LABELMAP' else alt[p, :, :, c['segs'].index(s)]
                    if not np.all((px[i].astype(np.int64) == w) | (px[i].astype(np.int64) == w2)):
                        bad = f'frame {i + 1} (segment {s}, plane {p}) of the written file differs from the mask'
                        break
                # every non-empty (segment, plane) must be stored exactly once
                seen = set()
                for k in keys:
                    if k in seen:
                        bad = f'(segment, plane) {k} stored twice'
                    seen.add(k)
                for p in range(P):
                    for j, sn in enumerate(c['segs']):
                        k = (None, p) if c['type'] == 'LABELMAP' else (sn, p)
                        if exp[p, :, :, j].any() and k not in seen:
                            bad = f'non-empty (segment {sn}, plane {p}) has no frame'
            if bad:
                ctx.fail(dict(desc, path='pydicom'), bad, site='written-file')
            # iter_segments of the object in memory: per segment the frames named by its per-frame items
            if c['type'] != 'LABELMAP':
                ctx.case(path='iter_segments', **hist)
                try:
                    seen_segs = []
                    for frames_s, pffgs, sdesc in seg.iter_segments():
                        sn = int(sdesc.SegmentNumber)
                        seen_segs.append(sn)
                        fr = np.asarray(frames_s).reshape((len(pffgs), c['rows'], c['cols']))
                        for k, it in enumerate(pffgs):
                            srcit = it.DerivationImageSequence[0].SourceImageSequence[0]
                            p = (int(srcit.ReferencedFrameNumber) - 1 if c['source'] == 'enhanced'
                                 else [v for _, v in ids].index(srcit.ReferencedSOPInstanceUID))
                            if not same(fr[k], (p, slice(None), slice(None), c['segs'].index(sn))):
                                ctx.fail(dict(desc, path='iter_segments'),
                                         f'iter_segments: frame {k} of segment {sn} (plane {p}) differs from the mask',
                                         site='iter_segments')
                                break
                    want_segs = sorted({s_ for (s_, _) in keys})
                    if sorted(seen_segs) != want_segs:
                        ctx.fail(dict(desc, path='iter_segments'), f'iter_segments yields segments {seen_segs}, frames '
                                 f'exist for {want_segs}', site='iter_segments')
                except Exception as e:  # noqa: BLE001
                    ctx.fail(dict(desc, path='iter_segments'), f'iter_segments failed: {type(e).__name__}: {e}'[:300],
                             site='iter_segments')
            reqs.append(('build', dict(margs, keys=[[(-1 if s is None else s), p] for s, p in keys], **{'for': c['source'] != 'single'})))
            pd = bytes(ds.PixelData)
            pending.append((desc, 'build', {'nframes': nf, 'bits': int(ds.BitsAllocated), 'overlap': str(ds.SegmentsOverlap),
                                            'keys': sorted([(-1 if s is None else s), p] for s, p in keys),
                                            'order': [[(-1 if s is None else s), p] for s, p in keys],
                                            # DimensionIndexValues per (segment, plane): stacks of planes in a frame of reference
                                            # (`frameDims`) and single images without one (`frameDimsNoFoR`)
                                            'dims': ({f'{-1 if s is None else s},{p}': _div(it) for (s, p), it in
                                                      zip(keys, ds.PerFrameFunctionalGroupsSequence)}
                                                     if len(keys) == nf else None),
                                            'pd': list(pd) if c['ts'] in NATIVE else None,
                                            'frames': {f'{-1 if s is None else s},{p}': px[i].astype(np.int64).reshape(-1).tolist()
                                                       for i, (s, p) in enumerate(keys)}}))
        except Exception as e:  # noqa: BLE001
            ctx.fail(dict(desc, path='pydicom'), f'written file not decodable by pydicom: {type(e).__name__}: {e}'[:300],
                     site='written-file')


# ------------------------------------------------------------------------------------------- helpers (L2)
def _mask_json(a):
    """numpy array (P, R, C[, S]) -> the model's JSON form of a Mask"""
    isfloat = a.dtype.kind == 'f'
    P = a.shape[0]
    flat = a.reshape(P, -1, a.shape[-1]) if a.ndim == 4 else a.reshape(P, -1)
    planes = np.vectorize(_rat, otypes=[object])(flat).tolist() if isfloat else flat.astype(np.int64).tolist()
    return {'kind': 'float' if isfloat else 'int', 'four': a.ndim == 4, 'planes': planes}


def _helpers(ctx, reqs, pending):
    """L2: the two static helpers against `castMask` / `segPlane` on thousands of tiny arrays."""
    import highdicom as hd
    from highdicom.seg.sop import Segmentation, _get_unsigned_dtype
    from highdicom.seg import SegmentationTypeValues as STV
    cast = getattr(Segmentation, '_check_and_cast_pixel_array', None)
    segpx = getattr(Segmentation, '_get_segment_pixel_array', None)
    if cast is None or segpx is None:
        ctx.note('L2 helpers _check_and_cast_pixel_array / _get_segment_pixel_array not found; skipped')
        return
    for idx in range(ctx.n(1500, 20000)):
        r = ctx.rng('helper', idx)
        nr = ctx.np_rng('helper/pix', idx)
        typ = r.choice(['BINARY', 'FRACTIONAL', 'LABELMAP'])
        nseg = r.choice([1, 1, 2, 3, 4])
        segs = sorted(r.sample([1, 2, 3, 4, 5, 7, 9, 200, 300, 1000], nseg)) if (typ == 'LABELMAP' and r.random() < 0.6) \
            else list(range(1, nseg + 1))
        four = r.random() < 0.5
        dtname = r.choice(DTYPES)
        P, n = r.choice([1, 1, 2]), r.choice([1, 2, 3, 4])
        S = nseg if r.random() < 0.9 else nseg + r.choice([-1, 1])
        shape = (P, 1, n, S) if four else (P, 1, n)
        if four and S == 0:
            continue
        if dtname.startswith('float'):
            vals = [0.0, 0.0, 1.0, 1.0, 0.5, 0.25, 0.0009765625, 1.5, -0.125]
            w = [6, 6, 6, 6, 1, 1, 1, 0.3, 0.3] if typ != 'FRACTIONAL' else [4, 4, 3, 3, 3, 3, 2, 0.3, 0.3]
            a = nr.choice(vals, size=shape, p=np.array(w) / sum(w))
        elif dtname == 'bool':
            a = nr.random(shape) < 0.4
        else:
            pool = [0, 0, 0, 1, 1] + (segs if not four else []) + ([2] if r.random() < 0.15 else []) + \
                   ([max(segs) + 1] if (not four and r.random() < 0.15) else [])
            pool = [v for v in pool if v < (256 if dtname == 'uint8' else 65536)]
            a = nr.choice(pool, size=shape)
        a = a.astype({'bool': np.bool_, 'uint8': np.uint8, 'uint16': np.uint16, 'float32': np.float32,
                      'float64': np.float64}[dtname])
        dtype = np.uint8 if typ != 'LABELMAP' else _get_unsigned_dtype(max(segs))
        case = {'helper': '_check_and_cast_pixel_array', 'idx': idx, 'type': typ, 'segs': segs, 'dtype': dtname,
                'array': a.tolist(), 'layer': 'L2'}
        keep = a.copy()
        try:
            out, ov = cast(a, np.array(segs), STV[typ], dtype)
            impl = ('ok', {'mask': _mask_json(np.asarray(out)), 'overlap': ov.value})
        except Exception as e:  # noqa: BLE001
            out = None
            impl = ('err', _err_kind(e))
        ctx.case(path='helper/cast', outcome=impl[0], type=typ)
        if not np.array_equal(a, keep):
            ctx.fail(case, '_check_and_cast_pixel_array modified its input', site='input-mutated')
        reqs.append(('castMask', dict(_mask_json(keep), segs=segs, type=typ)))
        pending.append((case, 'helper', impl))
        if out is None or typ == 'LABELMAP':
            continue
        # per-segment plane of the cast array
        out = np.asarray(out)
        mfv = r.choice([1, 2, 100, 255])
        s = r.choice(segs)
        plane = out[r.randrange(P)]
        keep2 = plane.copy()
        case2 = {'helper': '_get_segment_pixel_array', 'idx': idx, 'type': typ, 'segs': segs, 'mfv': mfv, 's': s,
                 'plane': plane.tolist(), 'dtype': str(plane.dtype), 'layer': 'L2'}
        try:
            px = segpx(plane, s, np.array(segs), STV[typ], mfv, np.uint8)
            impl2 = ('ok', np.asarray(px).astype(np.int64).reshape(-1).tolist())
        except Exception as e:  # noqa: BLE001
            impl2 = ('err', _err_kind(e))
        ctx.case(path='helper/segpx', outcome=impl2[0], type=typ)
        if not np.array_equal(plane, keep2):
            ctx.fail(case2, '_get_segment_pixel_array modified its input', site='input-mutated')
        isf = keep2.dtype.kind == 'f'
        three = keep2.ndim == 3
        flat = keep2.reshape(-1, keep2.shape[-1]) if three else keep2.reshape(-1)
        pxj = np.vectorize(_rat, otypes=[object])(flat).tolist() if isf else flat.astype(np.int64).tolist()
        reqs.append(('segPlane', {'segs': segs, 'type': typ, 'mfv': mfv, 's': s, 'kind': 'float' if isf else 'int',
                                  'three': three, 'px': pxj}))
        pending.append((case2, 'helper', impl2))


def _compare(ctx, reqs, pending, escalate=True):
    answers = ctx.model(reqs)
    if answers is None:
        return
    for item, ans in zip(pending, answers):
        case, what = item[0], item[1]
        if 'proto_err' in ans:
            ctx.disagree('L0', case, None, ans, 'model protocol error')
            continue
        if what == 'refusal':
            impl = item[2]
            model = ('ok', None) if 'ok' in ans else ('err', ans['err'])
            if impl[0] != model[0]:
                ctx.disagree('L0', case, impl, model, 'constructor ok-vs-refused')
        elif what == 'helper':
            impl = item[2]
            model = ('ok', ans['ok']) if 'ok' in ans else ('err', ans['err'])
            if impl[0] != model[0]:
                ctx.disagree('L2', case, impl, model, 'helper ok-vs-error')
            elif impl[0] == 'ok' and impl[1] != model[1]:
                ctx.disagree('L2', case, impl, model, 'helper value')
        elif what == 'strict':
            impl = item[2]
            model = ('ok', ans['ok']) if 'ok' in ans else ('err', ans['err'])
            if impl[0] != model[0]:
                ctx.disagree('L0', case, impl[0], model, 'strict read ok-vs-refused')
            elif impl[0] == 'ok' and impl[1] != model[1]:
                ctx.disagree('L0', case, impl[1], model[1], 'strict read-back: model != implementation')
            elif impl[0] == 'err' and impl[1] != model[1]:
                ctx.disagree('L0', case, impl[1], model[1], 'strict read refusal kind (KeyError vs ValueError)')
        elif what == 'read':
            want, got = item[2], item[3]
            if 'ok' not in ans:
                ctx.disagree('L0', case, 'ok', ans, 'model refuses the read-back')
            elif got is not None and ans['ok'] != got:
                ctx.disagree('L0', case, got, ans['ok'], 'read-back: model != implementation')
        elif what == 'tpm':
            if 'ok' not in ans:
                ctx.disagree('L0', case, 'ok', ans, 'model refuses a tiled mask the constructor accepted')
            elif ans['ok'] != item[2]:
                ctx.disagree('L0', case, item[2], ans['ok'], 'total pixel matrix: model != implementation')
        elif what == 'build':
            impl = item[2]
            if 'ok' not in ans:
                ctx.disagree('L0', case, 'ok', ans, 'model refuses a mask the constructor accepted')
                continue
            m = ans['ok']
            if m['nframes'] != impl['nframes']:
                ctx.disagree('L1', case, impl['nframes'], m['nframes'], 'NumberOfFrames')
                continue
            if m['bits'] != impl['bits']:
                ctx.disagree('L1', case, impl['bits'], m['bits'], 'BitsAllocated')
                continue
            if m['overlap'] != impl['overlap']:
                ctx.disagree('L1', case, impl['overlap'], m['overlap'], 'SegmentsOverlap')
                continue
            mframes = {f'{s},{p}': px for s, p, px in m['frames']}
            if sorted(mframes) != sorted(impl['frames']):
                ctx.disagree('L1', case, sorted(impl['frames']), sorted(mframes), 'set of stored (segment, plane)')
                continue
            diff = [k for k in mframes if mframes[k] != impl['frames'][k]]
            if diff:
                ctx.disagree('L1', case, impl['frames'][diff[0]], mframes[diff[0]], f'pixels of stored frame {diff[0]}')
                continue
            if impl['pd'] is not None and m.get('pd') != impl['pd']:
                ctx.disagree('L1', case, impl['pd'], m.get('pd'), 'PixelData bytes')
                continue
            if impl.get('dims') is not None:
                mdims = {f'{s},{p}': dv for (s, p, _), dv in zip(m['frames'], m.get('dims') or [])}
                if mdims != impl['dims']:
                    bad = [k for k in impl['dims'] if mdims.get(k) != impl['dims'][k]][:1]
                    ctx.disagree('L1', case, {k: impl['dims'][k] for k in bad}, {k: mdims.get(k) for k in bad},
                                 'DimensionIndexValues of a stored frame')
                    continue
            if [[s, p] for s, p, _ in m['frames']] != impl['order']:
                ctx.disagree('L2', case, impl['order'], [[s, p] for s, p, _ in m['frames']], 'frame (loop) order')


def _escalate_l2(ctx):
    """DESIGN 5.2: an L2 disagreement on `_check_and_cast_pixel_array` / `_get_segment_pixel_array` is replayed
    through the public API (constructor + read-back + oracle) and counts only through what that shows."""
    done = 0
    reqs, pending = [], []
    for d in list(ctx.l2_disagreements):
        case = d.get('case') or {}
        if case.get('helper') != '_check_and_cast_pixel_array' or done >= 25:
            continue
        a = np.array(case['array'])
        four = a.ndim == 4
        P, n = a.shape[0], a.shape[2]
        c = {'idx': case['idx'], 'stream': 'escalated', 'seed': ctx.seed, 'tier': ctx.tier, 'source': 'series', 'planes': P,
             'rows': 1, 'cols': n, 'src_order': list(range(P)), 'type': case['type'], 'dtype': case['dtype'],
             'layout': '4d' if four else '3d', 'segs': case['segs'], 'mfv': 255, 'omit': False, 'empty': 'none',
             'density': 0.5, 'ts': 'Explicit VR Little Endian', 'workers': 0, 'bad': None, 'read_perm_seed': 1,
             'explicit': case['array']}
        run_case(ctx, c, reqs, pending, paths=('memory',))
        done += 1
    if done:
        ctx.note(f'{done} L2 helper disagreements replayed through the public API')
        _compare(ctx, reqs, pending, escalate=False)


# ------------------------------------------------------------------------------------------- tiled sources
def gen_tiled(ctx, idx):
    """A segmentation of a tiled (slide) image: the mask is either the whole total pixel matrix (`tile_pixel_array=True`,
    own tile size / dimension organisation) or one array per frame of the source, which may list its tiles in any order
    and leave some out.  Pure function of (seed, 'tiled', idx)."""
    r = ctx.rng('tiled', idx)
    c = {'idx': idx, 'stream': 'tiled', 'seed': ctx.seed, 'tier': ctx.tier, 'source': 'slide'}
    tr, tc = r.randint(1, 4), r.randint(1, 5)
    nth, ntw = r.randint(1, 3), r.randint(1, 4)
    c['src_tile'] = [tr, tc]
    c['rows'] = tr * nth - r.choice([0, 0, r.randrange(tr)])          # total pixel matrix, last tile row/column partly outside
    c['cols'] = tc * ntw - r.choice([0, 0, r.randrange(tc)])
    nt = nth * ntw
    c['src_full'] = r.random() < 0.35
    c['src_frames'] = list(range(nt))                                 # frame k of the source shows raster tile src_frames[k]
    if not c['src_full'] and r.random() < 0.5:
        r.shuffle(c['src_frames'])
    c['mode'] = r.choice(['tpm', 'tpm', 'tpm', 'frames'])
    c['missing_tile'] = None
    if not c['src_full'] and nt > 1 and r.random() < (0.3 if c['mode'] == 'frames' else 0.3):
        # a sparse source without one or two of its tiles (the usual slide that leaves out background tiles); the mask on a
        # missing tile is either empty (then, with omit_empty_frames, no stored frame lacks a source frame) or not
        c['src_frames'] = c['src_frames'][:-(1 if nt < 4 or r.random() < 0.6 else 2)]
        c['missing_tile'] = r.choice(['empty', 'empty', 'covered'])
    c['tile_size'] = None
    if c['mode'] == 'tpm' and r.random() < 0.4:
        # an own tile size -- 40 % of the time the source's, spelled out (then every tile still has its source frame)
        c['tile_size'] = [tr, tc] if r.random() < 0.4 else [r.randint(1, 4), r.randint(1, 5)]
    if c['mode'] == 'tpm' and c['missing_tile'] == 'empty':
        c['tile_size'] = [tr, tc] if r.random() < 0.3 else None       # tiles coincide with the source's
    c['tile_size_spelling'] = r.choice(['tuple', 'list', 'numpy'])
    k = (idx + ctx.rng('rotation', 1).randrange(40)) % 40
    c['type'] = ['BINARY', 'FRACTIONAL', 'LABELMAP', 'BINARY'][k % 4]
    c['dtype'] = DTYPES[(k // 4) % 5]
    isfloat = c['dtype'].startswith('float')
    c['layout'] = ['3d', '4d'][(k // 20) % 2]
    nseg = r.choice([1, 1, 2, 3])
    if (isfloat or c['dtype'] == 'bool') and c['layout'] != '4d':
        nseg = 1
    if c['type'] == 'LABELMAP' and r.random() < 0.5 and not ((isfloat or c['dtype'] == 'bool') and c['layout'] != '4d'):
        pool = [1, 2, 3, 5, 8, 200, 255, 256, 300, 4097] if c['dtype'] != 'uint8' or c['layout'] == '4d' else [1, 2, 3, 5, 8, 200, 255]
        c['segs'] = sorted(r.sample(pool, nseg))
    else:
        c['segs'] = list(range(1, nseg + 1))
    c['mfv'] = r.choice([1, 2, 100, 255, 255, 7])
    c['dot'] = r.choice([None, None, 'TILED_SPARSE', 'TILED_FULL', 'TILED_FULL']) if c['mode'] == 'tpm' else None
    c['dot_spelling'] = r.choice(['str', 'enum'])
    if c['mode'] == 'tpm' and c['missing_tile'] == 'empty':
        c['dot'] = r.choice([None, None, 'TILED_SPARSE'])
    c['omit'] = (r.random() < 0.6 or (c['mode'] == 'tpm' and c['missing_tile'] == 'empty' and r.random() < 0.8)) and c['dot'] != 'TILED_FULL'
    c['empty'] = r.choice(['none', 'some_tiles', 'some_tiles', 'all', 'one_pixel', 'tiny'])
    c['fractions'] = r.choice(['dyadic', 'dyadic', 'near_tie', 'random'])
    c['density'] = r.choice([0.2, 0.5, 0.8])
    c['ts'] = r.choice(NATIVE) if c['type'] == 'BINARY' else r.choice(list(NATIVE) + ['RLE Lossless', 'JPEG-LS Lossless Image Compression'])
    if c['ts'].startswith('JPEG-LS'):
        c['tile_size'] = None
        tr, tc = tr + 7, tc + 7
        c['src_tile'] = [tr, tc]
        c['rows'] = tr * nth - r.choice([0, r.randrange(tr)])
        c['cols'] = tc * ntw - r.choice([0, r.randrange(tc)])
    c['workers'] = r.choice([0, 0, 'executor', 'reversing']) if c['ts'] not in NATIVE else 0
    c['mem'] = ['C', 'F', 'T', 'neg', 'strided', 'readonly', 'slice4', 'C'][idx % 8]
    c['pyramid'] = c['mode'] == 'tpm' and c['tile_size'] is None and c['dot'] is None and r.random() < 0.5
    c['read_perm_seed'] = r.randrange(1 << 30)
    c['bad'] = None
    c['planes'] = 1
    four = c['layout'] == '4d'
    applicable = [k for k, ok in (
        ('undescribed', not four and c['dtype'] in ('uint8', 'uint16')),
        ('nonbinary4d', four and c['dtype'] in ('uint8', 'uint16')),
        ('float_range', isfloat),
        ('float_nonbinary', isfloat and c['type'] != 'FRACTIONAL'),
        ('overlap_labelmap', four and c['type'] == 'LABELMAP' and len(c['segs']) > 1),
        ('channels', four)) if ok]
    if c['mode'] == 'tpm' and applicable and r.random() < 0.12:
        c['bad'] = r.choice(applicable)           # an invalid matrix must be refused (and is refused tile-wise by the model)
        c['pyramid'] = False
    return c


def _tile_grid(R, C, tr, tc):
    """raster list of the (row0, col0) corners (0-based) of the tiles covering an R x C matrix"""
    return [(a * tr, b * tc) for a in range(-(-R // tr)) for b in range(-(-C // tc))]


def _cut(a, r0, c0, tr, tc):
    """tile of `a` (R, C, ...) at (r0, c0), zero padded to tr x tc"""
    out = np.zeros((tr, tc) + a.shape[2:], dtype=a.dtype)
    sub = a[r0:r0 + tr, c0:c0 + tc]
    out[:sub.shape[0], :sub.shape[1]] = sub
    return out


def build_tiled_mask(c):
    """total-pixel-matrix mask (1, R, C[, S]) of a tiled case"""
    import hd_env
    m, _ = build_mask(dict(c, empty='none' if c['empty'] == 'some_tiles' else c['empty'], layout=c['layout'], mem='C', planes=1))
    m = np.array(m)
    if c['empty'] == 'some_tiles':
        nr = hd_env.np_rng(PROP, 'tiled/empty', c['seed'], c['idx'])
        tr, tc = c['tile_size'] or c['src_tile']
        for (r0, c0) in _tile_grid(c['rows'], c['cols'], tr, tc):
            if nr.random() < 0.5:
                m[0, r0:r0 + tr, c0:c0 + tc] = 0
    if c.get('missing_tile') == 'empty' and c['mode'] == 'tpm' and not c.get('bad'):
        # nothing segmented where the source has no tile
        str_, stc = c['src_tile']
        grid_src = _tile_grid(c['rows'], c['cols'], str_, stc)
        for k, (r0, c0) in enumerate(grid_src):
            if k not in c['src_frames']:
                m[0, r0:r0 + str_, c0:c0 + stc] = 0
    return m


def run_tiled(ctx, c, reqs, pending):
    import highdicom as hd
    import pydicom
    from gen.sources import slide_image, seg_description
    R, C = c['rows'], c['cols']
    str_, stc = c['src_tile']
    nt_src = len(_tile_grid(R, C, str_, stc))
    ntw_src = -(-C // stc)
    src_tiles = [(k // ntw_src, k % ntw_src) for k in c['src_frames']]
    all_tiles = [(k // ntw_src, k % ntw_src) for k in range(nt_src)]
    if c['src_full']:
        ds, _ = slide_image(R, C, str_, stc, tiled_full=True)
    else:
        ds, _ = slide_image(R, C, str_, stc, tiled_full=False, omit=[t for t in all_tiles if t not in src_tiles],
                            frame_order=[sorted(src_tiles).index(t) for t in src_tiles])
    src_corner = [(a * str_, b * stc) for (a, b) in src_tiles]          # 0-based corner of source frame k
    tpm_mask = build_tiled_mask(c)                                      # (1, R, C[, S])
    refuse = must_refuse(c, tpm_mask)
    if refuse:
        # an invalid matrix: refused by the constructor, and by the model that looks at the tiles
        import highdicom as hd
        from gen.sources import seg_description as _sd
        tr_, tc_ = c['tile_size'] or c['src_tile']
        try:
            hd.seg.Segmentation([ds], _relayout(tpm_mask, c['mem']), c['type'], [_sd(s_) for s_ in c['segs']], tile_pixel_array=True,
                                tile_size=(tr_, tc_), series_instance_uid=hd.UID(), series_number=2, sop_instance_uid=hd.UID(),
                                instance_number=1, manufacturer='verif', manufacturer_model_name='m', software_versions='1',
                                device_serial_number='1', max_fractional_value=c['mfv'], omit_empty_frames=c['omit'])
            built = ('ok', None)
            ctx.fail(dict(c), f'invalid tiled input accepted ({refuse})', site='refusal/tiled')
        except Exception as e:  # noqa: BLE001
            built = ('err', _err_kind(e))
        ctx.case(stream='tiled', outcome='refused' if built[0] == 'err' else 'ok', must_refuse=refuse, type=c['type'], dtype=c['dtype'])
        if tpm_mask.ndim == (4 if c['layout'] == '4d' else 3):
            margs = model_args(dict(c, rows=tr_, cols=tc_, planes=1, src_order=[0], ts='Explicit VR Little Endian'), tpm_mask)
            margs.update(R=R, C=C)
            reqs.append(('buildTiled', margs))
            pending.append((dict(c), 'refusal', built))
        return
    exp = expected_raw(c, tpm_mask)[0]                                  # (R, C, S)
    alt = near_tie_alternative(c, tpm_mask, exp[None])[0]
    S = len(c['segs'])
    if c['mode'] == 'tpm':
        tr, tc = c['tile_size'] or c['src_tile']
        grid = _tile_grid(R, C, tr, tc)
        mask = _relayout(tpm_mask, c['mem'])
        order = list(range(len(grid)))
    else:
        tr, tc = str_, stc
        grid = src_corner
        mask = _relayout(np.stack([_cut(tpm_mask[0], r0, c0, tr, tc) for (r0, c0) in grid]), c['mem'])
        order = sorted(range(len(grid)), key=lambda k: grid[k])
        covered = np.zeros((R, C), dtype=bool)
        for (r0, c0) in grid:
            covered[r0:r0 + tr, c0:c0 + tc] = True
        exp = exp * covered[..., None]                                   # a tile the source lacks has no mask
        alt = alt * covered[..., None]
    keep = mask.copy()
    hist = dict(stream='tiled', tiled_mode=c['mode'], type=c['type'], layout=c['layout'], dtype=c['dtype'], omit=c['omit'],
                dimension_organization=c['dot'] or '-', own_tile_size=c['tile_size'] is not None, src_full=c['src_full'],
                src_order='raster' if c['src_frames'] == sorted(c['src_frames']) else 'permuted',
                src_complete=len(c['src_frames']) == nt_src, syntax=c['ts'], workers=c['workers'], mem=c['mem'],
                tiled_empty=c['empty'], segments=S, edge_tiles=(R % tr != 0) or (C % tc != 0), tiles=len(grid),
                residue=(tr * tc) % 8, small=tr * tc < 8)
    desc = dict(c)
    kw = dict(series_instance_uid=hd.UID(), series_number=2, sop_instance_uid=hd.UID(), instance_number=1, manufacturer='verif',
              manufacturer_model_name='m', software_versions='1', device_serial_number='1',
              max_fractional_value=c['mfv'], transfer_syntax_uid=_ts(c['ts']), omit_empty_frames=c['omit'])
    w = c['workers']
    kw['workers'] = _executor() if w == 'executor' else _ReversingExecutor() if w == 'reversing' else w
    if c['mode'] == 'tpm':
        kw['tile_pixel_array'] = True
        if c['tile_size'] is not None:
            ts_ = c['tile_size']
            kw['tile_size'] = {'tuple': tuple(ts_), 'list': list(ts_), 'numpy': (np.int64(ts_[0]), np.uint16(ts_[1]))}[c['tile_size_spelling']]
        if c['dot'] is not None:
            kw['dimension_organization_type'] = c['dot'] if c['dot_spelling'] == 'str' else hd.DimensionOrganizationTypeValues[c['dot']]
    descs = [seg_description(s) for s in c['segs']]
    try:
        seg = hd.seg.Segmentation([ds], mask, c['type'], descs, **kw)
    except Exception as e:  # noqa: BLE001
        if c['ts'].startswith('JPEG-LS') and 'Unable to encode' in str(e):
            ctx.case(outcome='codec-refused', **hist)
            return
        ctx.case(outcome='refused', **hist)
        ctx.fail(desc, f'valid tiled input refused: {type(e).__name__}: {e}'[:300], site='construct/tiled')
        return
    if not (mask.dtype == keep.dtype and np.array_equal(mask, keep)):
        ctx.fail(desc, 'constructor modified the caller\'s pixel_array', site='input-mutated')
    n = tr * tc
    tiles_exp = np.stack([_cut(exp, r0, c0, tr, tc) for (r0, c0) in grid])      # (T, tr, tc, S)
    tiles_alt = np.stack([_cut(alt, r0, c0, tr, tc) for (r0, c0) in grid])

    def same(got, want, walt):
        got = np.asarray(got).astype(np.int64)
        return got.shape == want.shape and bool(np.all((got == want) | (got == walt)))
    nonempty = bool(exp.any())
    blob = None
    try:
        bio = io.BytesIO()
        seg.save_as(bio)
        blob = bio.getvalue()
    except Exception as e:  # noqa: BLE001
        ctx.fail(desc, f'save_as failed: {type(e).__name__}: {e}'[:300], site='save_as')
    objs = {'memory': seg}
    if blob is not None:
        for path in ('eager', 'lazy') if np.random.default_rng([c['read_perm_seed'], 4243]).random() < 0.5 else ('lazy',):
            try:
                objs[path] = hd.seg.segread(io.BytesIO(blob), lazy_frame_retrieval=(path == 'lazy'))
            except Exception as e:  # noqa: BLE001
                ctx.fail(dict(desc, path=path), f'segread failed: {type(e).__name__}: {e}'[:300], site='segread')
    pr = np.random.default_rng(c['read_perm_seed'])
    full_org = str(seg.get('DimensionOrganizationType', '')) == 'TILED_FULL'
    # which source frames the stored frames may be asked by: tile for tile the source's own tiling
    # ... and when is a read by source frame answerable at all?  When every STORED frame is a tile the source image shows (a
    # frame on a tile the source lacks names no source frame; the library then refuses reads by source frame).  Which tiles
    # are stored follows from the mask alone: all of them, or with omit_empty_frames the non-empty ones (all if none is).
    occupied = [bool(tiles_exp[k].any()) for k in range(len(grid))]
    stored_tiles = [k for k in range(len(grid)) if occupied[k]] if (c['omit'] and any(occupied)) else list(range(len(grid)))
    ambiguous_empty = c['omit'] and any(bool(tiles_alt[k].any()) != occupied[k] for k in range(len(grid)))
    by_frame = ((not full_org) and (tr, tc) == (str_, stc) and not ambiguous_empty
                and all(grid[k] in src_corner for k in stored_tiles))
    ctx.hist('tiled_by_source_frame', 'answerable' if by_frame else 'not answerable' if not full_org and (tr, tc) == (str_, stc) else '-')
    ctx.hist('tiled_missing_source_tile', c.get('missing_tile') or '-')
    for path, obj in objs.items():
        key = None
        if nonempty:
            key = ('tiled', c['mode'], c['type'], c['layout'], c['dtype'], n % 8, n < 8, len(grid), S, c['omit'], c['dot'], c['ts'],
                   path, hist['src_order'], hist['edge_tiles'])
        ctx.case(sample=dict(desc, path=path) if ctx.evaluations % 97 == 0 else None, nontrivial_key=key, path=path, **hist)
        case = dict(desc, path=path)
        # (a) the total pixel matrix, whole and a region (1-based start, end exclusive)
        try:
            got = obj.get_total_pixel_matrix(rescale_fractional=False)
            if not same(got, exp, alt):
                ctx.fail(dict(case, request='total_pixel_matrix'), {'what': 'total pixel matrix read back differs from the mask passed in',
                                                                    'shape_got': list(np.shape(got)), 'shape_want': list(exp.shape)},
                         site=f'read-tpm/{path}')
            r0, c0 = int(pr.integers(1, R + 1)), int(pr.integers(1, C + 1))
            r1, c1 = int(pr.integers(r0 + 1, R + 2)), int(pr.integers(c0 + 1, C + 2))
            got = obj.get_total_pixel_matrix(row_start=r0, row_end=r1, column_start=c0, column_end=c1, rescale_fractional=False)
            if not same(got, exp[r0 - 1:r1 - 1, c0 - 1:c1 - 1], alt[r0 - 1:r1 - 1, c0 - 1:c1 - 1]):
                ctx.fail(dict(case, request='region', region=[r0, r1, c0, c1]), 'region of the total pixel matrix differs from the mask',
                         site=f'read-tpm/{path}')
            if c['type'] == 'FRACTIONAL':
                gotf = obj.get_total_pixel_matrix()
                if gotf.shape != exp.shape or not np.all((np.abs(gotf.astype(np.float64) - exp / c['mfv']) <= 1e-7) |
                                                         (np.abs(gotf.astype(np.float64) - alt / c['mfv']) <= 1e-7)):
                    ctx.fail(dict(case, request='total_pixel_matrix'), 'rescaled total pixel matrix differs from round(q*mfv)/mfv',
                             site=f'read-tpm-rescaled/{path}')
        except Exception as e:  # noqa: BLE001
            ctx.fail(dict(case, request='total_pixel_matrix'), f'get_total_pixel_matrix failed: {type(e).__name__}: {e}'[:300],
                     site=f'read-tpm/{path}')
        # (b) by source frame: frame f of the source shows the tile at src_corner[f - 1]; the mask of THAT region must come back
        if by_frame:
            ctx.case(path=path + '/by-source-frame', **hist)
            nsf = len(src_corner)
            sub = [int(x) for x in pr.permutation(nsf)[:int(pr.integers(1, nsf + 1))]]
            for req, rname in ((list(range(nsf)), 'supplied'), (sub, 'subset')):
                want = np.stack([_cut(exp, *src_corner[k], tr, tc) for k in req])
                walt = np.stack([_cut(alt, *src_corner[k], tr, tc) for k in req])
                try:
                    spell = str(pr.choice(FRAME_SPELLINGS))
                    got = obj.get_pixels_by_source_frame(ds.SOPInstanceUID, _spell_ints([k + 1 for k in req], spell),
                                                         assert_missing_frames_are_empty=True, rescale_fractional=False)
                    if not same(got, want, walt):
                        ctx.fail(dict(case, request=rname, order=req, spelling=spell),
                                 'mask read back by source frame is not the mask of the region that source frame shows',
                                 site=f'read-source-frame/{path}')
                except Exception as e:  # noqa: BLE001
                    ctx.fail(dict(case, request=rname, order=req), f'read by source frame failed: {type(e).__name__}: {e}'[:300],
                             site=f'read-source-frame/{path}')
    # (c) the written file through pydicom: frames, their recorded position / segment / source frame
    if blob is None:
        return
    try:
        d2 = pydicom.dcmread(io.BytesIO(blob))
        nf = int(d2.NumberOfFrames)
        px = d2.pixel_array.reshape((nf, tr, tc))
        ctx.case(path='pydicom', **hist)
        bad = None
        keys = []
        if full_org:
            cells = [(s, k) for s in ([None] if c['type'] == 'LABELMAP' else c['segs']) for k in range(len(grid))]
            if len(cells) != nf:
                bad = f'TILED_FULL object with {nf} frames for {len(cells)} (segment, tile) cells'
            keys = cells[:nf]
        else:
            pos_to_tile = {g: k for k, g in enumerate(grid)}
            for i, it in enumerate(d2.PerFrameFunctionalGroupsSequence):
                sg = int(it.SegmentIdentificationSequence[0].ReferencedSegmentNumber) if 'SegmentIdentificationSequence' in it else None
                pp = it.PlanePositionSlideSequence[0]
                g = (int(pp.RowPositionInTotalImagePixelMatrix) - 1, int(pp.ColumnPositionInTotalImagePixelMatrix) - 1)
                if g not in pos_to_tile:
                    bad = f'frame {i + 1} is recorded at {g}, which is no tile corner'
                    break
                keys.append((sg, pos_to_tile[g]))
                div = _div(it)
                if sg is not None and div[0] != sg:
                    bad = f'frame {i + 1}: first dimension index value {div[0]} is not its segment number {sg}'
                der = it.DerivationImageSequence
                if len(der):
                    fno = int(der[0].SourceImageSequence[0].ReferencedFrameNumber)
                    if not (1 <= fno <= len(src_corner)) or src_corner[fno - 1] != g or (tr, tc) != (str_, stc):
                        bad = (f'frame {i + 1} at {g} names source frame {fno} as its spatially identical source, which shows '
                               f'{src_corner[fno - 1] if 1 <= fno <= len(src_corner) else "nothing (no such frame)"}')
                elif (tr, tc) == (str_, stc) and g in src_corner:
                    # every stored frame that shows a source tile names exactly that source frame -- whatever other tiles the
                    # source image lacks (review of 41ae887)
                    bad = (f'frame {i + 1} at {g} is the tile source frame {src_corner.index(g) + 1} shows, but names no source '
                           'frame')
            if len(keys) != nf and not bad:
                bad = 'per-frame items != NumberOfFrames'
            # dimension index values increase with the frame content order (frames are stored in dimension order)
            divs = [_div(it) for it in d2.PerFrameFunctionalGroupsSequence]
            if not bad and any(divs[i] >= divs[i + 1] for i in range(len(divs) - 1)):
                bad = 'DimensionIndexValues do not strictly increase along the stored frames'
            # every index column counts the distinct values of its coordinate among the STORED frames: 1..k without gaps
            for col in range(1 if c['type'] != 'LABELMAP' else 0, len(divs[0]) if divs else 0):
                vals = sorted({d[col] for d in divs})
                if not bad and vals != list(range(1, len(vals) + 1)):
                    bad = f'index values of dimension {col + 1} are {vals}, not 1..{len(vals)} (ranks among the stored tiles)'
        if not bad:
            seen = set()
            for i, (sg, k) in enumerate(keys):
                if c['type'] == 'LABELMAP':
                    lab = np.zeros((tr, tc), dtype=np.int64)
                    for j, sn in enumerate(c['segs']):
                        lab[tiles_exp[k, :, :, j] != 0] = sn
                    w_, w2 = lab, lab
                else:
                    w_, w2 = tiles_exp[k, :, :, c['segs'].index(sg)], tiles_alt[k, :, :, c['segs'].index(sg)]
                if not np.all((px[i].astype(np.int64) == w_) | (px[i].astype(np.int64) == w2)):
                    bad = f'frame {i + 1} (segment {sg}, tile {k}) of the written file differs from the mask'
                    break
                if (sg, k) in seen:
                    bad = f'(segment, tile) {(sg, k)} stored twice'
                seen.add((sg, k))
            for k in range(len(grid)):
                for j, sn in enumerate(c['segs']):
                    kk = (None, k) if c['type'] == 'LABELMAP' else (sn, k)
                    if tiles_exp[k, :, :, j].any() and kk not in seen and not bad:
                        bad = f'non-empty (segment {sn}, tile {k}) has no frame'
        if bad:
            ctx.fail(dict(desc, path='pydicom'), bad, site='written-file/tiled')
        # get_stored_frame / pixel_array of the object agree with pydicom's view of the file, frame by frame
        try:
            pa = np.asarray(seg.pixel_array).reshape((nf, tr, tc))
            if not np.array_equal(pa.astype(np.int64), px.astype(np.int64)):
                ctx.fail(dict(desc, path='pixel_array'), 'pixel_array of the object differs from the frames of the written file',
                         site='pixel_array')
            for i in {0, nf - 1, int(pr.integers(0, nf))}:
                if not np.array_equal(np.asarray(seg.get_stored_frame(i + 1)).astype(np.int64), px[i].astype(np.int64)):
                    ctx.fail(dict(desc, path='get_stored_frame', frame=i + 1), 'get_stored_frame differs from the frame of the written file',
                             site='get_stored_frame')
        except Exception as e:  # noqa: BLE001
            ctx.fail(dict(desc, path='pixel_array'), f'pixel_array / get_stored_frame failed: {type(e).__name__}: {e}'[:300], site='pixel_array')
        # model: the tiles are the planes of the mask (L0 read-back, L1 frames / PixelData)
        if c['mode'] == 'tpm':
            # the model is handed the matrix and cuts the tiles itself (`buildTiled` / `tileMask`)
            margs = model_args(dict(c, rows=tr, cols=tc, planes=1, src_order=[0]), np.array(keep))
            margs.update(R=R, C=C)
            if not full_org:
                # position values of every grid tile as the constructor ranks them: row and column in the total pixel matrix,
                # then x, y, z of the tile's corner (source geometry of gen.sources.slide_image: origin 0, spacing 0.5,
                # row direction -y, column direction -x) -- computed here, not read from the object
                margs['coords'] = [[str(r0 + 1), str(c0 + 1), _rat(-0.5 * r0), _rat(-0.5 * c0), '0'] for (r0, c0) in grid]
            fn = 'buildTiled'
        else:
            margs = model_args(dict(c, rows=tr, cols=tc, planes=len(grid), src_order=list(range(len(grid))), spacing=-1.0), np.array(keep))
            margs['order'] = order
            margs['coords'] = [[str(r0 + 1), str(c0 + 1), _rat(-0.5 * r0), _rat(-0.5 * c0), '0'] for (r0, c0) in grid]
            fn = 'build'
        reqs.append((fn, dict(margs, keys=[[(-1 if s is None else s), k] for s, k in keys])))
        pending.append((desc, 'build', {'nframes': nf, 'bits': int(d2.BitsAllocated), 'overlap': str(d2.SegmentsOverlap),
                                        'keys': sorted([(-1 if s is None else s), k] for s, k in keys),
                                        'order': [[(-1 if s is None else s), k] for s, k in keys],
                                        'pd': list(bytes(d2.PixelData)) if c['ts'] in NATIVE else None,
                                        # slide-coordinate DimensionIndexValues (model: `frameDimsSlide`)
                                        'dims': ({f'{-1 if s is None else s},{k}': _div(it) for (s, k), it in
                                                  zip(keys, d2.PerFrameFunctionalGroupsSequence)}
                                                 if (not full_org and len(keys) == nf) else None),
                                        'frames': {f'{-1 if s is None else s},{k}': px[i].astype(np.int64).reshape(-1).tolist()
                                                   for i, (s, k) in enumerate(keys)}}))
        tpm_got = None
        if c['mode'] == 'tpm':
            try:        # L0: the matrix the model gathers from its tile frames (`assembleTPM`) vs get_total_pixel_matrix
                tpm_got = np.asarray(seg.get_total_pixel_matrix(rescale_fractional=False)).astype(np.int64)
            except Exception:  # noqa: BLE001
                tpm_got = None
            if tpm_got is not None and tpm_got.shape == (R, C, S):
                reqs.append(('tpm', margs))
                pending.append((dict(desc, request='total_pixel_matrix'), 'tpm', tpm_got.transpose(2, 0, 1).reshape(S, -1).tolist()))
    except Exception as e:  # noqa: BLE001
        ctx.fail(dict(desc, path='pydicom'), f'written file not decodable by pydicom: {type(e).__name__}: {e}'[:300],
                 site='written-file/tiled')


def run_pyramid(ctx, c):
    """`create_segmentation_pyramid` with one mask per level (one source image): every level is a tiled segmentation of its
    own and must hand its own mask back -- in memory and after write -> read."""
    import highdicom as hd
    from gen.sources import slide_image, seg_description
    R, C = c['rows'], c['cols']
    if R < 2 or C < 2:
        return
    ds, _ = slide_image(R, C, c['src_tile'][0], c['src_tile'][1], tiled_full=c['src_full'])
    r = ctx.rng('tiled/pyramid', c['idx'])
    sizes = [(R, C)]
    while sizes[-1][0] > 1 and sizes[-1][1] > 1 and len(sizes) < 3:
        sizes.append((r.randint(1, sizes[-1][0] - 1), r.randint(1, sizes[-1][1] - 1)))
    levels = []
    for lv, (a, b) in enumerate(sizes):
        cl = dict(c, rows=a, cols=b, stream=f'tiled/pyr{lv}', empty='none' if c['empty'] == 'some_tiles' else c['empty'], mem='C', planes=1)
        m, _ = build_mask(cl)
        levels.append((cl, np.array(m)))
    rank = r.choice([3, 2]) if c['layout'] != '4d' else 4
    arrays = [_relayout(m[0] if rank == 2 else m, c['mem']) for _, m in levels]
    hist = dict(stream='pyramid', type=c['type'], layout=c['layout'], dtype=c['dtype'], levels=len(levels), rank=rank, omit=c['omit'],
                syntax=c['ts'], src_full=c['src_full'])
    desc = dict(c, pyramid_sizes=[list(x) for x in sizes], rank=rank)
    try:
        segs = hd.seg.create_segmentation_pyramid(
            [ds], arrays, c['type'], [seg_description(s_) for s_ in c['segs']], series_instance_uid=hd.UID(), series_number=3,
            manufacturer='verif', manufacturer_model_name='m', software_versions='1', device_serial_number='1',
            max_fractional_value=c['mfv'], transfer_syntax_uid=_ts(c['ts']), omit_empty_frames=c['omit'])
    except Exception as e:  # noqa: BLE001
        if c['ts'].startswith('JPEG-LS') and 'Unable to encode' in str(e):
            ctx.case(outcome='codec-refused', **hist)
            return
        ctx.case(outcome='refused', **hist)
        ctx.fail(desc, f'valid pyramid input refused: {type(e).__name__}: {e}'[:300], site='construct/pyramid')
        return
    if len(segs) != len(levels):
        ctx.fail(desc, f'{len(segs)} pyramid levels for {len(levels)} masks', site='construct/pyramid')
        return
    uids = {str(s_.get('PyramidUID', '')) for s_ in segs}
    if len(uids) != 1 or '' in uids:
        ctx.fail(desc, f'pyramid levels do not share one PyramidUID: {sorted(uids)}', site='construct/pyramid')
    for lv, (seg, (cl, m)) in enumerate(zip(segs, levels)):
        exp = expected_raw(cl, m)[0]
        alt = near_tie_alternative(cl, m, exp[None])[0]
        objs = {'memory': seg}
        if (c['idx'] + lv) % 2 == 0:
            try:
                bio = io.BytesIO()
                seg.save_as(bio)
                objs['lazy' if lv % 2 else 'eager'] = hd.seg.segread(io.BytesIO(bio.getvalue()), lazy_frame_retrieval=bool(lv % 2))
            except Exception as e:  # noqa: BLE001
                ctx.fail(dict(desc, level=lv), f'write / read of a pyramid level failed: {type(e).__name__}: {e}'[:300], site='segread')
        for path, obj in objs.items():
            ctx.case(path=path, level=lv, nontrivial_key=('pyramid', c['type'], c['layout'], c['dtype'], lv, sizes[lv], path)
                     if exp.any() else None, **hist)
            try:
                got = np.asarray(obj.get_total_pixel_matrix(rescale_fractional=False)).astype(np.int64)
                if got.shape != exp.shape or not np.all((got == exp) | (got == alt)):
                    ctx.fail(dict(desc, level=lv, path=path), {'what': 'pyramid level does not hand its own mask back',
                                                               'shape_got': list(got.shape), 'shape_want': list(exp.shape)},
                             site=f'read-tpm/pyramid/{path}')
                if (int(obj.TotalPixelMatrixRows), int(obj.TotalPixelMatrixColumns)) != tuple(sizes[lv]):
                    ctx.fail(dict(desc, level=lv, path=path), 'TotalPixelMatrixRows/Columns of the level differ from its mask',
                             site=f'read-tpm/pyramid/{path}')
            except Exception as e:  # noqa: BLE001
                ctx.fail(dict(desc, level=lv, path=path), f'get_total_pixel_matrix failed: {type(e).__name__}: {e}'[:300],
                         site=f'read-tpm/pyramid/{path}')


def _tiled(ctx, reqs, pending):
    for idx in range(ctx.n(120, 1500)):
        c = gen_tiled(ctx, idx)
        run_tiled(ctx, c, reqs, pending)
        if c['pyramid']:
            run_pyramid(ctx, c)


ANCHORS = {
    'seg/sop.py': ['Segmentation._check_segment_numbers', 'Segmentation._check_and_cast_pixel_array',
                   'Segmentation._combine_segments', 'Segmentation._get_nonempty_plane_indices',
                   'Segmentation._get_segment_pixel_array', 'Segmentation._get_pffg_item',
                   'Segmentation._encode_pixels_native', 'Segmentation._get_pixels_by_seg_frame',
                   'Segmentation.get_pixels_by_source_instance', 'Segmentation.get_pixels_by_source_frame'],
    'image.py': ['_Image._build_luts_multiframe', '_Image._iterate_indices_for_stack', '_Image._get_pixels_by_frame',
                 '_Image._do_columns_identify_unique_frames', '_Image.get_raw_frame', '_Image.get_stored_frame'],
    'frame.py': ['encode_frame', 'decode_frame'],
}
_DRIFT = None


def _anchor_hashes():
    """Normalised AST hash (docstrings stripped) of every hand-modelled function of the current tree."""
    import ast
    import hashlib
    import hd_env
    out = {}
    for rel, quals in ANCHORS.items():
        try:
            tree = ast.parse(open(os.path.join(hd_env.HD_REPO, 'src', 'highdicom', rel)).read())
        except OSError:
            continue
        for qual in quals:
            node = tree
            for part in qual.split('.'):
                node = next((n for n in getattr(node, 'body', []) if isinstance(n, (ast.ClassDef, ast.FunctionDef))
                             and n.name == part), None)
                if node is None:
                    break
            if node is None:
                out[f'{rel}::{qual}'] = 'missing'
                continue
            body = node.body
            if body and isinstance(body[0], ast.Expr) and isinstance(getattr(body[0], 'value', None), ast.Constant) \
                    and isinstance(body[0].value.value, str):
                body = body[1:]
            txt = ast.unparse(node.args) + '\n' + '\n'.join(ast.unparse(b) for b in body)
            out[f'{rel}::{qual}'] = hashlib.sha256(txt.encode()).hexdigest()[:16]
    return out


DRIFT_EXTRA_WALL_S = 40        # wall-time cap of the extra cases a drift buys, per shard


def _drift_factor(ctx):
    """DESIGN 5.4: a hand-modelled function whose source differs from the version the model was validated against does not
    alarm; it buys EXTRA generated cases in the quick tier (up to 4 x the budget) -- but only as many as fit into
    DRIFT_EXTRA_WALL_S seconds per shard after the regular budget is done: a drift alone (say a foreign fix to an anchored
    function) never multiplies the running time, never changes the verdict, and is recorded in the evidence (note
    `anchor_drift`)."""
    global _DRIFT
    if _DRIFT is None:
        path = os.path.join(os.path.dirname(__file__), '..', 'anchors_C01.json')
        try:
            ref = json.load(open(path))
        except OSError:
            ref = {}
        cur = _anchor_hashes()
        _DRIFT = sorted(k for k in cur if ref.get(k) != cur[k])
        if _DRIFT:
            ctx.note(f'anchor_drift (up to x4 generated cases in the quick tier, capped at {DRIFT_EXTRA_WALL_S} s of extra wall time '
                     'per shard; no effect on the verdict): ' + ', '.join(_DRIFT))
    return 4 if (_DRIFT and ctx.tier == 'quick' and not ctx.search_mode) else 1


def _many_segments(ctx, reqs, pending):
    """The segment-count dimension across the one-byte boundary: masks with 255 / 256 / 257 / 300 described segments for
    every segmentation type (labels above one byte must survive whatever the 8-bit pixel type of BINARY / FRACTIONAL
    frames; a LABELMAP turns 16 bit at 256), label-map style and stacked input, LABELMAP also with sparse numbers up to
    65535 -- constructed, written, and read back per segment (the default read: one channel per requested segment)."""
    r = ctx.rng('many/plan', 0)
    plans = [('BINARY', '3d', 257, False), ('FRACTIONAL', '3d', r.choice([256, 300]), False),
             ('LABELMAP', '3d', r.choice([256, 257]), False), ('LABELMAP', '3d', r.choice([255, 256, 300]), True),
             ('LABELMAP', '4d', r.choice([256, 257]), r.random() < 0.5)]
    if ctx.tier != 'quick':
        plans += [(t, lay, n, sp) for t in ('BINARY', 'FRACTIONAL', 'LABELMAP') for lay in ('3d', '4d') for n in (255, 256, 257, 300)
                  for sp in ((False, True) if t == 'LABELMAP' else (False,))]
    for idx, (typ, layout, nseg, sparse) in enumerate(plans):
        nr = ctx.np_rng('many/pix', idx)
        P, R, C = (1, 11, 29) if ctx.tier == 'quick' else (2, 11, 29)
        if layout == '4d':
            R, C = 4, 7                 # (a stack needs no room for every label)
        segs = list(range(1, nseg + 1))
        if sparse:
            # described numbers not contiguous, not starting at 1, up to the largest a 16 bit label map can hold
            segs = sorted(set(int(v) for v in nr.choice(np.arange(2, 65535), size=nseg - 1, replace=False)) | {65535})
        if layout == '3d':
            # every label occurs at least once (most exactly once), the rest is background / repeats
            lab = np.zeros(P * R * C, dtype=np.int64)
            pos = nr.permutation(P * R * C)
            lab[pos[:nseg]] = np.arange(1, nseg + 1)
            lab[pos[nseg:nseg + 10]] = nr.integers(max(1, nseg - 50), nseg + 1, size=min(10, len(pos) - nseg))
            arr = np.concatenate([[0], segs])[lab].reshape(P, R, C)
            dtype = 'uint16'
        else:
            lab = nr.integers(0, nseg + 1, size=(P, R, C))
            lab.reshape(-1)[:4] = [nseg, nseg - 1, 255 if nseg > 255 else 1, 256 if nseg > 256 else 2]
            arr = np.stack([(lab == i + 1) for i in range(nseg)], axis=-1).astype(np.int64)
            dtype = 'uint8'
        c = {'idx': idx, 'stream': 'many', 'seed': ctx.seed, 'tier': ctx.tier, 'source': ['series', 'enhanced'][idx % 2],
             'planes': P, 'rows': R, 'cols': C, 'src_order': list(range(P))[::-1], 'type': typ, 'dtype': dtype,
             'layout': layout, 'segs': segs, 'mfv': 255, 'omit': True, 'empty': 'none',
             'density': 0.8, 'ts': 'Explicit VR Little Endian', 'workers': 0, 'bad': None, 'read_perm_seed': idx,
             'mem': 'C', 'explicit': arr.tolist()}
        # (the model is asked for the object and one read-back only: its interpreter is slow on 300 channels)
        run_case(ctx, c, reqs, pending, paths=('memory', 'lazy') if idx % 2 else ('memory', 'eager'), light=True)
        ctx.hist('many_segments', f'{typ}/{layout}/{nseg}{"/sparse" if sparse else ""}')


def _exhaustive_sizes(ctx, reqs, pending):
    """Finite sub-domain enumerated completely: BINARY, 1 x n frames for every n in 1..N and every plane count
    1..P (all residues mod 8 on both sides of 8 pixels, every number of carried bits), both empty-frame policies."""
    N, P = (12, 3) if ctx.tier == 'quick' else (33, 5)
    for n in range(1, N + 1):
        for planes in range(1, P + 1):
            for omit in (False, True):
                c = {'idx': n * 100 + planes * 2 + int(omit), 'stream': 'sizes', 'seed': ctx.seed, 'tier': ctx.tier,
                     'source': 'series', 'planes': planes, 'rows': 1, 'cols': n, 'src_order': list(range(planes)),
                     'type': 'BINARY', 'dtype': 'uint8', 'layout': '3d', 'segs': [1], 'mfv': 255, 'omit': omit,
                     'empty': 'none', 'density': 0.5, 'ts': 'Explicit VR Little Endian', 'workers': 0, 'bad': None,
                     'read_perm_seed': n * 7 + planes}
                run_case(ctx, c, reqs, pending, paths=('memory', 'lazy'))
    # long carry chains: many frames of every small size (the remainder cycles through all bit offsets more than twice),
    # one and two segments, planes in shuffled order
    for n in range(1, (10 if ctx.tier == 'quick' else 18)):
        planes = 17 if n % 2 else 23
        r = ctx.rng('sizes/long', n)
        perm = list(range(planes))
        r.shuffle(perm)
        c = {'idx': 5000 + n, 'stream': 'sizes', 'seed': ctx.seed, 'tier': ctx.tier, 'source': ['series', 'enhanced'][n % 2],
             'planes': planes, 'rows': 1 if n < 8 else 3, 'cols': n if n < 8 else n // 3 + 1, 'src_order': perm, 'type': 'BINARY',
             'dtype': ['uint8', 'bool', 'uint16'][n % 3], 'layout': ['3d', '4d'][n % 2], 'segs': [1] if n % 3 == 1 else [1, 2],
             'mfv': 255, 'omit': n % 4 == 0, 'empty': ['none', 'some_seg_planes'][n % 2], 'density': 0.5,
             'ts': NATIVE[n % 2], 'workers': 0, 'bad': None, 'read_perm_seed': n * 13 + 1}
        if c['dtype'] == 'bool' and c['layout'] != '4d':
            c['segs'] = [1]
        run_case(ctx, c, reqs, pending, paths=('memory', 'lazy'))
        ctx.hist('long_chain', f"{c['rows'] * c['cols']} px x {planes} planes x {len(c['segs'])} segments")
    ctx.exhaustive.append(f'BINARY single-segment masks of 1 x n pixels, every n in 1..{N}, every plane count 1..{P}, '
                          'omit_empty_frames in {False, True} (random content): PixelData bytes, frames and read-back')


def streams(ctx):
    """The named small streams of a run, in order: thunks `(ctx, reqs, pending)` (the generated cases are sharded in `run`)."""
    def corpus(sub, reqs, pending):
        files = sorted(__import__('glob').glob(os.path.join(os.path.dirname(__file__), '..', '..', 'corpus', 'C01', '*.json')))
        for f in files:
            c = json.load(open(f))
            (run_tiled if c.get('stream') == 'tiled' else run_case)(sub, c, reqs, pending)
    out = [('corpus', corpus), ('helpers', _helpers)]
    if not ctx.search_mode:
        out.append(('sizes', _exhaustive_sizes))
    return out


SHARDS = 4          # fixed (not the CPU count): which shard runs a case is a function of its index only
_SHARD_JOBS = None


def _shard_main(k):
    """Child process k: run its share of the streams on a fresh Ctx, ask the model, compare; hand the counters back."""
    global _POOL
    _POOL = None                                    # a thread pool does not survive fork()
    import warnings
    warnings.simplefilter('ignore')
    parent, jobs = _SHARD_JOBS
    sub = type(parent)(parent.prop, parent.tier, parent.seed, parent.scale, parent.driver)
    sub.search_mode = parent.search_mode
    sub.model_available = parent.model_available
    reqs, pending = [], []
    try:
        for thunk in jobs[k]:
            thunk(sub, reqs, pending)
        _compare(sub, reqs, pending)
        err = None
    except Exception:  # noqa: BLE001
        import traceback
        err = traceback.format_exc()
    return {'err': err, 'evaluations': sub.evaluations, 'nontrivial': sub.nontrivial,
            'hists': {a: dict(b) for a, b in sub.hists.items()}, 'samples': sub.samples, 'failures': sub.failures,
            'disagreements': sub.disagreements, 'l2': sub.l2_disagreements, 'notes': sub.notes,
            'exhaustive': sub.exhaustive, 'model_available': sub.model_available,
            'calls': sub.driver.calls, 'requests': sub.driver.requests}


def _merge(ctx, res):
    ctx.evaluations += res['evaluations']
    ctx.nontrivial |= res['nontrivial']
    for a, b in res['hists'].items():
        for key, n in b.items():
            ctx.hists[a][key] += n
    ctx.samples += res['samples'][:max(0, 6 - len(ctx.samples))]
    ctx.failures += res['failures'][:max(0, 200 - len(ctx.failures))]
    ctx.disagreements += res['disagreements'][:max(0, 50 - len(ctx.disagreements))]
    ctx.l2_disagreements += res['l2'][:max(0, 50 - len(ctx.l2_disagreements))]
    for s in res['notes']:
        if s not in ctx.notes:
            ctx.note(s)
    ctx.exhaustive += [e for e in res['exhaustive'] if e not in ctx.exhaustive]
    ctx.model_available = ctx.model_available and res['model_available']
    ctx.driver.calls += res['calls']
    ctx.driver.requests += res['requests']


def run(ctx):
    """The streams are spread over SHARDS + 3 forked processes (corpus, helpers and size grid; many segments; tiled;
    3 + idx % SHARDS: the generated cases).  Every case is a pure function of (seed, stream, index) -- the sharding
    only decides which process evaluates it; HDV_SHARDS=0 runs everything in this process."""
    global _SHARD_JOBS
    import warnings
    warnings.simplefilter('ignore')
    named = streams(ctx)
    n_base = ctx.n(480, 3600)
    n_cases = n_base * _drift_factor(ctx)

    def case_job(k):
        def job(sub, reqs, pending):
            import time
            t_extra = None
            for idx in range(k, n_cases, SHARDS):
                if idx >= n_base:           # extra cases bought by an anchor drift: only while they fit into the cap
                    t_extra = t_extra or time.time()
                    if time.time() - t_extra > DRIFT_EXTRA_WALL_S:
                        sub.hist('drift_extra_cases', 'stopped at the wall-time cap')
                        break
                    sub.hist('drift_extra_cases', 'run')
                run_case(sub, gen_case(sub, idx), reqs, pending)
        return job
    jobs = [[thunk for _n, thunk in named], [_many_segments], [_tiled]] + [[case_job(k)] for k in range(SHARDS)]
    _SHARD_JOBS = (ctx, jobs)
    if os.environ.get('HDV_SHARDS') == '0':
        results = [_shard_main(k) for k in range(len(jobs))]
    else:
        import multiprocessing
        from concurrent.futures import ProcessPoolExecutor
        with ProcessPoolExecutor(len(jobs), mp_context=multiprocessing.get_context('fork')) as ex:
            results = list(ex.map(_shard_main, range(len(jobs))))
    for res in results:
        _merge(ctx, res)
    errs = [r['err'] for r in results if r['err']]
    if errs:
        raise RuntimeError('shard crashed:\n' + errs[0])
    _after_compare(ctx)


def _after_compare(ctx):
    if ctx.l2_disagreements:
        _escalate_l2(ctx)


def shrink(ctx, failure):
    """Smaller case failing at the same site: fewer planes / rows / cols / segments (content is re-drawn from the
    case's PRNG, so each candidate is simply tried)."""
    case = {k: v for k, v in failure['case'].items() if k not in ('path', 'request', 'order', 'bad_applied')}
    if 'read_perm_seed' not in case or case.get('explicit') is not None or case.get('stream') == 'tiled':
        return None
    site = failure.get('site')
    best = failure
    tries = 0
    improved = True
    while improved and tries < 24:
        improved = False
        cur = {k: v for k, v in best['case'].items() if k not in ('path', 'request', 'order', 'bad_applied')}
        cands = []
        if cur['planes'] > 1:
            cands.append(dict(cur, planes=cur['planes'] - 1, src_order=sorted(range(cur['planes'] - 1),
                                                                               key=lambda i: cur['src_order'][i])))
        for k in ('rows', 'cols'):
            if cur[k] > 1 and not cur['ts'].startswith('JPEG-LS'):
                cands.append(dict(cur, **{k: max(1, cur[k] // 2)}))
                cands.append(dict(cur, **{k: cur[k] - 1}))
        if len(cur['segs']) > 1 and cur['type'] != 'LABELMAP':
            cands.append(dict(cur, segs=cur['segs'][:-1]))
        for cand in cands:
            tries += 1
            sub = type(ctx)(ctx.prop, cand.get('tier', ctx.tier), ctx.seed, 1, ctx.driver)
            try:
                run_case(sub, cand, [], [], paths=('memory', 'eager', 'lazy'))
            except Exception:  # noqa: BLE001
                continue
            same = [f for f in sub.failures if f.get('site') == site]
            if same:
                best = same[0]
                improved = True
                break
    return best


def replay(ctx, case):
    sub = type(ctx)(ctx.prop, ctx.tier, ctx.seed, 1, ctx.driver)
    c = {k: v for k, v in case.items() if k not in ('path', 'request', 'order', 'bad_applied', 'spelling', 'region', 'frame')}
    sub.tier = c.get('tier', sub.tier)
    (run_tiled if c.get('stream') == 'tiled' else run_case)(sub, c, [], [])
    return sub.failures[:3] or None


def _own_open_findings():
    p = os.path.join(os.path.dirname(__file__), '..', '..', 'findings', 'C01.json')
    try:
        return [f for f in json.load(open(p)) if f.get('status') == 'open']
    except OSError:
        return []


def attribute(failure, open_findings):
    """Attribute an oracle failure to an open known finding (by call site + input class), else None.  C01 has no open
    finding at present (the two former ones were fixed in /repo f08a76b and d437594): nothing is attributed."""
    return None


if __name__ == '__main__':
    # /venv/bin/python harness/corr/C01.py --refresh-anchors   (after the model has been re-validated against the tree)
    import sys
    sys.path.insert(0, os.path.join(os.path.dirname(os.path.abspath(__file__)), '..'))
    if '--refresh-anchors' in sys.argv:
        import hd_env
        hd_env.setup()
        h = _anchor_hashes()
        with open(os.path.join(os.path.dirname(os.path.abspath(__file__)), '..', 'anchors_C01.json'), 'w') as f:
            json.dump(h, f, indent=1, sort_keys=True)
        print(len(h), 'anchors written')
