"""C13  SR content items keep their values and parse back to the same type.

Tie T: T13s (tables and coordinate-count decision trees of sr/value_types.py), T13se (enumerations of sr/enum.py).
Tie C: generated item trees of all 15 value types are built by the real constructors and by the Lean model
(Model/SRItems.lean): ok-vs-refused, the attribute set written, the accessor values, and the class / refusal of
parsing the plain dataset (in memory and through DICOM bytes).
Oracle (independent of the model): accessor value = constructed value; parsed class = original class; name,
relationship, value and children equal; every forbidden input raises.
"""
from __future__ import annotations

import copy as _copy
import datetime
import io
import json
import os
from fractions import Fraction

import numpy as np

PROP = 'C13'
TARGETS = ['T13s', 'T13se', 'T13k', 'T13v', 'T13sa', 'T14', 'T14v']
LEAN_MODULES = ['HdVerif.Props.C13']
MODEL_MODULES = ['HdVerif.Model.SRItems', 'HdVerif.Model.SRItemsArgs']
NAMESPACE = 'HdVerif.C13'
DRIVER = 'Drivers/C13.lean'
RULE = ('one case = one content item tree (depth <= 3) of a value type drawn uniformly from the 15, with generated '
        'admissible values (code values of <= 16, > 16 and URN form, given as CodedConcept or as pydicom Code with and without scheme version; ints and floats incl. extremes; dates / times with '
        'fractions and offsets; coordinate arrays of every graphic type at and around the required counts in every memory layout (C, Fortran, transposed / strided / reversed views, read-only, float32, int); frame / '
        'segment / channel lists incl. single values) or, in ~25 % of the cases, one forbidden feature (count off by '
        'one, wrong dimension, open (grossly, in one coordinate only, or by a float32-exact 2^-13..2^-15 gap at magnitude ~100) or non-coplanar polygon, unknown enumerated value, no time points, child without '
        'relationship type); each accepted tree is read back through its accessors, parsed from a plain in-memory '
        'copy and from DICOM bytes (explicit and implicit VR), read a second time after the values it handed out were edited in place (built and parsed items, then written again), and parsed in damaged form (required attribute removed, '
        'value type swapped / unknown / missing, wrong class, child relationship removed).  Non-trivial = accepted '
        'tree parsed back with all values compared; distinct by (value type, graphic type, counts, option pattern, '
        'depth, children types).  Round 6: every item with children gets them as list / tuple / pydicom Sequence / ContentSequence / another item\'s content / a query-style result, the caller keeps that container and edits it afterwards (append, extend, insert, delete, replace, reverse, clear); the item must report and write the children it was given.  Round 2: every argument is passed in a spelling drawn for it (enum member / string, str / UID classes, '
        'python / pydicom value objects / DICOM strings, int / numpy / list / tuple / ndarray / scalar vs one-item sequence, omitted / None, two '
        'TCOORD arguments at once); planted in addition: empty sequences, channel items that are not pairs, members of another enumeration, NUM '
        'values of types the constructor does not take (model-only); each accepted tree is parsed through three more (source, entry point, copy '
        'flag) routes incl. _from_dataset_derived and as the child of a parent data set, with the copy= promises checked, and is refused by each '
        'of the 14 other classes; planes with collinear / repeated leading points, scaled x64 and /64; time offsets 0.0 / -0.0 / 0')
ASSUMPTIONS = [
    'pydicom value conversions (DS, DA, TM, DT, PersonName, UID, FL/FD encoding) are the identity on the generated '
    'values: numbers are ints below 2^40 or floats stored exactly in FloatingPointValue; 60-70 % of the coordinate arrays hold multiples of '
    '1/8 below 2^15 (exact as float32), the others arbitrary doubles (0.1, 1/3, uniform) whose expected stored value is the float32 '
    'cast computed by the harness (np.float32, handed to the model as the table `fl`); dates/times carry at most microseconds',
    'exact coplanarity over Q agrees with spatial.are_points_coplanar (SVD, tol 1e-5) on the generated points: '
    'coplanar sets are exactly coplanar dyadic points, non-coplanar sets deviate by >= 1/4',
    'concept names and codes are well-formed CodedConcepts (their equality and parsing are property C17)',
    'frame numbers, segment numbers and sample positions are 1 .. 10^6 (segment numbers above 65535 / negative sample positions are accepted '
    'by the constructors and fail only in pydicom\'s writer); coordinates stay inside the float32 range (beyond it they become inf)',
    'dates / times given as strings are complete DA / TM / DT strings produced from a datetime (pydicom accepts e.g. the ISO form '
    '2020-01-02T03:04:05 as DT and reads it as the year 2020: not generated); None / empty strings for values are outside the documented types',
    'whole numbers spelled as floats (3.0) are generated for frame numbers (IS) and sample positions (converted by int()), not for '
    'segment numbers / waveform channels (VR US: accepted by the constructor, pydicom cannot write them); 0 and negative frame / segment '
    'numbers and digit strings are accepted by the constructors (run once) and not generated',
    'a NUM value of a type that is neither int nor float (numpy integer, numpy float32, Decimal, str) is refused by the library with TypeError: '
    'compared with the model only, the oracle does not demand the refusal',
]
MODELLED_NOT_VERIFIED = ['pydicom Dataset / DataElement value conversion and VM handling (single value vs MultiValue)',
                         'pydicom dcmwrite / dcmread', 'numpy flatten / reshape / array_equal',
                         'spatial.are_points_coplanar (SVD with tolerance)', 'valuerep.check_person_name',
                         'CodedConcept.from_dataset (C17)', 'copy.deepcopy of a data set (copy=True); object identity under copy=False (oracle only)',
                         'Enum(value) look-up by member or value; UID / PersonName / DA / TM / DT constructors of pydicom']

VTS = ['CODE', 'COMPOSITE', 'CONTAINER', 'DATE', 'DATETIME', 'IMAGE', 'NUM', 'PNAME', 'SCOORD', 'SCOORD3D', 'TCOORD',
       'TEXT', 'TIME', 'UIDREF', 'WAVEFORM']
CLASS = {'CODE': 'CodeContentItem', 'COMPOSITE': 'CompositeContentItem', 'CONTAINER': 'ContainerContentItem',
         'DATE': 'DateContentItem', 'DATETIME': 'DateTimeContentItem', 'IMAGE': 'ImageContentItem',
         'NUM': 'NumContentItem', 'PNAME': 'PnameContentItem', 'SCOORD': 'ScoordContentItem',
         'SCOORD3D': 'Scoord3DContentItem', 'TCOORD': 'TcoordContentItem', 'TEXT': 'TextContentItem',
         'TIME': 'TimeContentItem', 'UIDREF': 'UIDRefContentItem', 'WAVEFORM': 'WaveformContentItem'}
RELS = ['CONTAINS', 'HAS PROPERTIES', 'HAS OBS CONTEXT', 'HAS ACQ CONTEXT', 'INFERRED FROM', 'SELECTED FROM',
        'HAS CONCEPT MOD']
GT2 = {'POINT': 1, 'CIRCLE': 2, 'ELLIPSE': 4, 'MULTIPOINT': None, 'POLYLINE': None}
GT3 = {'POINT': 1, 'ELLIPSE': 4, 'ELLIPSOID': 6, 'MULTIPOINT': None, 'POLYLINE': None, 'POLYGON': None}
TRT = ['POINT', 'MULTIPOINT', 'SEGMENT', 'MULTISEGMENT', 'BEGIN', 'END']
REQUIRED = {'CODE': ['ConceptCodeSequence'], 'COMPOSITE': ['ReferencedSOPSequence'], 'CONTAINER': ['ContinuityOfContent'],
            'DATE': ['Date'], 'DATETIME': ['DateTime'], 'IMAGE': ['ReferencedSOPSequence'], 'NUM': ['MeasuredValueSequence'],
            'PNAME': ['PersonName'], 'SCOORD': ['GraphicType', 'GraphicData'], 'SCOORD3D': ['GraphicType', 'GraphicData'],
            'TCOORD': ['TemporalRangeType'], 'TIME': ['Time'], 'TEXT': ['TextValue'], 'UIDREF': ['UID'],
            'WAVEFORM': ['ReferencedSOPSequence']}      # PS3.3 C.17.3 / C.18: what each value type cannot do without
LAYOUTS = ['C', 'C', 'F', 'transposed-view', 'strided-rows', 'strided-columns', 'reversed-view', 'read-only', 'float32', 'int']


def _array(pts, dim, layout, ndim=2):
    """The logical (n x dim) array in the requested memory layout (same values, same shape)."""
    n = len(pts)
    base = np.array(pts, dtype=float).reshape(n, dim)
    if ndim == 1:
        return base.reshape(-1)
    if ndim == 3:
        return np.stack([base, base + 1.0], axis=2)          # shape (n, dim, 2): rows and width look right
    if layout == 'F':
        arr = np.asfortranarray(base)
    elif layout == 'transposed-view':
        arr = np.ascontiguousarray(base.T).T                 # F-contiguous view of a (dim x n) array
    elif layout == 'strided-rows':
        big = np.full((2 * n + 1, dim), 777.0)
        big[::2][:n] = base
        arr = big[::2][:n]
    elif layout == 'strided-columns':
        big = np.full((n, 2 * dim), 777.0)
        big[:, ::2] = base
        arr = big[:, ::2]
    elif layout == 'reversed-view':
        arr = np.ascontiguousarray(base[::-1])[::-1]
    elif layout == 'read-only':
        arr = base.copy()
        arr.flags.writeable = False
    elif layout == 'float32':
        arr = base.astype(np.float32)                        # generated coordinates are float32-exact
    elif layout == 'int' and np.array_equal(base, np.round(base)):
        arr = base.astype(np.int64)
    else:
        arr = base
    assert arr.shape == (n, dim) and np.array_equal(np.asarray(arr, dtype=float),
                                                    base.astype(np.float32).astype(float) if layout == 'float32' else base)
    return arr


MODEL_ONLY_PLANTS = ('numtype',)
NAME_MANDATORY = ['TEXT', 'NUM', 'CODE', 'DATETIME', 'DATE', 'TIME', 'UIDREF', 'PNAME']   # PS3.3 C.17.3 Table C.17-5
ERR = {'IndexError': 'index', 'ValueError': 'value', 'TypeError': 'type', 'RuntimeError': 'runtime',
       'KeyError': 'key', 'AttributeError': 'attribute'}


def _kind(e):
    return ERR.get(type(e).__name__, 'other:' + type(e).__name__)


# ----------------------------------------------------------------------------------------------
# generator: item specifications (JSON-able, pure function of (seed, stream, index))

def _code(r, form=None):
    form = form or r.choice(['short', 'short', 'short', 'long', 'urn', 'url'])
    if form == 'short':
        v = ''.join(r.choice('0123456789ABCDEF') for _ in range(r.choice([1, 4, 8, 15, 16])))
    elif form == 'long':
        v = ''.join(r.choice('0123456789abcdef-') for _ in range(r.choice([17, 18, 30, 64])))
    elif form == 'urn':
        v = 'urn:oid:1.2.' + '.'.join(str(r.randrange(1000)) for _ in range(r.choice([3, 5])))
    else:
        v = 'http://example.org/c/' + ''.join(r.choice('abcdefgh') for _ in range(r.choice([1, 12])))
    return {'v': v, 's': r.choice(['99HDV', 'DCM', 'SCT', 'UCUM']), 'm': 'meaning ' + str(r.randrange(1000)),
            'ver': r.choice([None, None, '2.1', '1.0']), 'as_code': r.random() < 0.3}


def _uid(r):
    return '1.2.826.0.1.3680043.10.' + '.'.join(str(r.randrange(1, 100000)) for _ in range(r.choice([1, 2, 4])))


def _dyadic(r, den=8, lim=2 ** 12):
    return r.randint(-lim * den, lim * den) / den


def _float(r):
    x = r.random()
    if x < 0.3:
        return _dyadic(r, 1024, 2 ** 20)
    if x < 0.6:
        return r.uniform(-1e6, 1e6)
    if x < 0.8:
        return r.choice([0.0, -0.0, 0.1 + 0.2, 1e-300, 1.7976931348623157e308, -1.7976931348623157e308, 5e-324, 1 / 3,
                         2.0 ** 53 + 2, 123456789.123456789, 1e22, 1e-7])
    import struct
    while True:
        v = struct.unpack('<d', struct.pack('<Q', r.getrandbits(64)))[0]
        if v == v and abs(v) != float('inf'):
            return v


def coplanar_exact(pts):
    """Exact test over Q: all points in one plane <=> every 3x3 determinant of differences to the first point is 0."""
    P = [[Fraction(x) for x in p] for p in pts]
    if len(P) < 4:
        return True
    D = [[p[k] - P[0][k] for k in range(3)] for p in P[1:]]
    n = len(D)
    for i in range(n):
        for j in range(i + 1, n):
            for k in range(j + 1, n):
                a, b, c = D[i], D[j], D[k]
                det = (a[0] * (b[1] * c[2] - b[2] * c[1]) - a[1] * (b[0] * c[2] - b[2] * c[0])
                       + a[2] * (b[0] * c[1] - b[1] * c[0]))
                if det != 0:
                    return False
    return True


def _svd_deviation(pts):
    p = np.array(pts, dtype=float)
    c = p - p.mean(axis=0, keepdims=True)
    u, _, _ = np.linalg.svd(c.T)
    return float(np.abs(u[:, -1] @ c.T).max())


PLANE_SHAPES = ['generic', 'generic', 'collinear-prefix', 'repeated-first', 'large', 'tiny']


def _plane_points(r, n, closed, coplanar, shape='generic'):
    """n points (x, y, z), dyadic; exactly coplanar, or clearly not (deviation from the best plane >= 0.05, tolerance
    of the library 1e-5); first == last iff closed (n >= 2).
    shape: 'collinear-prefix' = the first three points on one line (a vertex in the middle of the first edge, a contour
    traced pixel by pixel), 'repeated-first' = the second point repeats the first -- the first three points then fix NO
    plane; 'large' / 'tiny' = the whole figure scaled by 64 / 1/64 (a tolerance relative to the extent would differ).
    A vertex that leaves the plane is never one of the first three."""
    degenerate = shape in ('collinear-prefix', 'repeated-first') and n >= 4
    scale = {'large': 64.0, 'tiny': 1 / 64}.get(shape, 1.0)
    for _ in range(400):
        o = [_dyadic(r, 8, 64) for _ in range(3)]
        u = [r.randint(-4, 4) / 2 for _ in range(3)]
        v = [r.randint(-4, 4) / 2 for _ in range(3)]
        w = [u[1] * v[2] - u[2] * v[1], u[2] * v[0] - u[0] * v[2], u[0] * v[1] - u[1] * v[0]]
        if not any(w):
            continue
        pts = []
        seen = set()
        while len(pts) < n:
            a, b = r.randint(-8, 8) / 2, r.randint(-8, 8) / 2
            if (a, b) in seen:
                continue
            seen.add((a, b))
            pts.append([o[k] + a * u[k] + b * v[k] for k in range(3)])
        if degenerate:
            step = r.choice([0.5, 1.0, -1.0])
            if shape == 'collinear-prefix':
                pts[1] = [pts[0][k] + step * u[k] for k in range(3)]
                pts[2] = [pts[0][k] + 2 * step * u[k] for k in range(3)]
            else:
                pts[1] = list(pts[0])
        if closed and n >= 2:
            pts[-1] = list(pts[0])
        if not coplanar and n >= 4:
            lo = 3 if degenerate else 1
            hi = n - 1 if closed else n
            if hi <= lo:
                continue
            k = r.randrange(lo, hi)
            sgn = r.choice([1, 2, -1])
            pts[k] = [pts[k][i] + sgn * w[i] for i in range(3)]
        pts = [[x * scale for x in p] for p in pts]
        if any(float(np.float32(x)) != x for p in pts for x in p):
            continue
        if coplanar_exact(pts) != (coplanar or n < 4):
            continue
        if not coplanar and n >= 4 and _svd_deviation(pts) < 0.05:
            continue
        return pts
    raise RuntimeError('could not generate points')


def gen_item(r, depth=0, vt=None, bad=None, need_rel=False):
    """bad: None or the one forbidden feature to plant in THIS item."""
    vt = vt or r.choice(VTS)
    d = {'vt': vt, 'name': _code(r), 'rel': r.choice(RELS) if (need_rel or r.random() < 0.7) else None, 'args': {},
         'children': [], 'bad': None}
    a = d['args']
    if vt == 'CODE':
        a['value'] = _code(r)
    elif vt == 'TEXT':
        # trailing spaces are padding in DICOM text VRs (not preserved through bytes): none generated
        a['value'] = ''.join(r.choice('abc XYZ 0123 .,;-') for _ in range(r.choice([0, 1, 5, 40, 200]))).rstrip(' ')
    elif vt == 'NUM':
        if r.random() < 0.5:
            a['value'] = r.choice([0, 1, -1, r.randint(-2 ** 40, 2 ** 40), r.randint(-1000, 1000), 99999999999999])
            a['float'] = False
        else:
            a['value'] = _float(r)
            a['float'] = True
        a['unit'] = _code(r, 'short')
        a['qualifier'] = _code(r, 'short') if r.random() < 0.3 else None
    elif vt == 'PNAME':
        a['value'] = r.choice(['Doe^John', 'Doe^Jane^M^Dr^Jr', 'Single', 'A^B^^^', 'Miller^^^^'])
    elif vt == 'DATE':
        a['value'] = [r.randint(1900, 2099), r.randint(1, 12), r.randint(1, 28)]
    elif vt == 'TIME':
        a['value'] = [r.randint(0, 23), r.randint(0, 59), r.randint(0, 59), r.choice([0, 0, 1, 500000, 999999, r.randrange(10 ** 6)])]
    elif vt == 'DATETIME':
        a['value'] = [r.randint(1900, 2099), r.randint(1, 12), r.randint(1, 28), r.randint(0, 23), r.randint(0, 59),
                      r.randint(0, 59), r.choice([0, 0, 1, 999999, r.randrange(10 ** 6)]),
                      r.choice([None, None, 0, 60, -300, 330, 765, -720])]
    elif vt == 'UIDREF':
        a['value'] = _uid(r)
    elif vt == 'CONTAINER':
        a['continuous'] = r.random() < 0.6
        a['template'] = r.choice([None, '1500', '1410', '300'])
    elif vt in ('COMPOSITE', 'IMAGE', 'WAVEFORM'):
        a['cls'] = {'COMPOSITE': '1.2.840.10008.5.1.4.1.1.88.11', 'IMAGE': '1.2.840.10008.5.1.4.1.1.2',
                    'WAVEFORM': '1.2.840.10008.5.1.4.1.1.9.1.1'}[vt]
        a['inst'] = _uid(r)
        if vt == 'IMAGE':
            def nums():
                x = r.random()
                if x < 0.45:
                    return None
                if x < 0.6:
                    return r.randint(1, 500)
                return [r.randint(1, 500) for _ in range(r.choice([1, 1, 2, 3, 5, 8]))]
            a['frames'] = nums()
            a['segments'] = nums() if a['frames'] is None or r.random() < 0.15 else None
        if vt == 'WAVEFORM':
            a['channels'] = None if r.random() < 0.35 else [[r.randint(1, 9), r.randint(1, 40)] for _ in range(r.choice([1, 1, 2, 3, 5]))]
    elif vt == 'SCOORD':
        gt = r.choice(list(GT2))
        n = GT2[gt] if GT2[gt] is not None else r.choice([2, 2, 3, 5, 9])
        a.update(gt=gt, dim=2, origin=r.choice([None, None, 'VOLUME', 'FRAME']), fiducial=_uid(r) if r.random() < 0.2 else None)
        if bad == 'count':
            n = n + r.choice([-1, 1]) if GT2[gt] is not None else r.choice([0, 1])
            d['bad'] = 'count'
        elif bad == 'dim':
            a['dim'] = r.choice([1, 3])
            d['bad'] = 'dim'
        elif bad == 'enum':
            x = r.random()
            if x < 0.4:
                a['gt'] = r.choice(['POLYGON', 'ELLIPSOID', 'point', 'SQUARE'])
            else:
                a['origin'] = r.choice(['volume', 'SLIDE'])
            d['bad'] = 'enum'
        if r.random() < 0.3:      # coordinates that are NOT 32-bit floats (0.1, 1/3, ...): stored rounded to float32
            a['pts'] = [[r.choice([0.1, 1 / 3, 2.7, r.uniform(-1000, 1000), r.uniform(-1, 1)]) for _ in range(a['dim'])] for _ in range(n)]
        else:
            a['pts'] = [[_dyadic(r) for _ in range(a['dim'])] for _ in range(n)]
        a['layout'] = r.choice(LAYOUTS)
        if bad == 'ndim':
            a['ndim'] = r.choice([1, 3])
            d['bad'] = 'ndim'
    elif vt == 'SCOORD3D':
        gt = r.choice(list(GT3))
        if bad == 'open':
            gt = 'POLYGON'
        elif bad == 'noncoplanar':
            gt = r.choice(['POLYGON', 'ELLIPSE'])
        n = GT3[gt] if GT3[gt] is not None else r.choice([2, 3, 4, 5, 5, 7])
        if gt == 'POLYGON':
            n = r.choice([3, 4, 4, 5, 6, 8])
        closed, coplanar = gt == 'POLYGON' or (r.random() < 0.1 and bad is None), True
        a.update(gt=gt, dim=3, frame_of_reference=_uid(r), fiducial=_uid(r) if r.random() < 0.2 else None)
        if bad == 'count':
            n = n + r.choice([-1, 1]) if GT3[gt] is not None else r.choice([0, 1])
            d['bad'] = 'count'
        elif bad == 'open' and gt == 'POLYGON':
            closed = False
            d['bad'] = 'open'
        elif bad == 'noncoplanar' and gt in ('POLYGON', 'ELLIPSE'):
            coplanar = False
            n = max(n, 5) if gt == 'POLYGON' else n
            d['bad'] = 'noncoplanar'
        elif bad == 'enum':
            a['gt'] = r.choice(['CIRCLE', 'polygon', 'CUBE'])
            d['bad'] = 'enum'
        elif bad == 'dim':
            d['bad'] = 'dim'
        if d['bad'] == 'open' and r.random() < 0.67:
            # closed except for ONE coordinate of the last point (the plane contains that axis, so it stays coplanar);
            # in half of these the gap is TINY: a float32-exact 2^-13 .. 2^-15 at a coordinate of magnitude 64 .. 200,
            # far below any "close enough" tolerance (numpy allclose: 1e-8 + 1e-5 |x|) and still not equal
            tiny = r.random() < 0.5
            k = r.randrange(3)
            while True:
                u = [r.randint(-4, 4) / 2 for _ in range(3)]
                u[k] = 0.0
                if any(u):
                    break
            o = [_dyadic(r, 8, 64) for _ in range(3)]
            if tiny:
                o[k] = r.choice([-1, 1]) * (64 + r.randint(0, 8 * 136) / 8)
            pts, seen = [], set()
            while len(pts) < n:
                sa, sb = r.randint(-8, 8) / 2, r.randint(-8, 8) / 2
                if (sa, sb) in seen:
                    continue
                seen.add((sa, sb))
                pts.append([o[i] + sa * u[i] + (sb if i == k else 0.0) for i in range(3)])
            pts[-1] = list(pts[0])
            pts[-1][k] += r.choice([2.0 ** -13, -2.0 ** -14, 2.0 ** -15]) if tiny else r.choice([0.5, -1.0, 2.0])
            assert pts[-1] != pts[0] and all(float(np.float32(x)) == x for x in pts[-1])
        elif gt in ('POLYGON', 'ELLIPSE') or r.random() < 0.5:
            shape = r.choice(PLANE_SHAPES) if d['bad'] != 'count' else 'generic'
            if shape in ('collinear-prefix', 'repeated-first') and gt == 'POLYGON':
                n = max(n, 5 if coplanar else 6)        # a closed polygon needs a vertex beyond the degenerate prefix
            if not coplanar and shape == 'tiny':
                shape = 'generic'                       # a tiny figure cannot leave its plane by a clear margin
            a['shape'] = shape
            pts = _plane_points(r, n, closed, coplanar, shape if (coplanar or gt == 'POLYGON' or shape in ('large',)) else 'generic')
        elif r.random() < 0.4:
            pts = [[r.choice([0.1, 1 / 3, r.uniform(-500, 500)]) for _ in range(3)] for _ in range(n)]
        else:
            pts = [[_dyadic(r, 8, 256) for _ in range(3)] for _ in range(n)]
        if bad == 'ndim':
            a['ndim'] = r.choice([1, 3])
            d['bad'] = 'ndim'
        if d['bad'] == 'dim':
            a['dim'] = r.choice([2, 4])
            pts = [(p + [1.0])[:a['dim']] for p in pts]
        a['pts'] = pts
        a['layout'] = r.choice(LAYOUTS)
    elif vt == 'TCOORD':
        a['range'] = r.choice(TRT)
        k = r.choice(['positions', 'positions', 'offsets', 'offsets', 'datetimes'])
        n = r.choice([1, 1, 2, 3, 4])
        a['positions'] = a['offsets'] = a['datetimes'] = None
        if bad == 'none':
            d['bad'] = 'none'
        elif k == 'positions':
            a['positions'] = [r.randint(1, 10 ** 6) for _ in range(n)]
        elif k == 'offsets':
            # incl. the boundary values a truth test mistakes for "no value": 0.0, -0.0, the int 0 (also as the ONLY offset)
            a['offsets'] = [r.choice([_dyadic(r, 1024, 2 ** 10), float(r.randint(0, 9999)), 0.1 + 0.2, 1 / 3, r.uniform(0, 1e4),
                                      r.uniform(0, 1e-3), 0.0, 0.0, -0.0, 0]) for _ in range(n)]
            if r.random() < 0.3:
                a['offsets'] = [r.choice([0.0, -0.0, 0]) for _ in range(n)]
        else:
            a['datetimes'] = [[r.randint(1990, 2030), r.randint(1, 12), r.randint(1, 28), r.randint(0, 23), r.randint(0, 59),
                               r.randint(0, 59), r.choice([0, 678, 999999]), None] for _ in range(n)]
        if bad == 'enum':
            a['range'] = r.choice(['point', 'RANGE'])
            d['bad'] = 'enum'
    if bad == 'rel':
        d['rel'] = r.choice(['CONTAIN', 'contains', 'HAS'])
        d['bad'] = 'rel'
    # nested content
    if depth < 3 and (r.random() < (0.45 if depth == 0 else 0.3) or bad == 'child-norel'):
        for _ in range(r.choice([1, 1, 2, 3])):
            d['children'].append(gen_item(r, depth + 1, need_rel=True))
        if bad == 'child-norel':
            d['children'][r.randrange(len(d['children']))]['rel'] = None
            d['bad'] = 'child-norel'
    return d



# ----------------------------------------------------------------------------------------------
# round 2: ARGUMENT SPELLINGS.  Every value can be handed to the constructors in several equivalent ways (enum member /
# its string, list / tuple / ndarray, scalar / one-item sequence, Python / numpy / pydicom value types, optional
# argument omitted / given as None ...).  `decorate` draws one spelling per argument from its OWN stream and stores it
# under d['sp'] (absent = the plain spelling of round 1); it also plants the round-2 forbidden features.

SEQ_SPELLINGS = ['list', 'list', 'tuple', 'ndarray', 'list-np', 'list-float']
NUM_BAD_TYPES = ['npInt64', 'npInt32', 'npFloat32', 'decimal', 'str']
ENUM_OF = {'rel': 'RelationshipTypeValues', 'gt': 'GraphicTypeValues', 'gt3d': 'GraphicTypeValues3D',
           'range': 'TemporalRangeTypeValues', 'origin': 'PixelOriginInterpretationValues'}


def decorate(r, d, top=True, plant=None):
    """Draw the spellings of the arguments of `d` (and of its descendants).  `plant`: a round-2 forbidden feature to put
    into this (so far admissible) item."""
    a, vt = d['args'], d['vt']
    sp = d['sp'] = {}
    sp['rel'] = r.choice(['str', 'str', 'member']) if d['rel'] in RELS else 'str'
    sp['omit_none'] = r.random() < 0.5                      # optional arguments that are None: left out / passed as None
    sp['uid'] = r.choice(['str', 'str', 'UID', 'pydicom-UID'])
    if vt == 'PNAME':
        sp['value'] = r.choice(['str', 'PersonName'])
    elif vt in ('DATE', 'TIME', 'DATETIME'):
        sp['value'] = r.choice(['python', 'python', 'valuerep', 'str'])
    elif vt == 'NUM':
        if a['float']:
            sp['value'] = r.choice(['pyFloat', 'pyFloat', 'npFloat64'])
        else:
            sp['value'] = 'pyBool' if a['value'] in (0, 1) and r.random() < 0.5 else 'pyInt'
        if plant == 'numtype':
            sp['value'] = r.choice(NUM_BAD_TYPES)
            if sp['value'] in ('npInt64', 'npInt32') and (a['float'] or abs(a['value']) >= 2 ** 31):
                a['value'], a['float'] = r.randint(-1000, 1000), False
            d['bad'] = 'numtype'
    elif vt == 'CONTAINER':
        # (explicit None is outside the documented type `bool`; the constructor reads it by its truth value, like 0)
        sp['continuous'] = 'omitted' if a['continuous'] and r.random() < 0.5 else r.choice(
            ['bool', 'bool', 'int'] + ([] if a['continuous'] else ['none-explicit']))
        sp['template'] = 'int' if a['template'] and r.random() < 0.3 else 'str'
    elif vt == 'IMAGE':
        for k in ('frames', 'segments'):
            v = a[k]
            if v is None:
                continue
            if isinstance(v, int):
                sp[k] = r.choice(['scalar', 'scalar-np'])
            else:
                sp[k] = r.choice(SEQ_SPELLINGS + (['scalar', 'scalar-np'] if len(v) == 1 and r.random() < 0.3 else []))
                if k == 'segments' and sp[k] == 'list-float':
                    sp[k] = 'list'          # whole numbers as floats (3.0) pass the constructor but VR US cannot be written by pydicom
        if plant == 'empty':
            k = r.choice(['frames', 'segments'])
            a[k] = []
            sp[k] = r.choice(['list', 'tuple', 'ndarray'])
            d['bad'] = 'empty'
        elif plant == 'fractional':
            # a number with a fractional part where an integer is required (it could only be stored truncated)
            k = r.choice(['frames', 'segments'])
            frac = r.randint(1, 300) + r.choice([0.5, 0.25, 0.9, 1e-6])
            if r.random() < 0.4:
                a[k], sp[k] = frac, 'scalar-float'
            else:
                v = [r.randint(1, 300) for _ in range(r.choice([1, 2, 4]))]
                v[r.randrange(len(v))] = frac
                a[k], sp[k] = v, r.choice(['list', 'tuple', 'ndarray-float'])
            d['bad'] = 'fractional'
    elif vt == 'WAVEFORM':
        if a['channels'] is not None:
            sp['channels'] = r.choice(['list-of-tuples', 'list-of-tuples', 'list-of-lists', 'tuple-of-tuples', 'ndarray'])
        if plant == 'empty':
            a['channels'] = []
            sp['channels'] = r.choice(['list-of-tuples', 'tuple-of-tuples'])
            d['bad'] = 'empty'
        elif plant == 'nonpair':
            ch = [[r.randint(1, 9), r.randint(1, 40)] for _ in range(r.choice([1, 2, 3]))]
            k = r.randrange(len(ch))
            ch[k] = ch[k][:1] if r.random() < 0.4 else ch[k] + [r.randint(1, 40)]
            if r.random() < 0.3 and len(ch) >= 2:
                # an even total: two triples look like three pairs once flattened
                ch = [c[:2] + [r.randint(1, 40)] for c in ch[:2]]
            a['channels'] = ch
            sp['channels'] = r.choice(['list-of-tuples', 'list-of-lists'])
            d['bad'] = 'nonpair'
        elif plant == 'fractional':
            ch = [[r.randint(1, 9), r.randint(1, 40)] for _ in range(r.choice([1, 2, 3]))]
            ch[r.randrange(len(ch))][r.randrange(2)] += r.choice([0.5, 0.25, 0.9])
            a['channels'] = ch
            sp['channels'] = r.choice(['list-of-tuples', 'list-of-lists'])
            d['bad'] = 'fractional'
    elif vt in ('SCOORD', 'SCOORD3D'):
        sp['gt'] = r.choice(['str', 'str', 'member'])
        sp['origin'] = r.choice(['str', 'member'])
        if plant == 'enum-member':
            sp['gt'] = 'other-enum-member'          # the member of the OTHER graphic type enumeration with the same value
            if a['gt'] not in ('POINT', 'ELLIPSE', 'MULTIPOINT', 'POLYLINE'):
                plant = None
                sp['gt'] = 'str'
            else:
                d['bad'] = 'enum'
    elif vt == 'TCOORD':
        sp['range'] = r.choice(['str', 'str', 'member'])
        sp['values'] = r.choice(['list', 'list', 'tuple', 'ndarray', 'list-np'])
        sp['datetime'] = r.choice(['python', 'python', 'valuerep', 'str'])
        given = [k for k in ('positions', 'offsets', 'datetimes') if a.get(k) is not None]
        if given and r.random() < 0.2:
            # a LATER argument is given as well (the constructor documents no precedence; the first in the signature is kept)
            order = ['positions', 'offsets', 'datetimes']
            later = order[order.index(given[0]) + 1:]
            if later:
                k = r.choice(later)
                a[k] = [1.5, 2.25] if k == 'offsets' else [[2001, 2, 3, 4, 5, 6, 0, None]]
                sp['also'] = k
        if plant == 'empty' and given:
            first = given[0]
            a[first] = []
            d['bad'] = 'empty'
        elif plant == 'fractional':
            a['positions'] = [r.randint(1, 10 ** 6) for _ in range(r.choice([1, 2, 3]))]
            a['positions'][r.randrange(len(a['positions']))] += r.choice([0.5, 0.7, 0.999])
            d['bad'] = 'fractional'
    if plant == 'enum-member' and vt not in ('SCOORD', 'SCOORD3D') and d['rel'] in RELS and d['bad'] is None:
        sp['rel'] = 'other-enum-member'
        d['rel_member_of'] = r.choice(['ValueTypeValues', 'GraphicTypeValues'])
        d['bad'] = 'enum'
    if d['children']:
        import random as _random
        ro = _random.Random('children|' + json.dumps(d['name'], sort_keys=True, default=str) + '|' + str(len(d['children'])) + '|' + vt)
        sp['children'] = ro.choice(GIVEN_AS)
        sp['handle_op'] = ro.choice(HANDLE_OPS)
    for c in d['children']:
        decorate(r, c, False)


# how an item is given its children (always through the attribute: no constructor of value_types.py takes content), and
# what the caller does afterwards with the container it still holds
GIVEN_AS = ['list', 'list', 'tuple', 'pydicom-sequence', 'content-sequence', 'content-sequence', 'other-item', 'other-item',
            'find-result']
HANDLE_OPS = ['append', 'append', 'delete-first', 'replace-first', 'reverse', 'clear', 'extend', 'insert-front']

PLANT2_FOR = {'IMAGE': ['empty', 'fractional'], 'WAVEFORM': ['empty', 'nonpair', 'nonpair', 'fractional'], 'TCOORD': ['empty', 'fractional'],
              'NUM': ['numtype'],
              'SCOORD': ['enum-member'], 'SCOORD3D': ['enum-member']}

BAD_FOR = {'SCOORD': ['count', 'dim', 'enum', 'ndim'], 'SCOORD3D': ['count', 'open', 'noncoplanar', 'enum', 'dim', 'ndim'],
           'TCOORD': ['none', 'enum']}


def gen_case(ctx, idx):
    r = ctx.rng('item', idx)
    bad = None
    if r.random() < 0.3:
        bad = r.choice(['count', 'count', 'dim', 'ndim', 'enum', 'open', 'noncoplanar', 'none', 'rel', 'child-norel'])
        vt = {'count': r.choice(['SCOORD', 'SCOORD3D']), 'dim': r.choice(['SCOORD', 'SCOORD3D']), 'ndim': r.choice(['SCOORD', 'SCOORD3D']),
              'enum': r.choice(['SCOORD', 'SCOORD3D', 'TCOORD']), 'open': 'SCOORD3D', 'noncoplanar': 'SCOORD3D',
              'none': 'TCOORD'}.get(bad) or r.choice(VTS)
    else:
        vt = VTS[idx % len(VTS)]
    d = gen_item(r, 0, vt, bad)
    r2 = ctx.rng('spell', idx)
    plant = None
    if bad is None and not d['children']:
        x = r2.random()
        if vt in PLANT2_FOR and x < 0.25:
            plant = r2.choice(PLANT2_FOR[vt])
        elif d['rel'] in RELS and x < 0.04:
            plant = 'enum-member'
    decorate(r2, d, True, plant)
    return {'idx': idx, 'item': d}


# ----------------------------------------------------------------------------------------------
# building the real objects

def _mk_code(c):
    from highdicom.sr.coding import CodedConcept
    if c.get('as_code'):
        # a plain pydicom Code (the constructors convert it with CodedConcept.from_code)
        from pydicom.sr.coding import Code
        return Code(c['v'], c['s'], c['m'], c['ver'])
    return CodedConcept(value=c['v'], scheme_designator=c['s'], meaning=c['m'], scheme_version=c['ver'])


def _mk_dt(v):
    tz = None if v[7] is None else datetime.timezone(datetime.timedelta(minutes=v[7]))
    return datetime.datetime(v[0], v[1], v[2], v[3], v[4], v[5], v[6], tzinfo=tz)


def _enum_member(enum_name, value):
    import highdicom.sr.enum as E
    return getattr(E, enum_name)(value)


def _spell_enum(value, how, enum_name, other=None):
    """an enumerated argument as its string or as the member; `other-enum-member`: a member of ANOTHER enumeration"""
    import highdicom.sr.enum as E
    if value is None or how == 'str':
        return value
    if how == 'member':
        try:
            return getattr(E, enum_name)(value)
        except ValueError:
            return value                     # a value outside the enumeration has no member: the string is passed
    if how == 'other-enum-member':
        en = getattr(E, other)
        try:
            return en(value)
        except ValueError:
            return list(en)[0]
    raise RuntimeError(how)


def _spell_uid(u, how):
    if u is None or how == 'str':
        return u
    if how == 'UID':
        import highdicom
        return highdicom.UID(u)
    from pydicom.uid import UID
    return UID(u)


def _spell_seq(v, how, elem=int):
    """a list of numbers as list / tuple / ndarray / list of numpy scalars"""
    if how == 'tuple':
        return tuple(v)
    if how == 'ndarray':
        return np.array(v, dtype=np.int64 if elem is int else float)
    if how == 'list-np':
        return [np.int64(x) if elem is int else np.float64(x) for x in v]
    if how == 'list-float':
        return [float(x) for x in v]           # whole numbers spelled as floats (3.0): taken as 3
    if how == 'ndarray-float':
        return np.array(v, dtype=float)
    return list(v)


def _spell_nums(v, how):
    """frame / segment numbers: a scalar or a sequence"""
    if v is None:
        return None
    if how == 'scalar-float':
        return float(v)
    if how in ('scalar', 'scalar-np'):
        x = v if isinstance(v, int) else v[0]
        return np.int64(x) if how == 'scalar-np' else int(x)
    if isinstance(v, (int, float)):
        return v
    if how == 'ndarray' and any(isinstance(x, float) for x in v):
        how = 'ndarray-float'
    return _spell_seq(v, how)


def _spell_num(value, how):
    if how in ('pyInt', 'pyFloat'):
        return value
    if how == 'pyBool':
        return bool(value)
    if how == 'npFloat64':
        return np.float64(value)
    if how == 'npInt64':
        return np.int64(value)
    if how == 'npInt32':
        return np.int32(value)
    if how == 'npFloat32':
        return np.float32(value)
    if how == 'decimal':
        import decimal
        return decimal.Decimal(repr(value))
    if how == 'str':
        return repr(value)
    raise RuntimeError(how)


def _spell_dt(v, how):
    from pydicom.valuerep import DT
    if how == 'valuerep':
        return DT(_mk_dt(v))
    if how == 'str':
        return _dts(v)
    return _mk_dt(v)


def _give_children(it, kids, how):
    """Assign `kids` to `it.ContentSequence` in the drawn way; returns the container the CALLER still holds afterwards
    (None when it holds nothing it could change)."""
    import highdicom.sr as sr
    from pydicom.sequence import Sequence as PydicomSequence
    if how == 'tuple':
        it.ContentSequence = tuple(kids)
        return None
    if how == 'pydicom-sequence':
        h = PydicomSequence(kids)
    elif how == 'content-sequence':
        h = sr.ContentSequence(kids)
    elif how == 'other-item':
        donor = sr.ContainerContentItem(sr.CodedConcept('111', '99HDV', 'donor'), relationship_type='CONTAINS')
        donor.ContentSequence = kids
        h = donor.ContentSequence              # another item's content
    elif how == 'find-result':
        # a sequence handed out by a query of another sequence (all children plus nothing else: get_nodes of items that all
        # have content is not general; a same-flag collection through extend is what find / get_nodes build)
        src = sr.ContentSequence(kids)
        h = sr.ContentSequence()
        h.extend(src)
    else:
        h = list(kids)
    it.ContentSequence = h
    return h


def _intruder(k=0):
    import highdicom.sr as sr
    return sr.TextContentItem(sr.CodedConcept('112', '99HDV', 'not given to the item'), f'intruder {k}', relationship_type='CONTAINS')


def _mutate_handle(h, op):
    """What a caller may do to a container it owns."""
    if op == 'append':
        h.append(_intruder())
    elif op == 'extend':
        h.extend([_intruder(1), _intruder(2)])
    elif op == 'insert-front':
        h.insert(0, _intruder())
    elif op == 'delete-first':
        del h[0]
    elif op == 'replace-first':
        h[0] = _intruder()
    elif op == 'reverse':
        if len(h) < 2:
            h.append(_intruder())
        else:
            h.reverse()
    elif op == 'clear':
        while len(h):
            del h[-1]


def build(d, handles=None):
    """Construct the real content item for a specification (children included, through the attribute setter), every
    argument in the spelling drawn for it (d['sp']).  `handles` collects (specification, item, container the caller kept)."""
    import highdicom.sr as sr
    from pydicom.valuerep import DA, TM, PersonName
    a = d['args']
    sp = d.get('sp') or {}
    nm = _mk_code(d['name'])
    rel = _spell_enum(d['rel'], sp.get('rel', 'str'), 'RelationshipTypeValues', d.get('rel_member_of'))
    kw = {} if (rel is None and sp.get('omit_none')) else {'relationship_type': rel}
    uid = sp.get('uid', 'str')
    vt = d['vt']

    def opt(**kws):
        """optional arguments: None-valued ones are left out when the spelling says so"""
        return {k: v for k, v in kws.items() if not (v is None and sp.get('omit_none'))}
    if vt == 'CODE':
        it = sr.CodeContentItem(nm, _mk_code(a['value']), **kw)
    elif vt == 'TEXT':
        it = sr.TextContentItem(nm, a['value'], **kw)
    elif vt == 'NUM':
        it = sr.NumContentItem(nm, _spell_num(a['value'], sp.get('value', 'pyFloat' if a['float'] else 'pyInt')), _mk_code(a['unit']),
                               **opt(qualifier=_mk_code(a['qualifier']) if a['qualifier'] else None), **kw)
    elif vt == 'PNAME':
        it = sr.PnameContentItem(nm, PersonName(a['value']) if sp.get('value') == 'PersonName' else a['value'], **kw)
    elif vt == 'DATE':
        v = datetime.date(*a['value'])
        it = sr.DateContentItem(nm, {'valuerep': DA(v), 'str': _da(a['value'])}.get(sp.get('value'), v), **kw)
    elif vt == 'TIME':
        v = datetime.time(*a['value'])
        it = sr.TimeContentItem(nm, {'valuerep': TM(v), 'str': _tm(a['value'])}.get(sp.get('value'), v), **kw)
    elif vt == 'DATETIME':
        it = sr.DateTimeContentItem(nm, _spell_dt(a['value'], sp.get('value', 'python')), **kw)
    elif vt == 'UIDREF':
        it = sr.UIDRefContentItem(nm, _spell_uid(a['value'], uid), **kw)
    elif vt == 'CONTAINER':
        ck = {}
        if sp.get('continuous') != 'omitted':
            ck['is_content_continuous'] = {'int': int(a['continuous']), 'none-explicit': None}.get(sp.get('continuous'), a['continuous'])
        tid = int(a['template']) if a['template'] and sp.get('template') == 'int' else a['template']
        it = sr.ContainerContentItem(nm, **ck, **opt(template_id=tid), **kw)
    elif vt == 'COMPOSITE':
        it = sr.CompositeContentItem(nm, _spell_uid(a['cls'], uid), _spell_uid(a['inst'], uid), **kw)
    elif vt == 'IMAGE':
        it = sr.ImageContentItem(nm, _spell_uid(a['cls'], uid), _spell_uid(a['inst'], uid),
                                 **opt(referenced_frame_numbers=_spell_nums(a['frames'], sp.get('frames', 'list')),
                                       referenced_segment_numbers=_spell_nums(a['segments'], sp.get('segments', 'list'))), **kw)
    elif vt == 'WAVEFORM':
        from highdicom.sr.value_types import WaveformContentItem
        ch = a['channels']
        how = sp.get('channels', 'list-of-tuples')
        if ch is not None:
            if how == 'list-of-lists':
                ch = [list(c) for c in ch]
            elif how == 'tuple-of-tuples':
                ch = tuple(tuple(c) for c in ch)
            elif how == 'ndarray' and ch and all(len(c) == 2 for c in ch):
                ch = np.array(ch, dtype=np.int64)
            else:
                ch = [tuple(c) for c in ch]
        it = WaveformContentItem(nm, _spell_uid(a['cls'], uid), _spell_uid(a['inst'], uid), **opt(referenced_waveform_channels=ch), **kw)
    elif vt == 'SCOORD':
        arr = _array(a['pts'], a['dim'], a.get('layout', 'C'), a.get('ndim', 2))
        it = sr.ScoordContentItem(nm, _spell_enum(a['gt'], sp.get('gt', 'str'), 'GraphicTypeValues', 'GraphicTypeValues3D'), arr,
                                  **opt(pixel_origin_interpretation=_spell_enum(a['origin'], sp.get('origin', 'str'),
                                                                                'PixelOriginInterpretationValues'),
                                        fiducial_uid=_spell_uid(a['fiducial'], uid)), **kw)
    elif vt == 'SCOORD3D':
        arr = _array(a['pts'], a['dim'], a.get('layout', 'C'), a.get('ndim', 2))
        it = sr.Scoord3DContentItem(nm, _spell_enum(a['gt'], sp.get('gt', 'str'), 'GraphicTypeValues3D', 'GraphicTypeValues'), arr,
                                    frame_of_reference_uid=_spell_uid(a['frame_of_reference'], uid),
                                    **opt(fiducial_uid=_spell_uid(a['fiducial'], uid)), **kw)
    elif vt == 'TCOORD':
        how = sp.get('values', 'list')
        pos = None if a['positions'] is None else _spell_seq(a['positions'], 'list' if any(isinstance(x, float) for x in a['positions']) else how)
        off = None if a['offsets'] is None else _spell_seq(a['offsets'], how, float)
        dts = None
        if a['datetimes'] is not None:
            dts = [_spell_dt(v, sp.get('datetime', 'python')) for v in a['datetimes']]
            if how == 'tuple':
                dts = tuple(dts)
        it = sr.TcoordContentItem(nm, _spell_enum(a['range'], sp.get('range', 'str'), 'TemporalRangeTypeValues'),
                                  **opt(referenced_sample_positions=pos, referenced_time_offsets=off, referenced_date_time=dts), **kw)
    else:
        raise RuntimeError(vt)
    if d['children']:
        h = _give_children(it, [build(c, handles) for c in d['children']], sp.get('children', 'list'))
        if handles is not None and h is not None:
            handles.append((d, it, h))
    return it


def plain_copy(ds):
    """A plain pydicom Dataset (no highdicom classes anywhere) with the same elements."""
    from pydicom import DataElement, Dataset
    out = Dataset()
    for elem in ds:
        if elem.VR == 'SQ':
            out.add(DataElement(elem.tag, 'SQ', [plain_copy(i) for i in elem.value]))
        else:
            out.add(DataElement(elem.tag, elem.VR, _copy.deepcopy(elem.value)))
    return out


def through_bytes(ds, implicit):
    import pydicom
    buf = io.BytesIO()
    pydicom.dcmwrite(buf, plain_copy(ds), implicit_vr=implicit, little_endian=True, enforce_file_format=False)
    buf.seek(0)
    return pydicom.dcmread(buf, force=True)


# ----------------------------------------------------------------------------------------------
# observation of an item through its public accessors, in a canonical JSON-able form

def _code_tuple(c):
    return [str(c.value), str(c.scheme_designator), str(c.meaning), None if c.scheme_version is None else str(c.scheme_version)]


def _fr(x):
    f = Fraction(float(x))
    return f'{f.numerator}/{f.denominator}' if f.denominator != 1 else str(f.numerator)


def _dt_tuple(v):
    off = None if v.tzinfo is None else int(v.utcoffset().total_seconds() // 60)
    return [v.year, v.month, v.day, v.hour, v.minute, v.second, v.microsecond, off]


def observe(it):
    """(class name, name, relationship, value in canonical form, children)."""
    vt = it.value_type.value
    val = None
    if vt == 'CODE':
        val = _code_tuple(it.value)
    elif vt == 'TEXT':
        val = str(it.value)
    elif vt == 'NUM':
        val = {'value': _fr(it.value), 'unit': _code_tuple(it.unit),
               'qualifier': None if it.qualifier is None else _code_tuple(it.qualifier)}
    elif vt == 'PNAME':
        val = str(it.value)
    elif vt == 'DATE':
        v = it.value
        val = [v.year, v.month, v.day]
    elif vt == 'TIME':
        v = it.value
        val = [v.hour, v.minute, v.second, v.microsecond]
    elif vt == 'DATETIME':
        val = _dt_tuple(it.value)
    elif vt == 'UIDREF':
        val = str(it.value)
    elif vt == 'CONTAINER':
        val = {'continuity': str(it.ContinuityOfContent), 'template': None if it.template_id is None else str(it.template_id)}
    elif vt == 'COMPOSITE':
        val = [str(x) for x in it.value]
    elif vt == 'IMAGE':
        val = {'ref': [str(x) for x in it.value], 'frames': it.referenced_frame_numbers, 'segments': it.referenced_segment_numbers}
    elif vt == 'WAVEFORM':
        ch = it.referenced_waveform_channels
        val = {'ref': [str(x) for x in it.value], 'channels': None if ch is None else [[int(a), int(b)] for a, b in ch]}
    elif vt in ('SCOORD', 'SCOORD3D'):
        arr = it.value
        val = {'gt': it.graphic_type.value, 'shape': list(arr.shape), 'pts': [[_fr(x) for x in row] for row in arr.tolist()]}
        if vt == 'SCOORD3D':
            val['frame_of_reference'] = str(it.frame_of_reference_uid)
        else:
            val['origin'] = None if 'PixelOriginInterpretation' not in it else str(it.PixelOriginInterpretation)
        val['fiducial'] = None if 'FiducialUID' not in it else str(it.FiducialUID)
    elif vt == 'TCOORD':
        v = it.value
        if not isinstance(v, (list, tuple)) and not hasattr(v, '__iter__') or isinstance(v, str):
            val = {'range': it.temporal_range_type.value, 'scalar-instead-of-list': repr(v)}
        else:
            items = list(v)
            if 'ReferencedSamplePositions' in it:
                val = {'range': it.temporal_range_type.value, 'positions': [int(x) for x in items]}
            elif 'ReferencedTimeOffsets' in it:
                val = {'range': it.temporal_range_type.value, 'offsets': [_fr(x) for x in items]}
            else:
                if all(isinstance(x, datetime.datetime) for x in items):
                    val = {'range': it.temporal_range_type.value, 'datetimes': [_dt_tuple(x) for x in items]}
                else:      # no normalisation: a string is not the date time that was given
                    val = {'range': it.temporal_range_type.value, 'not-datetimes': [type(x).__name__ for x in items]}
    rel = it.relationship_type
    kids = [observe(c) for c in it.ContentSequence] if 'ContentSequence' in it else []
    return {'class': type(it).__name__, 'name': _code_tuple(it.name), 'rel': None if rel is None else rel.value, 'value': val,
            'children': kids}


def _f32(x):
    return float(np.float32(x))


def _ds16(x):
    """The value a decimal string of at most 16 characters keeps of x (DICOM DS): the most precise one that fits."""
    if len(repr(float(x))) <= 16:
        return float(repr(float(x)))
    for p in range(17, 0, -1):
        t = '%.*g' % (p, x)
        if len(t) <= 16:
            return float(t)
    return float(x)


def expected(d, through_file=False):
    """What `observe` must return for an accepted specification: computed from the specification alone.
    Coordinates are stored as 32-bit floats (FL); through a file, time offsets keep what a 16-character decimal
    string (DS) holds."""
    a = d['args']
    vt = d['vt']

    def code(c):
        return None if c is None else [c['v'], c['s'], c['m'], c['ver']]
    if vt in ('CODE',):
        val = code(a['value'])
    elif vt in ('TEXT', 'PNAME', 'UIDREF'):
        val = a['value']
    elif vt == 'NUM':
        val = {'value': _fr(a['value']), 'unit': code(a['unit']), 'qualifier': code(a['qualifier'])}
    elif vt in ('DATE', 'TIME', 'DATETIME'):
        val = list(a['value'])
    elif vt == 'CONTAINER':
        val = {'continuity': 'CONTINUOUS' if a['continuous'] else 'SEPARATE', 'template': a['template']}
    elif vt == 'COMPOSITE':
        val = [a['cls'], a['inst']]
    elif vt == 'IMAGE':
        def lst(x):
            return None if x is None else ([x] if isinstance(x, int) else list(x))
        val = {'ref': [a['cls'], a['inst']], 'frames': lst(a['frames']), 'segments': lst(a['segments'])}
    elif vt == 'WAVEFORM':
        val = {'ref': [a['cls'], a['inst']], 'channels': a['channels']}
    elif vt in ('SCOORD', 'SCOORD3D'):
        val = {'gt': a['gt'], 'shape': [len(a['pts']), a['dim']], 'pts': [[_fr(_f32(x)) for x in row] for row in a['pts']]}
        if vt == 'SCOORD3D':
            val['frame_of_reference'] = a['frame_of_reference']
        else:
            val['origin'] = a['origin']
        val['fiducial'] = a['fiducial']
    elif vt == 'TCOORD':
        if a['positions'] is not None:
            val = {'range': a['range'], 'positions': list(a['positions'])}
        elif a['offsets'] is not None:
            val = {'range': a['range'], 'offsets': [_fr(_ds16(x) if through_file else x) for x in a['offsets']]}
        else:
            val = {'range': a['range'], 'datetimes': [list(v) for v in a['datetimes']]}
    return {'class': CLASS[vt], 'name': code(d['name']), 'rel': d['rel'], 'value': val,
            'children': [expected(c, through_file) for c in d['children']]}


def forbidden(d):
    """The forbidden feature planted in the tree (None when the tree is admissible)."""
    if d['bad']:
        return d['bad']
    for c in d['children']:
        b = forbidden(c)
        if b:
            return b
    return None


def _diff(a, b, path=''):
    if type(a) is not type(b) and not (isinstance(a, (int, float)) and isinstance(b, (int, float))):
        return f'{path}: {a!r} != {b!r}'
    if isinstance(a, dict):
        for k in sorted(set(a) | set(b)):
            if k not in a or k not in b:
                return f'{path}.{k}: present on one side only'
            x = _diff(a[k], b[k], f'{path}.{k}')
            if x:
                return x
        return None
    if isinstance(a, list):
        if len(a) != len(b):
            return f'{path}: length {len(a)} != {len(b)}: {a!r} != {b!r}'[:300]
        for i, (x, y) in enumerate(zip(a, b)):
            z = _diff(x, y, f'{path}[{i}]')
            if z:
                return z
        return None
    return None if a == b else f'{path}: {a!r} != {b!r}'


def _parse(ds, vt, rel, how):
    """Parse a plain dataset through a public entry point."""
    import highdicom.sr as sr
    from highdicom.sr import value_types as vtm
    if how == 'class':
        return getattr(vtm, CLASS[vt]).from_dataset(ds)
    seq = sr.ContentSequence.from_sequence([ds], is_root=False, is_sr=rel is not None)
    return seq[0]



# ----------------------------------------------------------------------------------------------
# model side

def _da(v):
    return '%04d%02d%02d' % tuple(v[:3])


def _tm(v):
    return '%02d%02d%02d' % tuple(v[:3]) + ('.%06d' % v[3] if v[3] else '')


def _dts(v):
    s = _da(v) + '%02d%02d%02d' % tuple(v[3:6]) + ('.%06d' % v[6] if v[6] else '')
    if v[7] is not None:
        m = abs(v[7])
        s += ('+' if v[7] >= 0 else '-') + '%02d%02d' % (m // 60, m % 60)
    return s


def _codej(c):
    return None if c is None else [c['v'], c['s'], c['m'], c['ver']]


def _fl_table(pts):
    """the float32 cast on the coordinates that are not float32 numbers: [[x, float32(x)], ...] for the model's `fl`"""
    return [[_fr(x), _fr(_f32(x))] for x in sorted({x for row in pts for x in row}) if _f32(x) != x]


def model_spec(d):
    """The specification in the driver's JSON form (dates / times as the DICOM strings DA / TM / DT define; enumerated
    arguments by value, a member of another enumeration as a string outside every enumeration; frame / segment numbers
    as scalar or sequence; all three TCOORD arguments; the spelling of the NUM value; `continuous` null = omitted)."""
    a = d['args']
    sp = d.get('sp') or {}
    vt = d['vt']
    foreign = 'MEMBER-OF-ANOTHER-ENUMERATION'
    if vt == 'CODE':
        args = {'value': _codej(a['value'])}
    elif vt in ('TEXT', 'PNAME', 'UIDREF'):
        args = {'value': a['value']}
    elif vt == 'DATE':
        args = {'value': _da(a['value'])}
    elif vt == 'TIME':
        args = {'value': _tm(a['value'])}
    elif vt == 'DATETIME':
        args = {'value': _dts(a['value'])}
    elif vt == 'NUM':
        args = {'value': _fr(a['value']), 'float': a['float'], 'unit': _codej(a['unit']), 'qualifier': _codej(a['qualifier'])}
        if 'value' in sp:
            args['spelling'] = sp['value']
    elif vt == 'CONTAINER':
        args = {'continuous': None if sp.get('continuous') == 'omitted' else a['continuous'], 'template': a['template']}
    elif vt == 'COMPOSITE':
        args = {'cls': a['cls'], 'inst': a['inst']}
    elif vt == 'IMAGE':
        def nums(k):
            x = a[k]
            if x is None:
                return None
            if isinstance(x, float) or (isinstance(x, list) and any(isinstance(y, float) for y in x)):
                return {'fractional': [isinstance(x, list), len(x) if isinstance(x, list) else 1]}
            if isinstance(x, int) or sp.get(k) in ('scalar', 'scalar-np'):
                return {'scalar': x if isinstance(x, int) else x[0]}
            return {'seq': list(x)}
        args = {'cls': a['cls'], 'inst': a['inst'], 'frames': nums('frames'), 'segments': nums('segments')}
    elif vt == 'WAVEFORM':
        ch = a['channels']
        args = {'cls': a['cls'], 'inst': a['inst'], 'channels': None if ch is None else [[int(x) for x in c] for c in ch],
                'fractional': ch is not None and any(isinstance(x, float) for c in ch for x in c)}
    elif vt == 'SCOORD':
        args = {'gt': foreign if sp.get('gt') == 'other-enum-member' else a['gt'], 'dim': a['dim'],
                'pts': [[_fr(x) for x in row] for row in a['pts']], 'origin': a['origin'],
                'fiducial': a['fiducial'], 'ndim': a.get('ndim', 2), 'fl': _fl_table(a['pts'])}
    elif vt == 'SCOORD3D':
        args = {'gt': foreign if sp.get('gt') == 'other-enum-member' else a['gt'], 'dim': a['dim'],
                'pts': [[_fr(x) for x in row] for row in a['pts']],
                'frame_of_reference': a['frame_of_reference'], 'fiducial': a['fiducial'], 'ndim': a.get('ndim', 2),
                'fl': _fl_table(a['pts'])}
    elif vt == 'TCOORD':
        args = {'range': a['range'],
                'positions': None if a['positions'] is None else [int(x) for x in a['positions']],
                'fractional': a['positions'] is not None and any(isinstance(x, float) for x in a['positions']),
                'offsets': None if a['offsets'] is None else [_fr(x) for x in a['offsets']],
                'datetimes': None if a['datetimes'] is None else [_dts(v) for v in a['datetimes']]}
    rel = foreign if sp.get('rel') == 'other-enum-member' else d['rel']
    return {'vt': vt, 'name': _codej(d['name']), 'rel': rel, 'args': args, 'children': [model_spec(c) for c in d['children']]}


def _code_of_ds(c):
    v = [getattr(c, k) for k in ('CodeValue', 'LongCodeValue', 'URNCodeValue') if k in c]
    return [str(v[0]) if len(v) == 1 else '?', str(c.get('CodingSchemeDesignator', '?')), str(c.get('CodeMeaning', '?')),
            None if 'CodingSchemeVersion' not in c else str(c.CodingSchemeVersion)]


def _multi(v):
    if v is None or (isinstance(v, str) and v == ''):
        return []
    if isinstance(v, (list, tuple)) or type(v).__name__ == 'MultiValue':
        return list(v)
    return [v]


def abstract(ds):
    """A pydicom data set in the model's abstract form: keyword -> value, one-item sequences structured."""
    attrs, content = {}, None
    for elem in ds:
        kw = elem.keyword or str(elem.tag)
        v = elem.value
        if kw == 'ContentSequence':
            content = [abstract(i) for i in v]
        elif kw in ('ConceptNameCodeSequence', 'ConceptCodeSequence', 'NumericValueQualifierCodeSequence') and len(v) == 1:
            attrs[kw] = {'code': _code_of_ds(v[0])}
        elif kw == 'ReferencedSOPSequence' and len(v) == 1:
            i = v[0]

            def nums(k):
                return None if k not in i else [int(x) for x in _multi(i[k].value)]
            attrs[kw] = {'sop': [str(i.get('ReferencedSOPClassUID', '?')), str(i.get('ReferencedSOPInstanceUID', '?')),
                                 nums('ReferencedFrameNumber'), nums('ReferencedSegmentNumber'), nums('ReferencedWaveformChannels')]}
        elif kw == 'MeasuredValueSequence' and len(v) == 1 and 'NumericValue' in v[0] and 'MeasurementUnitsCodeSequence' in v[0]:
            i = v[0]
            attrs[kw] = {'meas': [_fr(float(i.NumericValue)), None if 'FloatingPointValue' not in i else _fr(i.FloatingPointValue),
                                  _code_of_ds(i.MeasurementUnitsCodeSequence[0])]}
        elif kw == 'ContentTemplateSequence' and len(v) == 1:
            attrs[kw] = {'tpl': [str(v[0].get('MappingResource', '?')), str(v[0].get('TemplateIdentifier', '?'))]}
        elif elem.VR == 'SQ':
            attrs[kw] = {'s': f'<sequence of {len(v)}>'}
        elif kw in ('GraphicData', 'ReferencedTimeOffsets'):
            attrs[kw] = {'r': [_fr(float(x)) for x in _multi(v)]}
        elif kw == 'ReferencedSamplePositions':
            attrs[kw] = {'i': [int(x) for x in _multi(v)]}
        elif kw == 'ReferencedDateTime':
            attrs[kw] = {'ss': [str(x) for x in _multi(v)]}
        else:
            attrs[kw] = {'s': str(v)}
    return {'attrs': attrs, 'content': content}


def _abstract_json(a):
    """dict form -> the driver's list form"""
    return {'attrs': [[k, v] for k, v in a['attrs'].items()],
            'content': None if a['content'] is None else [_abstract_json(c) for c in a['content']]}


def _model_ds_dict(j):
    return {'attrs': {k: v for k, v in j['attrs']}, 'content': None if j['content'] is None else [_model_ds_dict(c) for c in j['content']]}


def observe_for_model(it):
    """`observe`, with dates / times as the stored DICOM strings (the model keeps them opaque)."""
    o = observe(it)

    def fix(o, it):
        vt = it.value_type.value
        if vt == 'DATE':
            o['value'] = str(it.Date)
        elif vt == 'TIME':
            o['value'] = str(it.Time)
        elif vt == 'DATETIME':
            o['value'] = str(it.DateTime)
        elif vt == 'TCOORD' and 'datetimes' in (o['value'] or {}):
            o['value']['datetimes'] = [str(x) for x in _multi(it.ReferencedDateTime)]
        for oc, c in zip(o['children'], it.ContentSequence if 'ContentSequence' in it else []):
            fix(oc, c)
    fix(o, it)
    return o


def class_tree(it):
    return {'class': type(it).__name__, 'children': [class_tree(c) for c in it.ContentSequence] if 'ContentSequence' in it else []}


def _strip_keys(t):
    return {'class': t['class'], 'children': [_strip_keys(c) for c in t['children']]}


def _parse_probe(reqs, pend, case, label, ds, how, cls_name, root, sr):
    """Parse `ds` on the implementation and queue the same parse for the model.
    how: 'class' (<cls_name>.from_dataset), 'sequence' (from_sequence with the flags), 'derived' (the class dispatch
    ContentItem._from_dataset_derived)."""
    import highdicom.sr as sr_mod
    from highdicom.sr import value_types as vtm
    try:
        a = _abstract_json(abstract(ds))
    except Exception as e:  # noqa: BLE001
        return
    try:
        if how == 'class':
            back = getattr(vtm, cls_name).from_dataset(ds)
        elif how == 'derived':
            back = vtm.ContentItem._from_dataset_derived(ds)
        else:
            back = sr_mod.ContentSequence.from_sequence([ds], is_root=root, is_sr=sr)[0]
        impl = ('ok', class_tree(back))
    except Exception as e:  # noqa: BLE001
        impl = ('err', _kind(e))
    reqs.append(('parse', {'ds': a, 'how': how, 'cls': cls_name, 'root': root, 'sr': sr}))
    pend.append(('parse', {'case': case, 'probe': label}, impl))


# ----------------------------------------------------------------------------------------------
# round 2: every parsing ENTRY POINT x source x copy flag, and what `copy=` promises

SOURCES = ['memory', 'bytes-explicit', 'bytes-implicit']
ENTRIES = ['class', 'sequence', 'derived', 'parent']
COPIES = ['default', 'true', 'false']


def _snapshot(ds):
    """Everything a caller could notice about a data set it handed to a parser: the class of every data set in the
    tree, every element with tag, VR, value (and the type of the value)."""
    out = [type(ds).__name__]
    for e in ds:
        if e.VR == 'SQ':
            out.append((int(e.tag), 'SQ', type(e.value).__name__, [_snapshot(i) for i in e.value]))
        else:
            out.append((int(e.tag), e.VR, type(e.value).__name__, repr(e.value)))
    return out


def _in_place_classes(ds):
    """class names of the data set tree (content only)"""
    return {'class': type(ds).__name__,
            'children': [_in_place_classes(c) for c in ds.ContentSequence] if 'ContentSequence' in ds else []}


def _content_nodes(ds):
    """the data set objects of the content tree, pre-order"""
    out = [ds]
    if 'ContentSequence' in ds:
        for c in ds.ContentSequence:
            out.extend(_content_nodes(c))
    return out


def _source(it, src):
    return plain_copy(it) if src == 'memory' else through_bytes(it, src == 'bytes-implicit')


def _route(ctx, where, it, d, src, entry, copy, want_mem, want_file):
    """Parse the plain data set of `it` through one (source, entry point, copy flag); check the parsed item against the
    specification and the promise of `copy`: copy=True (the default) leaves the caller's data set untouched and returns
    another object; copy=False converts the caller's data set itself (and its nested content) in place."""
    import highdicom.sr as sr
    from pydicom import Dataset
    from highdicom.sr import value_types as vtm
    vt = d['vt']
    label = f'{src}/{entry}/copy-{copy}'
    ds = _source(it, src)
    given = ds
    if entry == 'parent':
        if d['rel'] is None:
            return False
        given = Dataset()
        given.ValueType = 'CONTAINER'
        given.ContinuityOfContent = 'SEPARATE'
        given.ConceptNameCodeSequence = [plain_copy(_mk_code({'v': '121070', 's': 'DCM', 'm': 'Findings', 'ver': None}))]
        given.ContentSequence = [ds]
        if src != 'memory':
            given = through_bytes(given, src == 'bytes-implicit')
            ds = given.ContentSequence[0]
    ck = {} if copy == 'default' else {'copy': copy == 'true'}
    before = _snapshot(given)
    nodes_before = _content_nodes(given)
    try:
        if entry == 'class':
            back = getattr(vtm, CLASS[vt]).from_dataset(ds, **ck)
            top = back
        elif entry == 'derived':
            if copy != 'false':
                return False                 # the dispatch has no copy parameter: it always converts in place
            back = vtm.ContentItem._from_dataset_derived(ds)
            top = back
        elif entry == 'sequence':
            back = sr.ContentSequence.from_sequence([ds], is_root=False, is_sr=d['rel'] is not None, **ck)[0]
            top = back
        else:
            top = vtm.ContainerContentItem.from_dataset(given, **ck)
            back = top.ContentSequence[0]
    except Exception as e:  # noqa: BLE001
        ctx.fail(where, f'parsing back ({label}) raised {type(e).__name__}: {e}'[:300], site='parse/' + vt)
        return True
    try:
        x = _diff(observe(back), want_mem if src == 'memory' else want_file)
    except Exception as e:  # noqa: BLE001
        x = f'accessor raised {type(e).__name__}: {e}'[:200]
    if x:
        ctx.fail(where, {'what': f'parsed item ({label}) differs from the original', 'first difference': x}, site='parse/' + vt)
    in_place = copy == 'false'
    if not in_place:
        if _snapshot(given) != before:
            ctx.fail(where, {'what': f'{label}: the data set handed to the parser was modified although copy=True',
                             'before': str(before)[:300], 'after': str(_snapshot(given))[:300]}, site='copy-true-modified-input')
        if top is given:
            ctx.fail(where, f'{label}: the parser returned the caller\'s own data set although copy=True', site='copy-true-modified-input')
    else:
        want_cls = expected(d)
        want_tree = _strip_keys(want_cls) if entry != 'parent' else {'class': 'ContainerContentItem', 'children': [_strip_keys(want_cls)]}
        nodes_after = _content_nodes(given)
        same_nodes = len(nodes_before) == len(nodes_after) and all(x is y for x, y in zip(nodes_before, nodes_after))
        if top is not given or _in_place_classes(given) != want_tree or not same_nodes:
            ctx.fail(where, {'what': f'{label}: copy=False did not convert the caller\'s data set in place',
                             'same object': top is given, 'nested data sets are the caller\'s own': same_nodes,
                             'classes': str(_in_place_classes(given))[:300]}, site='copy-false-not-in-place')
    ctx.hist('parse_route', label)
    return True


def _edit_in_place(it):
    """Read the list / array valued accessors of `it` (and of its descendants) and scribble over what they return.
    Returns the number of values edited."""
    n = 0
    vt = it.value_type.value
    if vt in ('SCOORD', 'SCOORD3D'):
        v = it.value
        if isinstance(v, np.ndarray) and v.flags.writeable and v.size:
            v *= 0.5
            v += 100.0
            n += 1
    elif vt == 'IMAGE':
        for v in (it.referenced_frame_numbers, it.referenced_segment_numbers):
            if isinstance(v, list) and v:
                v[0] += 1000
                v.append(7)
                n += 1
    elif vt == 'WAVEFORM':
        v = it.referenced_waveform_channels
        if isinstance(v, list) and v:
            v[0] = (99, 99)
            n += 1
    elif vt == 'TCOORD':
        v = it.value
        if hasattr(v, 'append') and len(v):
            v[0] = v[-1]
            v.append(v[0])
            n += 1
    if 'ContentSequence' in it:
        for c in it.ContentSequence:
            n += _edit_in_place(c)
    return n


def _reread_after_edit(ctx, where, it, d, want, label):
    """Two reads agree; after an in-place edit of the returned values the item still reports (and writes) `want`."""
    try:
        first, second = observe(it), observe(it)
        x = _diff(first, second)
        if x:
            ctx.fail(where, {'what': f'two reads of the accessors of one {label} item differ', 'first difference': x},
                     site='accessor-reread')
            return
        if not _edit_in_place(it):
            return
        x = _diff(observe(it), want)
        if x:
            ctx.fail(where, {'what': f'after the caller edited a returned value in place, the {label} item reports it '
                                     'instead of its own value', 'first difference': x}, site='accessor-reread')
            return
        back = _parse(through_bytes(it, False), d['vt'], d['rel'], 'class')
        x = _diff(observe(back), expected(d, True))
        if x:
            ctx.fail(where, {'what': f'after the caller edited a returned value in place, the {label} item is written '
                                     'changed', 'first difference': x}, site='accessor-reread')
    except Exception as e:  # noqa: BLE001
        ctx.fail(where, f'reading the accessors of a {label} item repeatedly raised {type(e).__name__}: {e}'[:300],
                 site='accessor-reread')


def _ownership(ctx, where, it, d, want, handles):
    vt = d['vt']
    for cd, owner, h in handles:
        how, op = (cd.get('sp') or {}).get('children', 'list'), (cd.get('sp') or {}).get('handle_op', 'append')
        ctx.hist('children_given_as', how)
        ctx.hist('caller_handle_mutation', op)
        before = list(owner.ContentSequence)
        try:
            _mutate_handle(h, op)
        except Exception:  # noqa: BLE001     (the caller's own container refusing the caller's edit is not the item's business)
            pass
        after = list(owner.ContentSequence)
        if len(before) != len(after) or any(x is not y for x, y in zip(before, after)):
            ctx.fail(where, {'what': f'an item given its children as {how} changed when the caller did "{op}" to the container it '
                                     'had assigned', 'children_before': len(before), 'children_after': len(after)},
                     site='ownership/' + how)
            return
    if not handles:
        return
    try:
        x = _diff(observe(it), want)
        if x:
            ctx.fail(where, {'what': 'after the caller changed the containers it had assigned, the accessors no longer report the '
                                     'nested content the item was given', 'first difference': x}, site='ownership/accessors')
            return
        back = _parse(through_bytes(it, False), vt, d['rel'], 'sequence')
        x = _diff(observe(back), expected(d, True))
        if x:
            ctx.fail(where, {'what': 'after the caller changed the containers it had assigned, the item is written with nested '
                                     'content it was not given', 'first difference': x}, site='ownership/bytes')
    except Exception as e:  # noqa: BLE001
        ctx.fail(where, f'ownership check raised {type(e).__name__}: {e}'[:300], site='ownership/accessors')
    # the other direction, on a second build: an edit THROUGH THE ITEM must not reach the caller's container
    handles2 = []
    try:
        build(d, handles2)
    except Exception:  # noqa: BLE001
        return
    for cd, owner, h in handles2:
        n = len(h)
        try:
            owner.ContentSequence.append(_intruder(9))
        except Exception:  # noqa: BLE001
            continue
        if len(h) != n:
            ctx.fail(where, {'what': f"appending to an item's content changed the container the caller had assigned "
                                     f"({(cd.get('sp') or {}).get('children', 'list')})", 'length_before': n, 'length_after': len(h)},
                     site='ownership/reverse-' + (cd.get('sp') or {}).get('children', 'list'))
            return


def check_item(ctx, case, reqs=None, pend=None):
    d = case['item']
    bad = forbidden(d)
    vt = d['vt']
    a = d['args']
    gt = a.get('gt')
    handles = []
    try:
        it = build(d, handles)
        err = None
    except Exception as e:  # noqa: BLE001
        it, err = None, _kind(e)
    ntkey = None
    where = {'case': case}
    if reqs is not None:
        reqs.append(('build', model_spec(d)))
        if it is None:
            pend.append(('build', where, ('err', err), None, None))
        else:
            try:
                pend.append(('build', where, ('ok', None), abstract(it), observe_for_model(it)))
            except Exception as e:  # noqa: BLE001
                pend.append(('build', where, ('ok', None), None, None))
    # ---- oracle 1: forbidden values are rejected, admissible ones accepted
    # (a value of a type the constructor does not take -- numpy integer, Decimal ... -- is not forbidden by the standard:
    #  compared with the model only)
    if bad and bad not in MODEL_ONLY_PLANTS and it is not None:
        ctx.fail(where, f'forbidden feature "{bad}" accepted by the constructor of {CLASS[vt]}', site='construct/' + bad)
    if not bad and it is None:
        ctx.fail(where, f'admissible {vt} item refused ({err})', site='construct')
    obs = None
    if it is not None and not bad:
        want = expected(d)
        # ---- oracle 2: accessors report the constructed values
        try:
            obs = observe(it)
            x = _diff(obs, want)
            if x:
                ctx.fail(where, {'what': 'accessors differ from the constructed values', 'first difference': x},
                         site='accessor/' + vt)
        except Exception as e:  # noqa: BLE001
            ctx.fail(where, f'accessor raised {type(e).__name__}: {e}'[:300], site='accessor/' + vt)
        # ---- oracle 2b: several calls on ONE object -- what a caller does to a value it was handed must not change
        #      what the item reports next time, nor what is written
        _reread_after_edit(ctx, where, it, d, want, 'built')
        # ---- oracle 2c: the item OWNS its nested content -- the caller changes the container it assigned (it still holds
        #      it: a list, a pydicom Sequence, a ContentSequence, another item's content) and the item must go on reporting,
        #      and be written with, exactly the children it was given
        n_fail = len(ctx.failures)
        _ownership(ctx, where, it, d, want, handles)
        if len(ctx.failures) != n_fail or (d['children'] and 'ContentSequence' in it and
                                           len(it.ContentSequence) != len(d['children'])):
            it = build(d)           # the item was changed behind its back: the remaining oracles get a fresh one
        # ---- oracle 3: parse back (in memory / through bytes) = same class, equal name, relationship, value, children
        for how, mk in (('memory/class', lambda: plain_copy(it)), ('memory/sequence', lambda: plain_copy(it)),
                        ('bytes-explicit/sequence', lambda: through_bytes(it, False)),
                        ('bytes-implicit/class', lambda: through_bytes(it, True))):
            try:
                back = _parse(mk(), vt, d['rel'], how.split('/')[1])
                got = observe(back)
                if how in ('memory/class', 'bytes-explicit/sequence'):
                    _reread_after_edit(ctx, where, back, d, expected(d, True) if how.startswith('bytes') else want, 'parsed ' + how)
                x = _diff(got, expected(d, True) if how.startswith('bytes') else want)
                if x:
                    ctx.fail(where, {'what': f'parsed item ({how}) differs from the original', 'first difference': x},
                             site='parse/' + vt)
            except Exception as e:  # noqa: BLE001
                ctx.fail(where, f'parsing back ({how}) raised {type(e).__name__}: {e}'[:300], site='parse/' + vt)
        # ---- oracle 3b: further (source, entry point, copy flag) combinations, with what `copy=` promises
        rr = ctx.rng('route', case['idx'])
        combos = [(a_, b_, c_) for a_ in SOURCES for b_ in ENTRIES for c_ in COPIES]
        rr.shuffle(combos)
        done = 0
        want_file = expected(d, True)
        for src, entry, cp in combos:
            if done >= 3:
                break
            try:
                if _route(ctx, where, it, d, src, entry, cp, want, want_file):
                    done += 1
            except Exception as e:  # noqa: BLE001
                ctx.fail(where, f'parsing back ({src}/{entry}/copy-{cp}) raised {type(e).__name__}: {e}'[:300], site='parse/' + vt)
                done += 1
        # ---- oracle 4: damaged datasets are refused
        import highdicom.sr as sr
        from highdicom.sr import value_types as vtm
        r = ctx.rng('damage', case['idx'])
        if reqs is not None:
            sr_flag = d['rel'] is not None
            _parse_probe(reqs, pend, case, 'memory/sequence', plain_copy(it), 'sequence', CLASS[vt], False, sr_flag)
            _parse_probe(reqs, pend, case, 'memory/class', plain_copy(it), 'class', CLASS[vt], False, sr_flag)
            _parse_probe(reqs, pend, case, 'derived/' + r.choice(SOURCES), _source(it, r.choice(SOURCES)), 'derived', CLASS[vt], False, sr_flag)
            dsx = plain_copy(it)
            del dsx[r.choice(REQUIRED[vt] + ['ValueType'])]
            _parse_probe(reqs, pend, case, 'derived-damaged', dsx, 'derived', CLASS[vt], False, sr_flag)
            _parse_probe(reqs, pend, case, 'bytes/sequence', through_bytes(it, r.random() < 0.5), 'sequence', CLASS[vt], False, sr_flag)
            _parse_probe(reqs, pend, case, 'memory/sequence-as-sr', plain_copy(it), 'sequence', CLASS[vt], False, True)
            _parse_probe(reqs, pend, case, 'flags/sr-flipped', plain_copy(it), 'sequence', CLASS[vt], False, not sr_flag)
            _parse_probe(reqs, pend, case, 'flags/root', plain_copy(it), 'sequence', CLASS[vt], True, True)
            dsx = plain_copy(it)
            dsx.RelationshipType = r.choice(['FOO', 'contains', 'CONTAIN'])
            _parse_probe(reqs, pend, case, 'relationship-type-unknown/sequence', dsx, 'sequence', CLASS[vt], False, True)
            if d['children']:
                dsx = plain_copy(it)
                dsx.ContentSequence[r.randrange(len(dsx.ContentSequence))].RelationshipType = 'FOO'
                _parse_probe(reqs, pend, case, 'relationship-type-unknown/child', dsx, 'class', CLASS[vt], False, sr_flag)
            wrong = r.choice([v for v in VTS if v != vt])
            _parse_probe(reqs, pend, case, 'wrong-class/' + wrong, plain_copy(it), 'class', CLASS[wrong], False, True)
            if case['idx'] % 4 == 0:
                for w in VTS:
                    if w not in (vt, wrong):
                        _parse_probe(reqs, pend, case, 'wrong-class-matrix/' + w, plain_copy(it), 'class', CLASS[w], False, True)
            for attr in REQUIRED[vt] + ['ValueType', 'ConceptNameCodeSequence']:
                dsx = plain_copy(it)
                del dsx[attr]
                _parse_probe(reqs, pend, case, 'missing/' + attr + '/class', dsx, 'class', CLASS[vt], False, sr_flag)
                _parse_probe(reqs, pend, case, 'missing/' + attr + '/sequence', plain_copy(dsx), 'sequence', CLASS[vt], False, sr_flag)
            dsx = plain_copy(it)
            dsx.ValueType = r.choice(['FOO', wrong])
            _parse_probe(reqs, pend, case, 'value-type-swapped/' + dsx.ValueType, dsx, 'sequence', CLASS[vt], False, sr_flag)
            if d['children']:
                dsx = plain_copy(it)
                k = r.randrange(len(dsx.ContentSequence))
                what = r.choice(['RelationshipType', 'ValueType'] + REQUIRED[d['children'][k]['vt']])
                del dsx.ContentSequence[k][what]
                _parse_probe(reqs, pend, case, 'child-missing/' + what, dsx, 'class', CLASS[vt], False, sr_flag)
        for attr in REQUIRED[vt]:
            ds = plain_copy(it)
            del ds[attr]
            for how in ('class', 'sequence'):
                try:
                    _parse(ds if how == 'class' else plain_copy(ds), vt, d['rel'], how)
                    ctx.fail(where, f'{vt} dataset without required attribute {attr} parsed ({how})', site='parse-missing/' + vt)
                except Exception:  # noqa: BLE001
                    pass
        # the flags of from_sequence must fit the item; a relationship type must be one of the enumeration
        for label, root, is_sr, must_raise in (
                ('relationship type in a non-SR sequence', False, False, d['rel'] is not None),
                ('no relationship type in a non-root SR sequence', False, True, d['rel'] is None),
                ('root', True, True, d['rel'] is not None or vt != 'CONTAINER')):
            try:
                sr.ContentSequence.from_sequence([plain_copy(it)], is_root=root, is_sr=is_sr)
                if must_raise:
                    ctx.fail(where, f'from_sequence accepted: {label}', site='parse-flags')
            except Exception as e:  # noqa: BLE001
                if not must_raise:
                    ctx.fail(where, f'from_sequence(is_root={root}, is_sr={is_sr}) refused a fitting {vt} item: {type(e).__name__}',
                             site='parse-flags')
        ds = plain_copy(it)
        ds.RelationshipType = 'FOO'
        try:
            sr.ContentSequence.from_sequence([ds], is_root=False, is_sr=True)
            ctx.fail(where, 'a data set with RelationshipType FOO parsed', site='parse-relationship-unknown')
        except Exception:  # noqa: BLE001
            pass
        if vt in NAME_MANDATORY:
            for how in ('class', 'sequence'):
                ds = plain_copy(it)
                del ds['ConceptNameCodeSequence']
                try:
                    _parse(ds, vt, d['rel'], how)
                    ctx.fail(where, f'{vt} dataset without concept name parsed ({how})', site='parse-missing-name/' + vt)
                except Exception:  # noqa: BLE001
                    pass
        for other in VTS:
            if other == vt:
                continue
            ds = plain_copy(it) if case['idx'] % 3 else through_bytes(it, case['idx'] % 2 == 0)
            try:
                getattr(vtm, CLASS[other]).from_dataset(ds, copy=bool(case['idx'] % 2))
                ctx.fail(where, f'{CLASS[other]}.from_dataset accepted a {vt} dataset', site='parse-mismatch/' + other)
            except Exception:  # noqa: BLE001
                pass
            ctx.hist('refusal_matrix', f'{CLASS[other]} x {vt}')
        for label, f in (('no-value-type', lambda x: x.__delitem__('ValueType')),
                         ('unknown-value-type', lambda x: setattr(x, 'ValueType', 'FOO'))):
            ds = plain_copy(it)
            f(ds)
            for how in ('class', 'sequence'):
                try:
                    _parse(ds if how == 'class' else plain_copy(ds), vt, d['rel'], how)
                    ctx.fail(where, f'{vt} dataset with {label} parsed ({how})', site='parse-' + label)
                except Exception:  # noqa: BLE001
                    pass
        if d['children']:
            ds = plain_copy(it)
            del ds.ContentSequence[r.randrange(len(ds.ContentSequence))].RelationshipType
            try:
                _parse(ds, vt, d['rel'], 'class')
                ctx.fail(where, 'nested item without relationship type parsed', site='parse-child-norel')
            except Exception:  # noqa: BLE001
                pass

        def shape(x):
            return (x['vt'], x['args'].get('gt'), len(x['args'].get('pts', [])), tuple(shape(c) for c in x['children']))
        opts = (a.get('layout'),) + tuple(k for k in ('qualifier', 'template', 'frames', 'segments', 'channels', 'origin', 'fiducial', 'positions',
                                 'offsets', 'datetimes') if a.get(k) is not None)
        ntkey = (shape(d), opts, d['rel'] is None)
    ctx.case(sample=case if ctx.evaluations % 211 == 0 else None, nontrivial_key=ntkey, value_type=vt,
             outcome=('ok' if it is not None else 'refused:' + str(err)), planted=str(bad),
             graphic_type=(f'{vt}/{gt}/{len(a["pts"])}' if gt else None) or '-', depth=_depth(d),
             children=len(d['children']), layout=a.get('layout', '-'), plane_shape=a.get('shape', '-'),
             zero_values=(f'{vt}/' + ('only-zero' if len(_zeros(a)) == 1 and _zeros(a)[0] == 0 else 'some-zero' if 0 in _zeros(a) else 'none'))
             if vt in ('TCOORD', 'NUM') else '-',
             **{'spelling_' + k: f'{vt}/{v}' for k, v in (d.get('sp') or {}).items() if k in
                ('rel', 'value', 'frames', 'segments', 'channels', 'values', 'datetime', 'gt', 'origin', 'range', 'continuous',
                 'template', 'also', 'children')},
             spelling_uid=(d.get('sp') or {}).get('uid', '-') if vt in ('UIDREF', 'COMPOSITE', 'IMAGE', 'WAVEFORM', 'SCOORD3D') else '-',
             spelling_optional=('omitted' if (d.get('sp') or {}).get('omit_none') else 'None') if any(
                 x is None for x in [d['rel']] + [a.get(k) for k in ('qualifier', 'template', 'frames', 'segments', 'channels',
                                                                    'origin', 'fiducial') if k in a]) else '-',
             code_args=sum(1 for c in (d['name'], a.get('value'), a.get('unit'), a.get('qualifier')) if isinstance(c, dict) and c.get('as_code')))
    return it, err, obs


def _zeros(a):
    """the numeric values of a TCOORD / NUM specification (to count the falsy ones)"""
    if a.get('offsets') is not None:
        return list(a['offsets'])
    if a.get('positions') is not None:
        return list(a['positions'])
    if 'value' in a and isinstance(a['value'], (int, float)):
        return [a['value']]
    return [1]


def _depth(d):
    return 1 + max([_depth(c) for c in d['children']] or [0])


# ----------------------------------------------------------------------------------------------

def _corpus():
    d = os.path.join(os.path.dirname(os.path.dirname(os.path.dirname(os.path.abspath(__file__)))), 'corpus', PROP)
    out = []
    if os.path.isdir(d):
        for f in sorted(os.listdir(d)):
            if f.endswith('.json'):
                c = json.load(open(os.path.join(d, f)))
                c = c.get('case', c)
                out.append(c.get('case', c) if 'item' not in c else c)
    return out


def _plane_case(ctx, i):
    """A closed POLYGON / 4-point ELLIPSE in every plane shape x coplanar-or-clearly-not x array precision: the clause
    "non-coplanar polygons are rejected" (and exactly coplanar ones accepted) as ordinary, replayable item cases."""
    r = ctx.rng('plane', i)
    gt = r.choice(['POLYGON', 'POLYGON', 'ELLIPSE'])
    cop = r.random() < 0.55
    shape = r.choice(PLANE_SHAPES + ['large'])
    if not cop and shape == 'tiny':
        shape = 'generic'
    if gt == 'ELLIPSE':
        n, closed = 4, False
        if not cop and shape in ('collinear-prefix', 'repeated-first'):
            shape = 'generic'                  # a line and a point always share a plane
    else:
        n, closed = r.choice([4, 5, 6, 8]), True
        if shape in ('collinear-prefix', 'repeated-first'):
            n = max(n, 5 if cop else 6)
        if not cop:
            n = max(n, 5)
    pts = _plane_points(r, n, closed, cop, shape)
    d = {'vt': 'SCOORD3D', 'name': _code(r, 'short'), 'rel': r.choice(RELS), 'children': [], 'bad': None if cop else 'noncoplanar',
         'args': {'gt': gt, 'dim': 3, 'frame_of_reference': _uid(r), 'fiducial': None, 'pts': pts, 'shape': shape,
                  'layout': r.choice(['C', 'float32', 'float32', 'F', 'transposed-view', 'read-only'])}}
    decorate(ctx.rng('plane-spell', i), d)
    return {'idx': 10 ** 6 + i, 'item': d}


def run(ctx):
    import hd_env  # noqa: F401
    cases = _corpus() + [gen_case(ctx, i) for i in range(ctx.n(520, 5200))]
    reqs, pend = [], []
    for case in cases:
        check_item(ctx, case, reqs, pend)
    for i in range(ctx.n(50, 500)):
        check_item(ctx, _plane_case(ctx, i), reqs, pend)
    _coplanar_law(ctx, reqs, pend)
    answers = ctx.model(reqs)
    if answers is None:
        return
    for p, ans in zip(pend, answers):
        if 'proto_err' in ans:
            ctx.disagree('L0', p[1], 'n/a', ans, 'model protocol error')
            continue
        if p[0] == 'build':
            _, where, impl, ads, obs = p
            model_ok = 'ok' in ans
            if (impl[0] == 'ok') != model_ok:
                ctx.disagree('L0', where, impl, ans if not model_ok else 'ok', 'constructor ok-vs-refused')
                continue
            if not model_ok:
                continue
            m = ans['ok']
            if obs is not None:
                x = _diff(json.loads(json.dumps(obs)), m['observe'])
                if x:
                    ctx.disagree('L0', where, x, '', 'accessor values')
            if ads is not None:
                x = _diff(json.loads(json.dumps(ads)), _model_ds_dict(m['ds']))
                if x:
                    ctx.disagree('L1', where, x, '', 'attributes written by the constructor')
            if not m['wf'] or 'ok' not in m['parse']:
                ctx.disagree('L0', where, 'accepted item', {'wf': m['wf'], 'parse': m['parse']}, 'model: built item not well-formed / does not parse back')
        elif p[0] == 'parse':
            _, where, impl = p
            model = ('ok', _strip_keys(ans['ok'])) if 'ok' in ans else ('err', ans['err'])
            if impl[0] != model[0]:
                ctx.disagree('L0', where, impl, model, 'parse ok-vs-refused')
            elif impl[0] == 'ok' and impl[1] != model[1]:
                ctx.disagree('L0', where, impl, model, 'parsed classes')
            ctx.hist('parse_probe', where['probe'].split('/')[0] + ('' if impl[0] == 'ok' else ':refused'))
        elif p[0] == 'coplanar':
            _, where, impl = p
            if ans.get('ok') != impl:
                ctx.disagree('L0', where, impl, ans, 'exact coplanarity vs are_points_coplanar at a safe margin')


def _coplanar_law(ctx, reqs, pend):
    """The law the model takes for granted: exact coplanarity = the library's test, on clearly separated inputs."""
    from highdicom.spatial import are_points_coplanar
    for i in range(ctx.n(60, 600)):
        r = ctx.rng('coplanar', i)
        n = r.choice([3, 4, 4, 5, 6, 9])
        cop = r.random() < 0.5 or n < 4
        shape = r.choice(PLANE_SHAPES)
        if not cop and shape == 'tiny':
            shape = 'generic'
        if not cop and shape in ('collinear-prefix', 'repeated-first'):
            n = max(n, 5)
        closed_ = r.random() < 0.5 and (cop or n >= 6)
        pts = _plane_points(r, n, closed_, cop, shape)
        dt = r.choice(['float64', 'float64', 'float32'])        # graphic data is single precision: the verdict must not depend on it
        impl = bool(are_points_coplanar(np.array(pts, dtype=dt)))
        ctx.hist('coplanar_law_dtype', dt)
        reqs.append(('coplanar', {'pts': [[_fr(x) for x in p] for p in pts]}))
        pend.append(('coplanar', {'pts': pts}, impl))
        if impl != coplanar_exact(pts):
            ctx.note(f'generator: exact coplanarity {coplanar_exact(pts)} but library says {impl} for {pts}')
        ctx.hist('coplanar_law', f'n={n}/{"coplanar" if impl else "not"}')
        ctx.hist('coplanar_law_shape', f'{shape}/{"coplanar" if cop else "not"}')


def replay(ctx, case):
    if 'case' in case and 'item' not in case:
        case = case['case']
    sub = type(ctx)(ctx.prop, ctx.tier, ctx.seed, 1, ctx.driver)
    check_item(sub, case)
    return sub.failures[:3] or None


def shrink(ctx, failure):
    """Drop nested content (children, then grandchildren ...) while some oracle failure at the same site persists."""
    c = failure['case']
    case = c['case'] if 'case' in c and 'item' not in c else c
    site = failure.get('site')

    def fails(cs):
        sub = type(ctx)(ctx.prop, ctx.tier, ctx.seed, 1, ctx.driver)
        try:
            check_item(sub, cs)
        except Exception:  # noqa: BLE001
            return None
        same = [f for f in sub.failures if f.get('site') == site] or sub.failures
        return same[0] if same else None
    best = fails(case)
    if not best:
        return failure
    cur = json.loads(json.dumps(case))

    def nodes(d, path=()):
        yield path, d
        for k, ch in enumerate(d['children']):
            yield from nodes(ch, path + (k,))

    changed = True
    while changed:
        changed = False
        # promote a descendant to the top (the failing item is often a child)
        for path, d in list(nodes(cur['item']))[1:]:
            t = {'idx': cur['idx'], 'item': json.loads(json.dumps(d))}
            f = fails(t)
            if f:
                cur, best, changed = t, f, True
                break
        if changed:
            continue
        for path, d in list(nodes(cur['item'])):
            for k in range(len(d['children']) - 1, -1, -1):
                t = json.loads(json.dumps(cur))
                node = t['item']
                for p in path:
                    node = node['children'][p]
                del node['children'][k]
                f = fails(t)
                if f:
                    cur, best, changed = t, f, True
                    break
            if changed:
                break
    return best
