"""C07  Lossless frame encoding round-trips and rejects what it cannot encode.

Tie T: T13a (`encode_frame` decision tree), T13c (`decode_frame` dispatch), T12 (bit slice).
Tie C: (a) *observation table*: the real `encode_frame` on every cell of transfer syntax x dtype x bits
allocated x samples x photometric interpretation x pixel representation x planar configuration (plus
side axes), accept/refuse compared with the translated tree (refusals raised by highdicom's own code vs
refusals of the codec behind it are told apart by the traceback); (b) native bytes and `decode_frame`
values against the model; (c) the `lossless` law on the real RLE / JPEG-LS codecs.
Oracle (independent of the model): whatever `encode_frame` returns for a lossless syntax must come back
from `decode_frame` with the same parameters exactly (shape and values), and pydicom must decode the
bytes as a one-frame image to the same array; a list of plainly valid requests must be accepted.
"""
from __future__ import annotations

import itertools
import traceback

import numpy as np

PROP = 'C07'
TARGETS = ['T12', 'T13a', 'T13c', 'T13n', 'T13d', 'T13g']
LEAN_MODULES = ['HdVerif.Props.C07']
MODEL_MODULES = ['HdVerif.Model.Codec', 'HdVerif.Model.CodecGlue']
NAMESPACE = 'HdVerif.C07'
DRIVER = 'Drivers/C07.lean'
RULE = ('cells = every combination of (transfer syntax, dtype, bits allocated, samples, photometric interpretation, '
        'pixel representation, planar configuration) + side axes (bits stored, unaligned 1-bit size, 4 samples, invalid '
        'enum values, 32x32 for JPEG 2000), each with a pseudo-random frame incl. dtype extremes; frames = random valid '
        'requests of the lossless syntaxes with rows, cols in 1..40, several memory layouts and contents; non-trivial = '
        'accepted frame with at least two different values, distinct by (syntax, dtype, bits, stored, samples, pi, '
        'rows*cols mod 8, layout)')
ASSUMPTIONS = [
    'no precondition on the content: whatever is accepted must decode to the same values, also samples outside bits_stored',
    'round trips compare shape and values; the returned dtype is pydicom\'s (bool -> uint8), an (r, c, 1) array decodes '
    'to (r, c) and is compared by values; frame index 0 only (offsets inside multi-frame data: C05)',
    'codec law: the lossless law is demanded of the real codecs on the region codecRegion of the model (JPEG-LS Lossless; '
    'RLE Lossless with bits_stored > bits_allocated - 8); RLE outside it is the open finding C07-rle-narrow-stored',
    'JPEG 2000 lossless: no encoder is installed in this environment; cells are observed as codec refusals (not in the region)',
    'glue stream: images without the (type 1) Bits Stored attribute are read through get_stored_frame / get_stored_frames only '
    '(in memory and lazily) -- the readers with the Bits Allocated fall-back; the pixel transform (get_frame, get_frames), the '
    'cached pixel_array and ImageFileReader need the attribute (C06 / pydicom) and are exercised with it present; 64-bit cells are read '
    'through get_stored_frame(s), the cached pixel_array and ImageFileReader only (the pixel transform knows 8 / 16 / 32-bit integers: '
    'get_frame raises AttributeError input_dtype, C06); YBR_FULL '
    'frames (open finding) are not drawn; the segmentation writer is tied by T13g only (its objects are C01-C04\'s)',
]
MODELLED_NOT_VERIFIED = ['pydicom RLE encoder/decoder', 'pyjpegls (JPEG-LS) codec', 'pydicom pack_bits / unpack_bits',
                         'pydicom native pixel data decoder (length check, unused-bit correction, YBR->RGB)',
                         'numpy flatten / astype / tobytes', 'PIL JPEG baseline (lossy, outside the property)']

IMPLICIT, EXPLICIT = '1.2.840.10008.1.2', '1.2.840.10008.1.2.1'
RLE, JLS, JLSN = '1.2.840.10008.1.2.5', '1.2.840.10008.1.2.4.80', '1.2.840.10008.1.2.4.81'
J2K, J2KL, JPG = '1.2.840.10008.1.2.4.91', '1.2.840.10008.1.2.4.90', '1.2.840.10008.1.2.4.50'
DEFL, EXPLBE = '1.2.840.10008.1.2.1.99', '1.2.840.10008.1.2.2'
TS_ALL = [IMPLICIT, EXPLICIT, RLE, JLS, JLSN, J2K, J2KL, JPG, DEFL, EXPLBE]
LOSSLESS = {IMPLICIT, EXPLICIT, RLE, JLS, J2KL}
NATIVE = {IMPLICIT, EXPLICIT}
PIS = ['MONOCHROME1', 'MONOCHROME2', 'PALETTE COLOR', 'RGB', 'YBR_FULL', 'YBR_FULL_422', 'YBR_PARTIAL_420',
       'YBR_ICT', 'YBR_RCT']
TSNAME = {IMPLICIT: 'implicit', EXPLICIT: 'explicit', RLE: 'rle', JLS: 'jpegls', JLSN: 'jpegls-near', J2K: 'j2k',
          J2KL: 'j2k-lossless', JPG: 'jpeg-baseline', DEFL: 'deflated', EXPLBE: 'explicit-be'}

# requests that are plainly valid (PS3.5) and inside highdicom's documented scope: must be accepted
MUST_ACCEPT = [
    (EXPLICIT, 'bool', 1, 1, None, 'MONOCHROME2', 0, None, (4, 6)),
    (IMPLICIT, 'uint8', 1, 1, None, 'MONOCHROME2', 0, None, (2, 4)),
    (EXPLICIT, 'uint8', 8, 8, None, 'MONOCHROME1', 0, None, (3, 5)),
    (IMPLICIT, 'uint16', 16, 16, None, 'MONOCHROME2', 0, None, (3, 5)),
    (EXPLICIT, 'uint16', 16, 12, None, 'MONOCHROME2', 0, None, (3, 5)),
    (EXPLICIT, 'int16', 16, 16, None, 'MONOCHROME2', 1, None, (3, 5)),
    (IMPLICIT, 'int8', 8, 8, None, 'MONOCHROME2', 1, None, (3, 5)),
    (EXPLICIT, 'uint64', 64, 64, None, 'MONOCHROME2', 0, None, (3, 5)),
    (IMPLICIT, 'int64', 64, 64, None, 'MONOCHROME2', 1, None, (3, 5)),
    (EXPLICIT, 'int64', 64, 40, None, 'MONOCHROME2', 1, None, (3, 5)),
    (EXPLICIT, 'uint8', 8, 8, 3, 'RGB', 0, 0, (3, 5)),
    (EXPLICIT, 'uint8', 8, 8, None, 'PALETTE COLOR', 0, None, (3, 5)),
    (RLE, 'uint8', 8, 8, None, 'MONOCHROME2', 0, None, (3, 5)),
    (RLE, 'uint16', 16, 16, None, 'MONOCHROME2', 0, None, (3, 5)),
    (RLE, 'int16', 16, 16, None, 'MONOCHROME2', 1, None, (3, 5)),
    (RLE, 'uint8', 8, 8, 3, 'RGB', 0, 0, (3, 5)),
    (JLS, 'uint8', 8, 8, None, 'MONOCHROME2', 0, None, (16, 16)),
    (JLS, 'uint16', 16, 16, None, 'MONOCHROME2', 0, None, (16, 16)),
    (JLS, 'uint8', 8, 8, 3, 'RGB', 0, 0, (16, 16)),
] + [
    # a 0 / 1 mask given in ANY integer dtype is packed into single bits (native, 1 bit allocated): signed and unsigned, 8-64 bit
    (ts_, dt_, 1, 1, None, 'MONOCHROME2', 0, None, (4, 6)) for ts_ in (EXPLICIT, IMPLICIT)
    for dt_ in ('uint8', 'uint16', 'uint32', 'uint64', 'int8', 'int16', 'int32', 'int64')
] + [
    # a mask held in bool cells with 8 bits allocated and k bits stored (0 / 1 fit every k >= 1): native cells of one byte
    (ts_, 'bool', 8, k_, None, 'MONOCHROME2', 0, None, (3, 5)) for ts_ in (EXPLICIT, IMPLICIT) for k_ in range(1, 9)
]


# ------------------------------------------------------------------ helpers
def _poke_outside(a, bs, where, how):
    """one sample just outside (or at the far end beyond) the range of bs stored bits, at the first / last / a middle
    position; returns None when the dtype cannot hold such a value"""
    if a.dtype.kind not in 'iu' or a.size == 0:
        return None
    info = np.iinfo(a.dtype)
    if a.dtype.kind == 'i':
        lo, hi = -(2 ** (bs - 1)), 2 ** (bs - 1) - 1
        cand = {'above': hi + 1, 'below': lo - 1, 'max': int(info.max), 'min': int(info.min)}[how]
    else:
        lo, hi = 0, 2 ** bs - 1
        cand = {'above': hi + 1, 'below': hi + 1, 'max': int(info.max), 'min': int(info.max)}[how]
    if not (int(info.min) <= cand <= int(info.max)) or lo <= cand <= hi:
        return None
    b = a.copy()
    b.flat[{'first': 0, 'last': b.size - 1, 'middle': b.size // 2}[where]] = cand
    return b


def _mk_array(nr, dtype, shape, ba, bs, pr, content='random'):
    """deterministic frame of the given dtype; values fit bits_stored when that is meaningful"""
    if dtype == 'bool':
        a = nr.random(shape) < 0.5
    elif dtype.startswith('float'):
        a = nr.standard_normal(shape).astype(dtype)
    else:
        info = np.iinfo(dtype)
        lo, hi = int(info.min), int(info.max)
        if ba == 1:
            lo, hi = 0, 1
        elif 1 <= bs < 8 * np.dtype(dtype).itemsize:
            if info.min < 0:   # signed dtype
                lo, hi = max(lo, -(2 ** (bs - 1))), min(hi, 2 ** (bs - 1) - 1)
            else:
                hi = min(hi, 2 ** bs - 1)
        if np.dtype(dtype).itemsize == 8:
            a = nr.integers(lo, hi, size=shape, endpoint=True, dtype=np.dtype(dtype))
        else:
            a = nr.integers(lo, hi, size=shape, endpoint=True).astype(dtype)
        if content == 'zero':
            a[...] = 0
        elif content == 'max':
            a[...] = hi
        elif content == 'min':
            a[...] = lo
        elif content == 'checker':
            chk = (np.indices(shape).sum(axis=0) % 2).astype(bool)
            a = np.where(chk, np.array(hi, dtype=dtype), np.array(lo, dtype=dtype)).astype(dtype)
        elif a.size >= 2:
            a.flat[0] = hi
            a.flat[-1] = lo
    return a


def _layout(a, layout):
    if layout == 'fortran':
        return np.asfortranarray(a)
    if layout == 'view':
        big = np.zeros((a.shape[0] * 2, a.shape[1] * 2) + a.shape[2:], dtype=a.dtype)
        big[::2, 1::2] = a
        return big[::2, 1::2]
    if layout == 'bigendian' and a.dtype.itemsize > 1:
        return a.astype(a.dtype.newbyteorder('>'))
    if layout == 'negstride':
        rev = tuple(slice(None, None, -1) for _ in a.shape)
        return np.ascontiguousarray(a[rev])[rev]          # the same values seen through negative strides
    if layout == 'readonly':
        b = np.array(a, copy=True)
        b.flags.writeable = False
        return b
    return a


def _classify_exception(e):
    """'validation': raised by highdicom.frame's own code (or an enum constructor it calls);
    'codec': raised below it (pydicom, PIL, numpy, codec plugin / codec unavailable)."""
    if isinstance(e, ImportError):       # a codec package is not installed (reported by frame.py itself)
        return 'codec'
    tb = traceback.extract_tb(e.__traceback__)
    files = [f.filename.replace('\\', '/') for f in tb]
    idx = [i for i, f in enumerate(files) if f.endswith('highdicom/frame.py')]
    if not idx:
        return 'codec'
    deeper = files[idx[-1] + 1:]
    if not deeper:
        return 'validation'
    if all(f.endswith('/enum.py') for f in deeper):
        return 'validation'
    return 'codec'


# SPELLING of the enum-valued arguments (photometric_interpretation, pixel_representation, planar_configuration): each is
# documented as "enum member or its value"; 'r' = the raw value (str / int), 'm' = the enum member.  A generator
# dimension of its own (guide 3a): the translated tree sees values only, so a comparison made before the argument is
# normalised (`pixel_representation == 1` on a member) is visible to the oracle / L0 only if members are drawn.
# 'o' = the optional argument is LEFT OUT (only when its value is the documented default: pixel representation 0, planar
# configuration None; otherwise it is spelled raw)
SPELLS = ['rrr', 'mmm', 'rmr', 'mrr', 'rrm', 'mmr', 'rmm', 'mrm', 'roo', 'mor', 'rro', 'mom']


_OMIT = object()
_DEFAULTS = {'pixel_representation': 0, 'planar_configuration': None}     # checked against the signatures by T13d / tie_defaults_agree


def _spelled(pi, pr, pc, spell):
    """-> (photometric interpretation, keyword arguments for the optional parameters)"""
    from highdicom.enum import PhotometricInterpretationValues, PixelRepresentationValues, PlanarConfigurationValues
    out = []
    for name, v, s, cls in (('photometric_interpretation', pi, spell[0], PhotometricInterpretationValues),
                            ('pixel_representation', pr, spell[1], PixelRepresentationValues),
                            ('planar_configuration', pc, spell[2], PlanarConfigurationValues)):
        if s == 'o' and name in _DEFAULTS and (v is _DEFAULTS[name] or (v is not None and v == _DEFAULTS[name] and type(v) is int)):
            v = _OMIT
        elif s == 'm' and v is not None:
            try:
                v = cls(v)
            except ValueError:
                pass            # not a value of the enum: stays raw (must be refused either way)
        out.append(v)
    kw = {k: v for k, v in (('pixel_representation', out[1]), ('planar_configuration', out[2])) if v is not _OMIT}
    return out[0], kw


# TYPE of the integer parameters (bits allocated / stored, rows, columns, samples, index): Python int or a numpy integer scalar
# (as taken from another array or a data set) -- documented as "int"; numpy scalars overflow in `2 ** bits_stored` unless converted
NUMS = ['int', 'int', 'int', 'int8', 'int', 'int64', 'uint8', 'int', 'int16', 'uint16']


def _num(v, kind):
    if kind == 'int' or v is None or isinstance(v, bool) or not isinstance(v, int):
        return v
    t = np.dtype(kind).type
    info = np.iinfo(kind)
    return t(v) if info.min <= v <= info.max else v


def _next_num(ctx):
    k = getattr(ctx, '_c07_num', 0)
    ctx._c07_num = k + 1
    return NUMS[(k + 3 * ctx.seed) % len(NUMS)]


def _next_spell(ctx):
    k = getattr(ctx, '_c07_spell', 0)
    ctx._c07_spell = k + 1
    return SPELLS[(k + ctx.seed) % len(SPELLS)]


def _encode(a, ts, ba, bs, pi, pr, pc, spell='rrr', num='int'):
    from highdicom.frame import encode_frame
    pi, kw = _spelled(pi, pr, pc, spell)
    try:
        return ('ok', encode_frame(a, ts, _num(ba, num), _num(bs, num), pi, **kw))
    except Exception as e:  # noqa: BLE001
        return (_classify_exception(e), f'{type(e).__name__}: {str(e)[:100]}')


def _decode(b, ts, rows, cols, samples, ba, bs, pi, pr, pc, spell='rrr', num='int'):
    from highdicom.frame import decode_frame
    pi, kw = _spelled(pi, pr, pc, spell)
    try:
        return ('ok', decode_frame(b, ts, _num(rows, num), _num(cols, num), _num(samples, num), _num(ba, num), _num(bs, num), pi, **kw))
    except Exception as e:  # noqa: BLE001
        return ('err', f'{type(e).__name__}: {str(e)[:300]}')


def _pydicom_one_frame(b, ts, rows, cols, samples, ba, bs, pi, pr, pc):
    """the bytes as a one-frame image, decoded by pydicom alone (no colour conversion: raw=True)"""
    from pydicom.dataset import Dataset, FileMetaDataset
    from pydicom.encaps import encapsulate
    from pydicom.pixels import pixel_array
    from pydicom.uid import UID
    ds = Dataset()
    ds.file_meta = FileMetaDataset()
    ds.file_meta.TransferSyntaxUID = UID(ts)
    ds.Rows, ds.Columns, ds.SamplesPerPixel = rows, cols, samples
    ds.BitsAllocated, ds.BitsStored, ds.HighBit = ba, bs, bs - 1
    ds.PixelRepresentation = pr
    ds.PhotometricInterpretation = pi
    if samples > 1:
        ds.PlanarConfiguration = pc if pc is not None else 0
    ds.NumberOfFrames = 1
    if UID(ts).is_encapsulated:
        ds.PixelData = encapsulate([b])
    else:
        ds.PixelData = b + (b'\x00' if len(b) % 2 else b'')
    try:
        return ('ok', pixel_array(ds, raw=True))
    except Exception as e:  # noqa: BLE001
        return ('err', f'{type(e).__name__}: {str(e)[:300]}')


def _ints(a):
    """the values of an integer / bool array in C order as Python ints (exact also for uint64 above 2**63)"""
    a = np.asarray(a)
    if a.dtype.kind == 'b':
        a = a.astype(np.uint8)
    if a.dtype.kind == 'f':
        a = a.astype(np.int64)
    return a.reshape(-1).tolist()


def _same(got, a):
    """exact equality of shape and values (bool frames come back as 0/1 integers)"""
    got = np.asarray(got)
    if got.shape != a.shape:
        return False
    return _ints(got) == _ints(a)


def _same_values(got, a):
    """equality of the values in C order (the one-frame decode of pydicom drops / adds unit dimensions)"""
    got = np.asarray(got)
    if got.size != a.size:
        return False
    return _ints(got) == _ints(a)


def _fits_stored(a, ba, bs, pr):
    """content within the stored range -- judged by the array's OWN signedness, so that a frame whose dtype contradicts
    the declared pixel representation stays inside the oracle (it must be refused or round-trip)"""
    if a.dtype.kind == 'f' or ba == 1 or not (1 <= bs <= 64):
        return True
    mn, mx = int(a.min()), int(a.max())
    if a.dtype.kind == 'i':
        return bool(mn >= -(2 ** (bs - 1)) and mx < 2 ** (bs - 1))
    return bool(mn >= 0 and mx < 2 ** bs)


def _case(kind, ts, dtype, ba, bs, samples, pi, pr, pc, a, layout='c'):
    c = {'kind': kind, 'ts': ts, 'dtype': dtype, 'ba': ba, 'bs': bs, 'samples': samples, 'pi': pi, 'pr': pr, 'pc': pc,
         'shape': list(a.shape), 'layout': layout}
    if a.size <= 400:
        c['data'] = np.asarray(a).astype(np.float64).reshape(-1).tolist() if a.dtype.kind == 'f' else _ints(a)
    return c


def _array_of_case(case):
    if case['dtype'] == 'bool':
        a = np.array(case['data']).reshape(case['shape']).astype(bool)
    elif case['dtype'].startswith('float'):
        a = np.array(case['data'], dtype=case['dtype']).reshape(case['shape'])
    else:
        a = np.array([int(v) for v in case['data']], dtype=case['dtype']).reshape(case['shape'])
    return _layout(a, case.get('layout', 'c'))


def _model_args(ts, ba, bs, pi, pr, pc, a):
    return {'ts': ts, 'ba': ba, 'bs': bs, 'pi': pi, 'pr': pr, 'planar': pc, 'shape0': a.shape[0], 'shape1': a.shape[1],
            'shape2': a.shape[2] if a.ndim > 2 else 0, 'ndim': a.ndim, 'kind': a.dtype.kind, 'itemsize': a.dtype.itemsize,
            'dtype': str(a.dtype), 'max': int(a.max()) if a.dtype.kind != 'f' else int(np.nanmax(a)),
            'min': int(a.min()) if a.dtype.kind != 'f' else int(np.nanmin(a))}


# ------------------------------------------------------------------ one request through implementation, oracle, model
def _unaligned_allocated(case, detail, site):
    """the face of the open finding C07-bits-allocated-not-byte-multiple: a native frame accepted with a bits_allocated
    that is neither 1 nor a multiple of 8, which no decoder takes"""
    return case.get('ts') in NATIVE and isinstance(case.get('ba'), int) and case['ba'] > 1 and case['ba'] % 8 != 0 \
        and site in ('roundtrip', 'one-frame') and isinstance(detail, str) and "'Bits Allocated' value of" in detail \
        and 'is invalid' in detail


class _Capped:
    """the open findings fail on every frame of their class; report the first 40 observations of each as failures
    (they are attributed), count the rest, so that they cannot crowd other failures out of the failure list"""

    def __init__(self, ctx):
        self.ctx = ctx

    def __getattr__(self, k):
        return getattr(self.ctx, k)

    def fail(self, case, detail, site=None):
        cls = None
        if case.get('pi') == 'YBR_FULL' and case.get('samples') == 3 and site == 'roundtrip':
            cls = 'ybr-full'
        elif case.get('ts') == RLE and isinstance(case.get('bs'), int) and isinstance(case.get('ba'), int) \
                and case['ba'] >= 16 and (case['bs'] + 7) // 8 < case['ba'] // 8 and isinstance(detail, str) \
                and 'decoded RLE segment data' in detail:
            cls = 'rle-narrow'
        elif _unaligned_allocated(case, detail, site):
            cls = 'unaligned-allocated'
        if cls is not None:
            n = getattr(self.ctx, '_c07_known', {})
            n[cls] = n.get(cls, 0) + 1
            self.ctx._c07_known = n
            if n[cls] > 40:
                self.ctx.hist('open_finding_observations', cls)
                return
        self.ctx.fail(case, detail, site=site)


def _check(ctx, kind, ts, dtype, ba, bs, samples, pi, pr, pc, a, reqs, pending, layout='c', must_accept=False, spell=None,
           num=None):
    if spell is None:
        spell = _next_spell(ctx)
    if num is None:
        num = _next_num(ctx)
    ctx = _Capped(ctx)
    case = _case(kind, ts, dtype, ba, bs, samples, pi, pr, pc, a, layout)
    case['spell'] = spell
    case['num'] = num
    snap = np.ascontiguousarray(a).tobytes()
    st, val = _encode(a, ts, ba, bs, pi, pr, pc, spell, num)
    if np.ascontiguousarray(a).tobytes() != snap:
        ctx.fail(case, 'encode_frame modified the array it was given', site='input-modified')
    spp = a.shape[2] if a.ndim > 2 else 1
    rows, cols = a.shape[0], a.shape[1]
    outcome = 'accepted' if st == 'ok' else ('refused' if st == 'validation' else 'codec-refused')
    nontriv = None
    fits = _fits_stored(a, ba, bs, pr)
    if st == 'ok' and a.size > 1 and a.min() != a.max():
        nontriv = (ts, dtype, ba, bs, samples, pi, (rows * cols) % 8, layout)
    ctx.case(sample=case if (st == 'ok' and ctx.evaluations % 211 == 0) else None, nontrivial_key=nontriv,
             syntax=TSNAME.get(ts, ts), outcome=outcome, kind=kind, dtype=dtype, bits=f'{ba}/{bs}', spelling=spell, integer_type=num,
             **({'layout': layout} if kind == 'frame' else {}))
    if st != 'ok':
        ctx.hist('refusal', (TSNAME.get(ts, ts), val.split(':')[0], st))
    # ---- model: translated decision tree on the same request (L0: accepted vs refused by highdicom's own checks)
    reqs.append(('encodeRouteRaw', _model_args(ts, ba, bs, pi, pr, pc, a)))
    pending.append((case, 'route', st))
    # ---- model: the refusal of `pack_bits` itself (1-bit native, content other than 0 / 1)
    if st == 'codec' and ts in NATIVE and ba == 1 and a.dtype.kind in 'biu' and a.ndim in (2, 3) and a.size <= 2000:
        reqs.append(('encodeFrame', {'ts': ts, 'ba': ba, 'bs': bs, 'pi': pi, 'pr': pr, 'planar': pc, 'rows': rows, 'cols': cols,
                                     'samples': (a.shape[2] if a.ndim > 2 else None), 'dtype': a.dtype.name,
                                     'data': _ints(a)}))
        pending.append((case, 'bytes-refused', val))
    # ---- oracle
    if must_accept and st != 'ok':
        ctx.fail(case, f'valid request refused: {val}', site='must-accept')
    if st == 'ok' and ts in LOSSLESS:
        if not isinstance(val, (bytes, bytearray)):
            ctx.fail(case, f'encode_frame returned {type(val).__name__}', site='encode')
            return
        if not fits:
            ctx.hist('content', 'a sample outside bits_stored was accepted')
        if True:
            st2, dec = _decode(val, ts, rows, cols, spp, ba, bs, pi, pr, pc, spell, num)
            shape_free = (a.ndim == 3 and a.shape[2] == 1)
            if st2 != 'ok':
                ctx.fail(case, f'accepted, but decode_frame with the same parameters fails: {dec}', site='roundtrip')
            elif not (_same(dec, a) or (shape_free and _same_values(dec, a))):
                ctx.fail(case, {'what': 'decode_frame(encode_frame(x)) != x', 'got_shape': list(np.asarray(dec).shape),
                                **({'is_ybr_to_rgb': _ybr_converted(a, dec, ba)} if pi == 'YBR_FULL' else {}),
                                'got': _ints(dec)[:24] if np.asarray(dec).dtype.kind in 'biu' else np.asarray(dec).reshape(-1)[:24].tolist(),
                                'want': _ints(a)[:24]}, site='roundtrip')
            # ---- several calls in ONE process: a result is the caller's own.  Edit the decoded array in place (as windowing
            # or masking code does), decode the same bytes with the same parameters again: the second result must be the
            # original frame again and must not share memory with the first; encoding the same frame again gives the same
            # bytes (nothing carried over from earlier calls, whatever syntaxes came before)
            if st2 == 'ok' and isinstance(dec, np.ndarray) and dec.size:
                first = dec
                before = np.array(first, copy=True)
                if first.flags.writeable:
                    if before.dtype.kind in 'iu':
                        first[...] = np.bitwise_xor(before, 1)
                    elif before.dtype.kind == 'b':
                        first[...] = ~before
                    edited = not np.array_equal(first, before)
                else:
                    edited = False
                    ctx.hist('decode_history', 'result not writeable')
                st2b, again = _decode(val, ts, rows, cols, spp, ba, bs, pi, pr, pc, spell, num)
                if st2b != 'ok':
                    ctx.fail(case, f'the second decode_frame call with equal arguments fails: {again}', site='decode-history')
                else:
                    if not (np.asarray(again).shape == before.shape and np.array_equal(np.asarray(again), before)):
                        ctx.fail(case, {'what': 'decode_frame returns different values for equal arguments after the first result '
                                                'was edited in place', 'first_call': before.reshape(-1)[:12].tolist(),
                                        'second_call': np.asarray(again).reshape(-1)[:12].tolist()}, site='decode-history')
                    elif isinstance(again, np.ndarray) and np.shares_memory(first, again):
                        ctx.fail(case, 'two decode_frame calls return arrays that share memory', site='decode-history')
                    ctx.hist('decode_history', 'edited and decoded again' if edited else 'decoded again')
                dec = before
                if ctx.evaluations % 3 == 0:
                    st1b, val2 = _encode(a, ts, ba, bs, pi, pr, pc, spell)
                    if st1b != 'ok' or bytes(val2) != bytes(val):
                        ctx.fail(case, 'encoding the same frame a second time gives ' +
                                 (str(val2) if st1b != 'ok' else 'different bytes'), site='encode-history')
            st3, pyd = _pydicom_one_frame(val, ts, rows, cols, spp, ba, bs, pi, pr, pc)
            if st3 != 'ok':
                ctx.fail(case, f'pydicom cannot decode the bytes as a one-frame image: {pyd}', site='one-frame')
            elif not _same_values(pyd, a):
                ctx.fail(case, {'what': 'pydicom decodes the bytes to a different array',
                                'got': np.asarray(pyd).reshape(-1)[:24].tolist(),
                                'want': _ints(a)[:24]}, site='one-frame')
            if ts in (RLE, JLS):
                # the law LosslessOn codecRegion of the model, exercised on the real codec: inside the region a failure is
                # a plain violation (never attributed), outside it (RLE, a whole unused byte) it is the open finding
                in_region = ts == JLS or bs > ba - 8
                held = st2 == 'ok' and (_same(dec, a) or (shape_free and _same_values(dec, a))) or \
                    (pi in ('YBR_FULL', 'YBR_FULL_422') and st3 == 'ok' and _same_values(pyd, a))
                ctx.hist('codec_law', (TSNAME[ts], 'in codecRegion' if in_region else 'outside codecRegion',
                                       'held' if held else 'BROKEN'))
            # ---- model L1: native bytes and decode values
            if ts in NATIVE and a.dtype.kind in 'biu' and a.size <= 2000:
                fa = {'ts': ts, 'ba': ba, 'bs': bs, 'pi': pi, 'pr': pr, 'planar': pc, 'rows': rows, 'cols': cols,
                      'samples': (a.shape[2] if a.ndim > 2 else None), 'dtype': a.dtype.name,
                      'data': _ints(a)}
                reqs.append(('encodeFrame', fa))
                pending.append((case, 'bytes', list(val)))
                if st2 == 'ok' and pi not in ('YBR_FULL', 'YBR_FULL_422'):
                    reqs.append(('decodeFrame', {'ts': ts, 'ba': ba, 'bs': bs, 'pi': pi, 'pr': pr, 'planar': pc, 'rows': rows,
                                                 'cols': cols, 'samples': spp, 'bytes': list(val), 'index': 0}))
                    pending.append((case, 'values', _ints(dec)))


# ------------------------------------------------------------------ streams
def _cells(ctx, reqs, pending):
    thorough = ctx.tier == 'thorough'
    dts = ['bool', 'uint8', 'uint16', 'int16', 'int8'] + (['uint32', 'int32', 'float32', 'uint64', 'int64'] if thorough else [])
    bas = [1, 8, 16] + ([12, 32, 64] if thorough else [])
    idx = 0
    for ts, dt, ba, samples, pi, pr, pc in itertools.product(TS_ALL, dts, bas, [None, 3], PIS, [0, 1], [None, 0, 1]):
        shape = (4, 6) if samples is None else (4, 6, samples)
        a = _mk_array(ctx.np_rng('cell', idx), dt, shape, ba, ba, pr)
        _check(ctx, 'cell', ts, dt, ba, ba, samples, pi, pr, pc, a, reqs, pending)
        idx += 1
    ctx.exhaustive.append(f'encode_frame accept/refuse on {idx} cells: {len(TS_ALL)} syntaxes x {len(dts)} dtypes x '
                          f'{len(bas)} bits allocated x {{2-D, 3 samples}} x 9 photometric interpretations x '
                          f'pixel representation {{0,1}} x planar configuration {{None,0,1}}')
    # side axes, one at a time around valid centres
    side = 0
    centres = [(ts, dt, ba, s, pi, pr, pc) for (ts, dt, ba, bs, s, pi, pr, pc, sh) in MUST_ACCEPT]
    for (ts, dt, ba, s, pi, pr, pc) in centres:
        base_shape = (16, 16) if ts == JLS else (4, 6)
        shp = base_shape if s is None else base_shape + (s,)
        for bs in sorted({0, 1, ba - 1, ba, ba + 1, 7, 12, 20, -3}):
            a = _mk_array(ctx.np_rng('side-bs', side), dt, shp, ba, bs, pr)
            _check(ctx, 'side', ts, dt, ba, bs, s, pi, pr, pc, a, reqs, pending)
            side += 1
        for pr2 in (2, -1):
            a = _mk_array(ctx.np_rng('side-pr', side), dt, shp, ba, ba, pr)
            _check(ctx, 'side', ts, dt, ba, ba, s, pi, pr2, pc, a, reqs, pending)
            side += 1
        for pc2 in (2, -1):
            a = _mk_array(ctx.np_rng('side-pc', side), dt, shp, ba, ba, pr)
            _check(ctx, 'side', ts, dt, ba, ba, s, pi, pr, pc2, a, reqs, pending)
            side += 1
        for pi2 in ('XYZ', '', 'rgb', 'MONOCHROME'):
            a = _mk_array(ctx.np_rng('side-pi', side), dt, shp, ba, ba, pr)
            _check(ctx, 'side', ts, dt, ba, ba, s, pi2, pr, pc, a, reqs, pending)
            side += 1
        for extra in ((3, 5), (1, 1), (1, 7), (5, 8), (32, 32), (33, 40)):
            shp2 = extra if s is None else extra + (s,)
            a = _mk_array(ctx.np_rng('side-shape', side), dt, shp2, ba, ba, pr)
            _check(ctx, 'side', ts, dt, ba, ba, s, pi, pr, pc, a, reqs, pending)
            side += 1
        for s2 in (1, 2, 4):
            a = _mk_array(ctx.np_rng('side-samples', side), dt, base_shape + (s2,), ba, ba, pr)
            for pc2 in (None, 0):
                _check(ctx, 'side', ts, dt, ba, ba, s2, pi, pr, pc2, a, reqs, pending)
            side += 1
    # bits stored below bits allocated: in-range content, and ONE sample outside (first / last pixel, just outside / at
    # the dtype's extreme) -- for every lossless syntax, unsigned and signed: must be refused or round-trip
    for ts in (IMPLICIT, EXPLICIT, RLE, JLS):
        for dt, ba, bs, pr in (('uint16', 16, 12, 0), ('uint8', 8, 4, 0), ('uint16', 16, 9, 0), ('int16', 16, 12, 1),
                               ('int8', 8, 4, 1), ('uint16', 16, 15, 0), ('int16', 16, 15, 1)):
            if ts == JLS and pr == 1:
                continue
            shp = (16, 16) if ts == JLS else (4, 6)
            base = _mk_array(ctx.np_rng('side-out', side), dt, shp, ba, bs, pr)
            _check(ctx, 'side', ts, dt, ba, bs, None, 'MONOCHROME2', pr, None, base, reqs, pending)
            side += 1
            for where in ('first', 'last'):
                for how in ('above', 'below', 'max', 'min'):
                    b = _poke_outside(base, bs, where, how)
                    if b is not None:
                        _check(ctx, 'side-outside', ts, dt, ba, bs, None, 'MONOCHROME2', pr, None, b, reqs, pending)
                        side += 1
    # bits allocated that is neither 1 nor a multiple of 8 (PS3.5 8.1.1 excludes it): the cell width highdicom accepts for
    # it is ceil(bits_allocated / 8) bytes (SCImage hands 12 with uint16 cells); whatever is accepted must round-trip
    for ts in (IMPLICIT, EXPLICIT, RLE, JLS):
        for dt, ba, bs, pr in (('uint16', 12, 12, 0), ('uint16', 12, 10, 0), ('int16', 12, 12, 1), ('uint8', 4, 4, 0), ('uint8', 7, 7, 0),
                               ('uint16', 9, 9, 0), ('uint16', 15, 15, 0), ('uint32', 24, 24, 0), ('uint32', 17, 17, 0),
                               ('uint8', 12, 12, 0), ('uint16', 4, 4, 0), ('uint32', 12, 12, 0), ('int8', 12, 12, 1)):
            shp = (16, 16) if ts == JLS else (4, 6)
            a = _mk_array(ctx.np_rng('side-unaligned', side), dt, shp, ba, bs, pr)
            _check(ctx, 'side-unaligned', ts, dt, ba, bs, None, 'MONOCHROME2', pr, None, a, reqs, pending)
            side += 1
    # 1 bit allocated with content other than 0 / 1 (pack_bits' own refusal; the 1-bit JPEG 2000 route's check): refused
    for ts, shp in ((EXPLICIT, (4, 6)), (IMPLICIT, (4, 6)), (J2KL, (32, 32))):
        for dt, bad in (('uint8', 2), ('uint8', 255), ('int8', -1), ('int16', -1), ('uint16', 2), ('float32', 0.5), ('float32', -1.0)):
            a = np.zeros(shp, dtype=dt)
            a[1, 2] = 1
            a[shp[0] - 1, shp[1] - 1] = bad
            _check(ctx, 'side-onebit-content', ts, dt, 1, 1, None, 'MONOCHROME2', 0, None, a, reqs, pending)
            side += 1
    # optional arguments LEFT OUT on both sides (pixel representation, planar configuration, index): what is then encoded must decode,
    # with the same arguments left out, to the same frame -- signed arrays with negative samples included (refused or round trip)
    for ts in (IMPLICIT, EXPLICIT, RLE, JLS):
        for dt, ba, bs in (('int16', 16, 16), ('int16', 16, 12), ('int8', 8, 8), ('uint16', 16, 12), ('uint8', 8, 8), ('int32', 32, 32)):
            shp = (16, 16) if ts == JLS else (3, 5)
            a = _mk_array(ctx.np_rng('side-defaults', side), dt, shp, ba, bs, 1 if dt.startswith('int') else 0)
            if dt.startswith('int') and a.size:
                a.flat[a.size // 2] = -1
            for spell in ('roo', 'moo'):
                _check(ctx, 'side-defaults', ts, dt, ba, bs, None, 'MONOCHROME2', 0, None, a, reqs, pending, spell=spell)
            side += 1
    # masks held in bool cells with 8 / k and 16 / k bits (allocated / stored): refused, or exact round trip
    for ts in (IMPLICIT, EXPLICIT, RLE, JLS):
        for ba, ks in ((8, range(1, 9)), (16, (1, 7, 8, 9, 15, 16))):
            for k_ in ks:
                shp = (16, 16) if ts == JLS else (3, 5)
                a = ctx.np_rng('side-boolcells', side).random(shp) < 0.5
                _check(ctx, 'side-boolcells', ts, 'bool', ba, k_, None, 'MONOCHROME2', 0, None, a, reqs, pending)
                side += 1
    # JPEG 2000 needs 32x32; 1-bit branch looks at dtype and max
    for ts, dt, ba, pi, pc, s in [(J2KL, 'uint8', 8, 'MONOCHROME2', None, None), (J2KL, 'bool', 1, 'MONOCHROME2', None, None),
                                  (J2KL, 'uint8', 1, 'MONOCHROME2', None, None), (J2K, 'uint8', 8, 'YBR_ICT', 0, 3),
                                  (J2KL, 'uint8', 8, 'YBR_RCT', 0, 3), (J2KL, 'uint16', 16, 'MONOCHROME2', None, None)]:
        for shp in ((32, 32), (31, 40), (40, 31), (64, 32)):
            shp2 = shp if s is None else shp + (s,)
            a = _mk_array(ctx.np_rng('side-j2k', side), dt, shp2, ba, ba, 0)
            if dt == 'uint8' and ba == 1 and shp == (64, 32):
                a = (a * 7).astype('uint8')      # values above 1
            _check(ctx, 'side', ts, dt, ba, ba, s, pi, 0, pc, a, reqs, pending)
            side += 1


def _must_accept(ctx, reqs, pending):
    for i, (ts, dt, ba, bs, s, pi, pr, pc, shp) in enumerate(MUST_ACCEPT):
        shape = shp if s is None else shp + (s,)
        a = _mk_array(ctx.np_rng('must', i), dt, shape, ba, bs, pr)
        for spell in SPELLS:
            _check(ctx, 'must', ts, dt, ba, bs, s, pi, pr, pc, a, reqs, pending, must_accept=True, spell=spell)
        for num in ('int8', 'uint8', 'int16', 'int64'):
            _check(ctx, 'must', ts, dt, ba, bs, s, pi, pr, pc, a, reqs, pending, must_accept=True, spell='rrr', num=num)


def _frames(ctx, reqs, pending):
    n = ctx.n(400, 30000)
    for i in range(n):
        r = ctx.rng('frame', i)
        ts = r.choice([IMPLICIT, EXPLICIT, EXPLICIT, RLE, RLE, JLS, JLS])
        colour = r.random() < 0.2
        if colour:
            dt, ba = 'uint8', 8
            if ts == JLS and r.random() < 0.3:
                dt, ba = 'uint16', 16
            pi, pc, s = ('RGB' if (ts == JLS or r.random() < 0.8) else 'YBR_FULL'), 0, 3
            if ts == RLE and r.random() < 0.3:
                pc = 1
            pr = 0
        else:
            choices = [('uint8', 8, 0), ('uint16', 16, 0)]
            if ts != JLS:
                choices += [('int16', 16, 1), ('int8', 8, 1)]
            if ts in NATIVE:
                choices += [('bool', 1, 0), ('bool', 1, 0), ('uint8', 1, 0), ('bool', 8, 0), ('uint32', 32, 0), ('int32', 32, 1),
                            ('uint64', 64, 0), ('int64', 64, 1)]
            dt, ba, pr = r.choice(choices)
            pi, pc, s = r.choice(['MONOCHROME1', 'MONOCHROME2', 'MONOCHROME2', 'PALETTE COLOR']), None, None
        bs = ba
        if ba >= 8 and r.random() < 0.45:
            bs = r.randint(2, ba)
        if r.random() < 0.75:
            rows, cols = r.randint(1, 9), r.randint(1, 9)
        else:
            rows, cols = r.randint(1, 40), r.randint(1, 40)
        if ts == JLS and r.random() < 0.8:
            rows, cols = max(rows, 8) + r.randint(0, 8), max(cols, 8) + r.randint(0, 8)
        if ba == 1 and r.random() < 0.7:
            cols = 8 * max(1, cols // 3) if r.random() < 0.5 else cols
            if (rows * cols) % 8:
                rows = 8 * max(1, rows // 2)
        shape = (rows, cols) if s is None else (rows, cols, s)
        content = r.choice(['random', 'random', 'random', 'zero', 'max', 'min', 'checker'])
        a = _mk_array(ctx.np_rng('framepix', i), dt, shape, ba, bs, pr, content)
        layout = r.choice(['c', 'c', 'fortran', 'view', 'bigendian', 'negstride', 'readonly'])
        if ts not in NATIVE and layout == 'bigendian':
            layout = 'c'
        kind = 'frame'
        if 1 < bs < ba and r.random() < 0.35:
            b = _poke_outside(a, bs, r.choice(['first', 'last', 'middle']), r.choice(['above', 'below', 'max', 'min']))
            if b is not None:
                a, kind = b, 'frame-outside'
        a = _layout(a, layout)
        _check(ctx, kind, ts, dt, ba, bs, s, pi, pr, pc, a, reqs, pending, layout=layout)


# ------------------------------------------------------------------ the glue: frames read back through the image classes
_NO_TRANSFORMS = dict(apply_real_world_transform=False, apply_modality_transform=False, apply_voi_transform=False,
                      apply_presentation_lut=False, apply_palette_color_lut=False, apply_icc_profile=False)


def _glue_dataset(frames, ts, ba, bs, pi, pr, pc, drop_stored, dirty=None, planar1=False):
    """a multi-frame image (plain pydicom data set) whose frames are `encode_frame`'s bytes (native 1 bit: the frames packed
    as ONE bit stream, the way a multi-frame element holds them) and whose attributes are the parameters of that call"""
    from gen.images import MF_SC_BIT, MF_SC_BYTE, MF_SC_COLOR, MF_SC_WORD, base_dataset
    from highdicom.frame import encode_frame
    from pydicom.encaps import encapsulate
    from pydicom.pixels.utils import pack_bits
    from pydicom.uid import UID
    a0 = frames[0]
    spp = a0.shape[2] if a0.ndim == 3 else 1
    sop = MF_SC_COLOR if spp == 3 else {1: MF_SC_BIT, 8: MF_SC_BYTE}.get(ba, MF_SC_WORD)
    ds = base_dataset(sop, UID(ts))
    ds.NumberOfFrames = len(frames)
    ds.Rows, ds.Columns = int(a0.shape[0]), int(a0.shape[1])
    ds.SamplesPerPixel = spp
    ds.PhotometricInterpretation = pi
    if pc is not None:
        ds.PlanarConfiguration = pc
    ds.BitsAllocated, ds.BitsStored, ds.HighBit = ba, bs, bs - 1
    ds.PixelRepresentation = pr
    enc = UID(ts).is_encapsulated
    if ba == 1 and not enc:
        data = pack_bits(np.concatenate([np.asarray(f).reshape(-1) for f in frames]).astype(np.uint8), pad=True)
    else:
        parts = [encode_frame(f, ts, ba, bs, pi, pr, pc) for f in frames]
        if planar1:
            # the same frames as ANOTHER writer stores them colour-by-plane (Planar Configuration 1; encode_frame writes
            # colour-by-pixel only): plane after plane
            parts = [np.ascontiguousarray(np.moveaxis(f, 2, 0)).astype(f.dtype.newbyteorder('<')).tobytes() for f in frames]
            ds.PlanarConfiguration = 1
        if dirty is not None:
            # the bits above Bits Stored are not the sample's: other writers leave overlay planes / anything there
            parts = [_dirty_cells(b, ba, bs, dirty, k) for k, b in enumerate(parts)]
        data = encapsulate(parts) if enc else b''.join(parts)
        if len(data) % 2:
            data += b'\x00'
    ds.PixelData = data
    ds['PixelData'].VR = 'OB' if (ba <= 8 or enc) else 'OW'
    if drop_stored:
        del ds.BitsStored
    return ds


def _dirty_cells(b, ba, bs, seed, k):
    """OR pseudo-random bits into the positions bs .. ba-1 of every little-endian cell of ba bits"""
    dt = {8: 'u1', 16: '<u2', 32: '<u4'}[ba]
    cells = np.frombuffer(b, dtype=dt).copy()
    g = np.random.default_rng([seed, k]).integers(0, 2 ** (ba - bs), size=cells.shape, dtype=np.uint64)
    low = cells.astype(np.uint64) & np.uint64(2 ** bs - 1)
    return (low | (g << np.uint64(bs))).astype(dt).tobytes()


GLUE_READERS = ['stored', 'stored-batch', 'frame', 'frames', 'cached-stored', 'cached-stored-batch', 'cached-frame',
                'lazy-stored', 'lazy-stored-batch', 'lazy-frame', 'lazy-frames', 'file-reader']


def _glue_reads(ds, n, num, as_index):
    """every reader of the image classes on every frame: {reader: [array or ('err', text)] per frame}.  Order matters: the
    uncached paths run before `pixel_array` is touched, the cached paths after it, on the SAME object."""
    import io as _io
    import highdicom as hd
    from gen.images import to_bytes
    from pydicom.filebase import DicomBytesIO
    out = {}

    def each(f):
        res = []
        for k in range(n):
            try:
                res.append(np.asarray(f(k)))
            except Exception as e:  # noqa: BLE001
                res.append(('err', f'{type(e).__name__}: {str(e)[:160]}'))
        return res

    def batch(f):
        try:
            got = np.asarray(f())
            return [got[k] for k in range(n)] if got.shape[0] == n else [('err', f'batch of {got.shape[0]} frames')] * n
        except Exception as e:  # noqa: BLE001
            return [('err', f'{type(e).__name__}: {str(e)[:160]}')] * n

    def fn(k):        # the frame number / index in the drawn spelling
        v = k if as_index else k + 1
        return _num(v, num)
    dt = np.int64
    try:
        im = hd.Image.from_dataset(ds)
    except Exception as e:  # noqa: BLE001
        return {'construct': [('err', f'{type(e).__name__}: {str(e)[:160]}')] * n}
    out['stored'] = each(lambda k: im.get_stored_frame(fn(k), as_index=as_index))
    out['stored-batch'] = batch(lambda: im.get_stored_frames([fn(k) for k in range(n)], as_indices=as_index))
    has_stored = 'BitsStored' in ds      # absent: only get_stored_frame(s) fall back to Bits Allocated (the transform needs the attribute)
    # the pixel transform knows integer cells of 8 / 16 / 32 bits only (64: AttributeError 'input_dtype', C06's area)
    has_transform = has_stored and int(ds.BitsAllocated) <= 32
    if has_transform:
        out['frame'] = each(lambda k: im.get_frame(fn(k), as_index=as_index, dtype=dt, **_NO_TRANSFORMS))
        out['frames'] = batch(lambda: im.get_frames([fn(k) for k in range(n)], as_indices=as_index, dtype=dt, **_NO_TRANSFORMS))
    if has_stored:
        try:
            im.pixel_array          # populates the cache: the same calls now take the other branch
            out['cached-stored'] = each(lambda k: im.get_stored_frame(fn(k), as_index=as_index))
            out['cached-stored-batch'] = batch(lambda: im.get_stored_frames(None))
            if has_transform:
                out['cached-frame'] = each(lambda k: im.get_frame(fn(k), as_index=as_index, dtype=dt, **_NO_TRANSFORMS))
        except Exception as e:  # noqa: BLE001
            out['cached-stored'] = [('err', f'{type(e).__name__}: {str(e)[:160]}')] * n
    try:
        raw = to_bytes(ds)
        lz = hd.imread(_io.BytesIO(raw), lazy_frame_retrieval=True)
        out['lazy-stored'] = each(lambda k: lz.get_stored_frame(fn(k), as_index=as_index))
        out['lazy-stored-batch'] = batch(lambda: lz.get_stored_frames([fn(k) for k in range(n)], as_indices=as_index))
        if has_transform:
            out['lazy-frame'] = each(lambda k: lz.get_frame(fn(k), as_index=as_index, dtype=dt, **_NO_TRANSFORMS))
            out['lazy-frames'] = batch(lambda: lz.get_frames(None, dtype=dt, **_NO_TRANSFORMS))
        if has_stored:
            with hd.io.ImageFileReader(DicomBytesIO(raw)) as rd:
                out['file-reader'] = each(lambda k: rd.read_frame(_num(k, num), correct_color=False))
    except Exception as e:  # noqa: BLE001
        out['lazy-stored'] = [('err', f'file round trip: {type(e).__name__}: {str(e)[:160]}')] * n
    raws = []
    for k in range(n):
        try:
            raws.append(bytes(hd.Image.from_dataset(ds).get_raw_frame(k + 1)))
        except Exception:  # noqa: BLE001
            raws.append(None)
    return out, raws


def _glue(ctx, reqs, pending, only=None):
    """frames encoded by `encode_frame`, stored in a multi-frame image with the attributes of that call, read back through
    every reader that calls `decode_frame` (T13g lists the call sites): each must return the frame that was encoded.
    Dimensions: syntax, bits allocated / stored, signedness, colour, 1-bit frames that do / do not fill whole bytes, number of
    frames, Bits Stored present / absent, spelling of the frame number (1-based / as_index, int / numpy integer), reader."""
    from highdicom.frame import decode_frame
    n_img = ctx.n(64, 900)
    for i in (range(n_img) if only is None else [only]):
        r = ctx.rng('glue', i)
        nr = ctx.np_rng('gluepix', i)
        ts = r.choice([EXPLICIT, IMPLICIT, EXPLICIT, RLE, JLS])
        kind = r.choice(['cells', 'cells', 'bits', 'bits', 'colour']) if ts in NATIVE else r.choice(['cells', 'cells', 'colour'])
        nfr = r.choice([1, 2, 3, 3, 4])
        rows, cols = r.randint(1, 7), r.randint(1, 9)
        if rows == cols:
            cols += 1
        if ts == JLS:
            rows, cols = rows + 8, cols + 9
        pc = None
        if kind == 'bits':
            dt, ba, bs, pr, pi = 'bool', 1, 1, 0, 'MONOCHROME2'
            if r.random() < 0.3:
                cols = 8
            frames = [nr.random((rows, cols)) < 0.5 for _ in range(nfr)]
        elif kind == 'colour':
            dt, ba, bs, pr, pi, pc = 'uint8', 8, 8, 0, 'RGB', 0
            frames = [nr.integers(0, 255, size=(rows, cols, 3), endpoint=True).astype(dt) for _ in range(nfr)]
        else:
            opts = [('uint8', 8, 8, 0), ('uint8', 8, 5, 0), ('uint16', 16, 16, 0), ('uint16', 16, 12, 0), ('uint16', 16, 9, 0)]
            if ts != JLS:
                opts += [('int16', 16, 16, 1), ('int16', 16, 12, 1), ('int8', 8, 8, 1), ('int8', 8, 6, 1), ('int16', 16, 10, 1)]
            if ts in NATIVE:
                opts += [('uint32', 32, 32, 0), ('int32', 32, 20, 1), ('uint64', 64, 64, 0), ('int64', 64, 50, 1)]
            if ts in NATIVE and r.random() < 0.5:
                opts = [o for o in opts if o[2] < o[1]]      # fewer bits stored than allocated: the high bits are nobody's
            dt, ba, bs, pr = r.choice(opts)
            pi = r.choice(['MONOCHROME2', 'MONOCHROME1'])
            frames = [_mk_array(nr, dt, (rows, cols), ba, bs, pr) for _ in range(nfr)]
        drop_stored = kind != 'bits' and r.random() < 0.25
        # data another writer could have produced: anything in the bits above Bits Stored; colour-by-plane storage
        dirty = (i + 1) if (ts in NATIVE and kind == 'cells' and bs < ba and r.random() < 0.7) else None
        if dirty is not None:
            drop_stored = False
        planar1 = ts in NATIVE and kind == 'colour' and r.random() < 0.5
        num = r.choice(['int', 'int', 'int64', 'uint8', 'int16'])
        as_index = r.random() < 0.4
        case = {'kind': 'glue', 'ts': ts, 'dtype': dt, 'ba': ba, 'bs': bs, 'pi': pi, 'pr': pr, 'pc': pc, 'samples': 3 if kind == 'colour' else None,
                'shape': [nfr, rows, cols] + ([3] if kind == 'colour' else []), 'drop_stored': drop_stored, 'num': num,
                'as_index': as_index, 'glue_index': i, 'dirty_high_bits': dirty is not None, 'planar1': planar1,
                'data': _ints(np.stack(frames))}
        try:
            ds = _glue_dataset(frames, ts, ba, bs, pi, pr, pc, drop_stored, dirty=dirty, planar1=planar1)
        except Exception as e:  # noqa: BLE001
            if _classify_exception(e) == 'codec':       # a limit of the codec below (pyjpegls on small noisy frames): a refusal, no bytes
                ctx.hist('glue_codec_limit', TSNAME[ts])
            else:
                ctx.fail(case, f'a valid frame could not be encoded: {type(e).__name__}: {str(e)[:120]}', site='glue-encode')
            continue
        res = _glue_reads(ds, nfr, num, as_index)
        if isinstance(res, dict):
            ctx.fail(case, f'Image.from_dataset: {res["construct"][0][1]}', site='glue-construct')
            continue
        out, raws = res
        aligned = (rows * cols) % 8 == 0
        ctx.case(sample=case if i % 17 == 0 else None,
                 nontrivial_key=('glue', ts, dt, ba, bs, kind, nfr, aligned if kind == 'bits' else None, drop_stored),
                 kind='glue', syntax=TSNAME[ts], glue_kind=kind, bits=f'{ba}/{bs}', glue_frames=nfr,
                 glue_stored_attr='absent' if drop_stored else 'present',
                 glue_high_bits='garbage' if dirty is not None else 'clean', glue_planar=('1' if planar1 else ('0' if kind == 'colour' else 'none')),
                 glue_frame_number=('index' if as_index else 'number') + '/' + num,
                 **({'glue_bits_fill_bytes': aligned} if kind == 'bits' else {}))
        for reader, got in out.items():
            for k in range(nfr):
                g = got[k]
                ctx.hist('glue_reader', reader)
                if isinstance(g, tuple):
                    ctx.fail(case, {'reader': reader, 'frame': k, 'error': g[1]}, site='glue-' + reader)
                elif not _same(g, frames[k]):
                    ctx.fail(case, {'reader': reader, 'frame': k, 'what': 'the frame read back differs from the frame that was encoded',
                                    'got': _ints(g)[:16],
                                    'want': _ints(frames[k])[:16]}, site='glue-' + reader)
        # ---- model (L0, native): `readFrame` = decode_frame with the data set's attributes on the frame's raw bytes and index
        spp_ = 3 if kind == 'colour' else 1
        if ts in NATIVE and all(x is not None for x in raws) and rows * cols * spp_ <= 400:
            for k in range(nfr):
                st = out.get('stored', [None] * nfr)[k]
                if isinstance(st, tuple) or st is None:
                    continue
                reqs.append(('readFrame', {'ts': ts, 'rows': rows, 'cols': cols, 'samples': spp_, 'ba': ba,
                                           'bs': None if drop_stored else bs, 'pi': pi, 'pr': pr, 'planar': (1 if planar1 else pc),
                                           'bytes': list(raws[k]), 'index': k}))
                pending.append((case, 'values', _ints(st)))
        # ---- decode_frame called directly with index = k on the bytes that cover frame k of the packed bit stream
        if kind == 'bits':
            npx = rows * cols
            data = bytes(ds.PixelData)
            for k in range(nfr):
                lo, hi = (k * npx) // 8, ((k + 1) * npx + 7) // 8
                st2, dec = _decode(data[lo:hi], ts, rows, cols, 1, 1, 1, pi, 0, None, 'rrr', num)
                if st2 == 'ok':
                    try:
                        from highdicom.frame import decode_frame as _df
                        dec = _df(data[lo:hi], ts, rows, cols, 1, 1, 1, pi, 0, None, _num(k, num))
                    except Exception as e:  # noqa: BLE001
                        st2, dec = 'err', f'{type(e).__name__}: {str(e)[:160]}'
                if st2 != 'ok' or not _same(dec, frames[k]):
                    ctx.fail(case, {'frame': k, 'what': 'decode_frame(index=k) on the bytes covering frame k of the bit stream',
                                    'got': dec if st2 != 'ok' else _ints(dec)[:16],
                                    'want': _ints(frames[k])[:16]}, site='glue-index')
                elif npx <= 400:
                    reqs.append(('decodeFrame', {'ts': ts, 'ba': 1, 'bs': 1, 'pi': pi, 'pr': 0, 'planar': None, 'rows': rows,
                                                 'cols': cols, 'samples': 1, 'bytes': list(data[lo:hi]), 'index': k}))
                    pending.append((case, 'values', _ints(dec)))


def _uids(ctx, reqs, pending):
    from pydicom.uid import UID
    for ts in TS_ALL:
        reqs.append(('isEncapsulated', {'ts': ts}))
        pending.append(({'kind': 'uid', 'ts': ts}, 'uid', bool(UID(ts).is_encapsulated)))


def _rank_and_shape_cells(ctx, reqs, pending):
    """arrays that are no frame: rank other than 2 / 3, and 0 or more than 65535 rows / columns (Rows / Columns have VR US and
    may not be 0).  Oracle: refused -- or, for the shapes at the edge that ARE frames (65535), exact round trip."""
    k = 0
    for ts in (EXPLICIT, IMPLICIT, RLE, JLS):
        for dt, ba in (('uint8', 8), ('bool', 1), ('uint16', 16)):
            if ts == JLS and ba == 1:
                continue
            cells = [((24,), None), ((2, 3, 3, 2), 0), ((1, 2, 3, 3, 1), 0), ((), None), ((2, 4, 3, 1), 0),
                     ((0, 8), None), ((8, 0), None), ((0, 0), None), ((65536, 1), None), ((1, 65536), None), ((70000, 8), None),
                     ((65535, 8), None), ((8, 65535), None)]
            if ctx.tier != 'thorough':
                cells = cells[:3] + cells[5:6] + cells[8:9] + cells[11:12]
            for shape, pc in cells:
                nr = ctx.np_rng('rankshape', k)
                k += 1
                a = (nr.random(shape) < 0.5) if dt == 'bool' else nr.integers(0, 200, size=shape).astype(dt)
                if dt != 'bool' and ba == 1:
                    a = (a % 2).astype(dt)
                nd = a.ndim
                pi = 'RGB' if (nd >= 3 and a.shape[2] == 3) else 'MONOCHROME2'
                spell = _next_spell(ctx)
                st, val = _encode(a, ts, ba, ba, pi, 0, pc, spell)
                is_frame = nd in (2, 3) and all(1 <= s <= 65535 for s in a.shape[:2])
                case = {'kind': 'rank-shape', 'ts': ts, 'dtype': dt, 'ba': ba, 'bs': ba, 'pi': pi, 'pr': 0, 'pc': pc,
                        'shape': list(shape), 'spell': spell, 'seed_index': k - 1}
                ctx.case(kind='rank-shape', syntax=TSNAME[ts], outcome='accepted' if st == 'ok' else 'refused', shape=str(shape))
                sh = list(a.shape) + [0, 0, 0]
                reqs.append(('encodeRouteRaw', {'ts': ts, 'ba': ba, 'bs': ba, 'pi': pi, 'pr': 0, 'planar': pc, 'shape0': sh[0],
                                                'shape1': sh[1], 'shape2': sh[2], 'ndim': nd, 'kind': a.dtype.kind,
                                                'itemsize': a.dtype.itemsize, 'dtype': str(a.dtype),
                                                'max': int(a.max()) if a.size else 0, 'min': int(a.min()) if a.size else 0}))
                pending.append((case, 'raw-route', st))
                if st != 'ok':
                    if is_frame and ts in NATIVE and not (ba == 1 and a.size % 8):
                        ctx.fail(case, f'a frame at the edge of the Rows / Columns range was refused: {val}', site='must-accept')
                    continue
                if not is_frame:
                    ctx.fail(case, 'an array that is no frame (rank other than 2 / 3, or 0 / more than 65535 rows or columns) '
                                   f'was accepted ({len(val)} bytes)', site='rank-shape')
                    continue
                spp = a.shape[2] if nd == 3 else 1
                st2, dec = _decode(val, ts, a.shape[0], a.shape[1], spp, ba, ba, pi, 0, pc, spell)
                if st2 != 'ok' or not _same(dec, a):
                    ctx.fail(case, dec if st2 != 'ok' else 'decode_frame(encode_frame(x)) != x', site='roundtrip')
    ctx.exhaustive.append(f'{k} arrays of rank 0, 1, 4, 5 and with 0 / 65535 / 65536 / 70000 rows or columns')


def _decode_routes(ctx, reqs, pending):
    """`decode_frame` dispatch (L0: accept/refuse of its own parameter checks) on a small grid"""
    from highdicom.frame import decode_frame
    from pydicom.uid import UID
    k = 0
    for ts, ba, s, pi, pr, pc in itertools.product([EXPLICIT, RLE], [1, 8, 16], [1, 3], ['MONOCHROME2', 'RGB', 'XYZ'],
                                                   [0, 1, 2], [None, 0, 1, 2]):
        n = 8 * s
        payload = bytes(n * max(1, ba // 8))
        spell = SPELLS[(k + ctx.seed) % len(SPELLS)]
        pi_s, kw_s = _spelled(pi, pr, pc, spell)
        try:
            decode_frame(payload, ts, 2, 4, s, ba, ba, pi_s, **kw_s)
            st = 'ok'
        except Exception as e:  # noqa: BLE001
            st = _classify_exception(e)
        reqs.append(('decodeRouteRaw', {'enc': bool(UID(ts).is_encapsulated), 'ba': ba, 'samples': s, 'pi': pi, 'pr': pr,
                                        'planar': pc}))
        pending.append(({'kind': 'decode-route', 'ts': ts, 'ba': ba, 'samples': s, 'pi': pi, 'pr': pr, 'pc': pc, 'spell': spell},
                        'route', st))
        ctx.case(kind='decode-route', outcome=st)
        k += 1
    ctx.exhaustive.append(f'decode_frame parameter checks on {k} cells')


def _decode_samples(ctx, reqs, pending):
    """`decode_frame` with a Samples per Pixel of 1, 2, 3, 4 (audit 2): outside the native single-bit branch anything but 1 and 3
    must be refused (pydicom), the model's decoder refuses there as well (L0 ok-vs-error, values when both decode)"""
    k = 0
    for ts, ba, s, pc in itertools.product([EXPLICIT, IMPLICIT], [1, 8, 16], [1, 2, 3, 4], [0, 1]):
        rows, cols = 2, 4
        n = rows * cols * s
        nr = ctx.np_rng('decode-samples', k)
        payload = bytes(nr.integers(0, 255, size=(n + 7) // 8 if ba == 1 else n * (ba // 8), endpoint=True).astype(np.uint8).tolist())
        pi = 'MONOCHROME2' if s == 1 else 'RGB'
        st, dec = _decode(payload, ts, rows, cols, s, ba, ba, pi, 0, pc if s > 1 else None)
        case = {'kind': 'decode-samples', 'ts': ts, 'ba': ba, 'samples': s, 'pc': pc, 'pi': pi, 'seed_index': k}
        ctx.case(kind='decode-samples', syntax=TSNAME[ts], outcome='decoded' if st == 'ok' else 'refused', decode_samples=s)
        if st == 'ok' and ba != 1 and s not in (1, 3):
            ctx.fail(case, f'a frame with {s} samples per pixel was decoded', site='decode-samples')
        reqs.append(('decodeFrame', {'ts': ts, 'ba': ba, 'bs': ba, 'pi': pi, 'pr': 0, 'planar': (pc if s > 1 else None), 'rows': rows,
                                     'cols': cols, 'samples': s, 'bytes': list(payload), 'index': 0}))
        pending.append((case, 'decode-samples', _ints(dec) if st == 'ok' else 'err'))
        k += 1
    ctx.exhaustive.append(f'decode_frame with 1 / 2 / 3 / 4 samples per pixel on {k} cells (native, 1 / 8 / 16 bits, planar 0 / 1)')


def run(ctx):
    import hd_env  # noqa: F401
    import warnings
    warnings.simplefilter('ignore')
    reqs, pending = [], []
    _uids(ctx, reqs, pending)
    _must_accept(ctx, reqs, pending)
    _cells(ctx, reqs, pending)
    _rank_and_shape_cells(ctx, reqs, pending)
    _decode_routes(ctx, reqs, pending)
    _decode_samples(ctx, reqs, pending)
    _frames(ctx, reqs, pending)
    _glue(ctx, reqs, pending)
    _compare_all(ctx, reqs, pending)


def _compare_all(ctx, reqs, pending):
    if not reqs:
        return
    answers = ctx.model(reqs)
    if answers is None:
        return
    for (case, what, impl), ans in zip(pending, answers):
        if 'proto_err' in ans:
            ctx.disagree('L0', case, impl, ans, 'model protocol error')
            continue
        if what == 'route':
            model_ok = 'ok' in ans
            impl_reached_codec = impl in ('ok', 'codec')
            if model_ok != impl_reached_codec:
                ctx.disagree('L0', case, impl, ans, 'accept-vs-refuse of the validation')
        elif what == 'uid':
            if ans.get('ok') != impl:
                ctx.disagree('L1', case, impl, ans, 'is_encapsulated')
        elif what == 'bytes':
            if ans.get('ok') != impl:
                ctx.disagree('L1', case, impl[:40], ans if 'err' in ans else ans['ok'][:40], 'native bytes')
        elif what == 'values':
            if ans.get('ok') != impl:
                ctx.disagree('L0', case, impl[:40], ans if 'err' in ans else ans['ok'][:40], 'decoded values')
        elif what == 'bytes-refused':
            if 'err' not in ans:
                ctx.disagree('L0', case, impl, ans['ok'][:40], 'pack_bits refused, the model packs')
        elif what == 'decode-samples':
            if (impl == 'err') != ('err' in ans) or (impl != 'err' and ans.get('ok') != impl):
                ctx.disagree('L0', case, impl if impl == 'err' else impl[:24], ans if 'err' in ans else ans['ok'][:24],
                             'decode_frame with this Samples per Pixel: refused-vs-decoded / values')
        elif what == 'raw-route':
            if ('ok' in ans) != (impl in ('ok', 'codec')):
                ctx.disagree('L0', case, impl, ans, 'accept-vs-refuse of the validation (rank / shape cells)')


def replay(ctx, case):
    """Re-run one stored request on the implementation -> the failures of that request, or None when it passes on the
    current tree.  Failures that belong to an OPEN known finding do not count, unless the case is the stored witness of a
    finding (`"witness": true`)."""
    import hd_env  # noqa: F401
    import warnings
    from framework import load_findings
    warnings.simplefilter('ignore')
    sub = type(ctx)(ctx.prop, ctx.tier, ctx.seed, 1, ctx.driver)
    # implementation side only: a replay does not regenerate / rebuild the model, which may stem from another tree
    sub.model_available = False
    reqs, pending = [], []
    if case.get('kind') == 'glue':
        _glue(sub, reqs, pending, only=case.get('glue_index'))
        keep = lambda c: c.get('kind') == 'glue' and c.get('glue_index') == case.get('glue_index')   # noqa: E731
    elif case.get('kind') == 'rank-shape':
        _rank_and_shape_cells(sub, reqs, pending)
        keep = lambda c: c.get('kind') == 'rank-shape' and c.get('seed_index') == case.get('seed_index')   # noqa: E731
    elif 'data' in case:
        a = _array_of_case(case)
        _check(sub, case.get('kind', 'frame'), case['ts'], case['dtype'], case['ba'], case['bs'], case['samples'], case['pi'],
               case['pr'], case['pc'], a, reqs, pending, layout=case.get('layout', 'c'), must_accept=case.get('kind') == 'must',
               spell=case.get('spell', 'rrr'), num=case.get('num', 'int'))
        keep = lambda c: True   # noqa: E731
    else:
        return None
    _compare_all(sub, reqs, pending)
    open_findings = [] if case.get('witness') else \
        [f for f in load_findings() if f.get('property') == 'C07' and f.get('status') == 'open']
    hits = [f for f in sub.failures if keep(f['case']) and attribute(f, open_findings) is None]
    hits += [d for d in sub.disagreements if keep(d['case'])]
    return hits[:3] or None


def _ybr_converted(a, dec, ba):
    """is `dec` exactly pydicom's YBR_FULL -> RGB conversion of the whole frame `a` (8-bit samples)?"""
    try:
        from pydicom.pixels.processing import convert_color_space
        x = np.asarray(a)
        if x.dtype == bool or (x.dtype.kind in 'iu' and ba == 8 and int(x.min()) >= 0 and int(x.max()) <= 255):
            x = x.astype(np.uint8)
        if x.ndim != 3 or x.shape[2] != 3 or x.dtype != np.uint8:
            return False
        rgb = convert_color_space(np.ascontiguousarray(x), 'YBR_FULL', 'RGB')
        return bool(np.asarray(dec).shape == rgb.shape and np.array_equal(np.asarray(dec), rgb))
    except Exception:  # noqa: BLE001
        return False


def _is_ybr_conversion(case, detail):
    """is what came back the YBR_FULL -> RGB conversion of the frame that went in (pydicom's `convert_color_space`), i.e. the
    face of the open finding and nothing else?  Decided on the samples the failure record keeps (the first 24)."""
    if 'is_ybr_to_rgb' in detail:          # decided on the whole frame when the failure was recorded
        return detail['is_ybr_to_rgb'] is True
    try:
        from pydicom.pixels.processing import convert_color_space
        if 'data' not in case:
            return False
        x = _array_of_case(case)
        if x.dtype == bool or (x.dtype.kind in 'iu' and case.get('ba') == 8 and int(x.min()) >= 0 and int(x.max()) <= 255):
            x = x.astype(np.uint8)          # 8-bit samples held in bool / wider cells decode as uint8
        if x.ndim != 3 or x.shape[2] != 3 or x.dtype != np.uint8:
            return False
        rgb = convert_color_space(np.ascontiguousarray(x), 'YBR_FULL', 'RGB')
        got = list(detail.get('got') or [])
        return len(got) > 0 and _ints(rgb)[:len(got)] == [int(v) for v in got]
    except Exception:  # noqa: BLE001
        return False


def attribute(failure, open_findings):
    """C07-ybr-full-decoded-as-rgb: decode_frame returns YBR_FULL frames converted to RGB (native and RLE), or fails
    in that conversion for other than 8-bit unsigned samples.
    C07-rle-narrow-stored: pydicom's array path shrinks the cells to ceil(bits_stored/8) bytes before RLE encoding
    bits_allocated/8 byte planes -> undecodable RLE data when bits_stored <= bits_allocated - 8.
    C07-bits-allocated-not-byte-multiple: native syntaxes accept a bits_allocated that is neither 1 nor a multiple of 8 (cells of
    ceil(bits_allocated/8) bytes); decode_frame / pydicom refuse that value, so the accepted frame cannot be read."""
    ids = {f['id'] for f in open_findings}
    c = failure.get('case') or {}
    d = failure.get('detail')
    site = failure.get('site')
    if 'C07-ybr-full-decoded-as-rgb' in ids and site == 'roundtrip' and c.get('pi') == 'YBR_FULL' \
            and c.get('ts') in (IMPLICIT, EXPLICIT, RLE) and c.get('samples') == 3:
        if isinstance(d, dict) and d.get('what') == 'decode_frame(encode_frame(x)) != x' and d.get('got_shape') == c.get('shape') \
                and _is_ybr_conversion(c, d):
            return 'C07-ybr-full-decoded-as-rgb'
        if isinstance(d, str) and 'color space conversion' in d:
            return 'C07-ybr-full-decoded-as-rgb'
    if 'C07-rle-narrow-stored' in ids and c.get('ts') == RLE and site in ('roundtrip', 'one-frame') \
            and isinstance(c.get('ba'), int) and isinstance(c.get('bs'), int) and c['ba'] >= 16 \
            and (c['bs'] + 7) // 8 < c['ba'] // 8 and isinstance(d, str) and 'decoded RLE segment data' in d:
        return 'C07-rle-narrow-stored'
    if 'C07-bits-allocated-not-byte-multiple' in ids and _unaligned_allocated(c, d, site):
        return 'C07-bits-allocated-not-byte-multiple'
    return None
