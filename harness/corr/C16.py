"""C16  Measurement-report queries return exactly the matching groups.

Tie T: T16a (kind classification by content counting: `_count_roi_items` item tests + guards,
`_contains_planar_rois`, `_contains_volumetric_rois`), T16b (argument checks of the planar and volumetric
query), T16c (literal tables: allowed ROI reference types per kind, reference type -> value types).
Tie C: Model/SRReport.lean (the three query methods over the group containers' top-level items) against
MeasurementReport.get_*_groups in memory and after write -> srread.
Oracle (independent of model and library classification): a declarative predicate over the CONSTRUCTION
PARAMETERS the generator kept for every group.
"""
from __future__ import annotations

import io
import itertools

PROP = 'C16'
TARGETS = ['T16a', 'T16b', 'T16c', 'T16d', 'T16e', 'T16f', 'T16g', 'T16h', 'T16i', 'T16j', 'T16k', 'T16l', 'T16m', 'T15e', 'T15c']
LEAN_MODULES = ['HdVerif.Props.C16']
MODEL_MODULES = ['HdVerif.Model.SRReport']
NAMESPACE = 'HdVerif.C16'
DRIVER = 'Drivers/C16.lean'
RULE = ('one case = one query (method, filter combination) on one generated report (1..6 groups of mixed kinds, with and '
        'without template identification), in memory or re-read from bytes; non-trivial = accepted query on a report with '
        '>= 2 groups of the queried kind of which a non-empty proper subset matches, or a refused combination; distinct by '
        '(method, filters present, #groups of kind, #matches, template mix, path)')
ASSUMPTIONS = [
    'kind of a container WITHOUT template identification is decided by content: the standard allows a single 2-D image '
    'region and a region-in-space reference in both TID 1410 and TID 1411; generated template-less volumetric groups carry '
    '>= 2 regions, and a template-less region-in-space group may be returned by both ROI queries (oracle accepts either)',
    'graphic-type filter on a volumetric group with regions of different graphic types: the group matches iff SOME region '
    'has the graphic type (whatever the order of the regions)',
    '3-D coordinates (3-D image regions, volume surfaces) carry no referenced instance: a referenced-UID filter never '
    'matches them',
    'code equality is pydicom\'s (C17): (value, scheme designator, scheme version) with only the retired designator SRT mapped to '
    'SCT; concept NAMES are matched in any version of their coding scheme (find_content_items, _unversioned_name): the harness hands '
    'the model names as value|scheme (version dropped) and coded values as value|scheme[|version]',
]
MODELLED_NOT_VERIFIED = ['ContentItem construction / parsing (C13)', 'CodedConcept equality (C17)', 'pydicom write/read']

METHODS = {'planar': 'get_planar_roi_measurement_groups', 'volumetric': 'get_volumetric_roi_measurement_groups',
           'image': 'get_image_measurement_groups'}
REF_CODES = {
    'ImageRegion': ('111030', 'DCM'), 'ReferencedSegmentationFrame': ('121214', 'DCM'), 'ReferencedSegment': ('121191', 'DCM'),
    'VolumeSurface': ('121231', 'DCM'), 'RegionInSpace': ('130488', 'DCM'), 'SourceImageForSegmentation': ('121233', 'DCM'),
}
ALLOWED_REF = {'planar': ['ImageRegion', 'ReferencedSegmentationFrame', 'RegionInSpace'],
               'volumetric': ['ImageRegion', 'ReferencedSegment', 'VolumeSurface', 'RegionInSpace']}
FILTERS = {'planar': ['tracking_uid', 'finding_type', 'finding_site', 'reference_type', 'graphic_type',
                      'referenced_sop_instance_uid', 'referenced_sop_class_uid'],
           'volumetric': ['tracking_uid', 'finding_type', 'finding_site', 'reference_type', 'graphic_type',
                          'referenced_sop_instance_uid', 'referenced_sop_class_uid'],
           'image': ['tracking_uid', 'finding_type', 'finding_site', 'referenced_sop_instance_uid', 'referenced_sop_class_uid']}


def _err_kind(e):
    return {'IndexError': 'index', 'ValueError': 'value', 'TypeError': 'type', 'RuntimeError': 'runtime',
            'KeyError': 'key', 'AttributeError': 'attribute'}.get(type(e).__name__, 'other')


def _call(fn, *a, **k):
    try:
        return ('ok', fn(*a, **k))
    except Exception as e:  # noqa: BLE001
        return ('err', _err_kind(e), f'{type(e).__name__}: {e}'[:200])


# ------------------------------------------------------------------ the declarative statement (construction parameters only)
def must_refuse(method, f):
    """Filter combinations that cannot apply to the chosen kind / reference type."""
    gt = f.get('graphic_type')
    rt = f.get('reference_type')
    uid = f.get('referenced_sop_instance_uid') is not None or f.get('referenced_sop_class_uid') is not None
    if method == 'image':
        return None
    if gt is not None:
        dim, name = gt
        if name == 'MULTIPOINT':
            return 'multipoint is not a region'
        if dim == 3 and name == 'POLYLINE':
            return 'open 3-D polyline is not a region'
        if dim == 3 and name == 'ELLIPSOID' and method == 'planar':
            return 'ellipsoid is not planar'
        if dim == 3 and uid:
            return '3-D coordinates reference no instance'
    if rt is not None:
        if rt not in ALLOWED_REF[method]:
            return 'reference type of the other kind'
        if gt is not None:
            if method == 'planar' and rt != 'ImageRegion':
                return 'graphic type with a non-graphic reference type'
            if method == 'volumetric':
                if rt not in ('ImageRegion', 'VolumeSurface'):
                    return 'graphic type with a non-graphic reference type'
                if rt == 'ImageRegion' and gt[0] == 3:
                    return '2-D regions have 2-D graphic types'
                if rt == 'VolumeSurface' and gt[0] == 2:
                    return 'surfaces have 3-D graphic types'
    return None


def kinds_of(g):
    """kinds under which the group may be returned; second value = kinds under which it MUST be returned"""
    from gen import srreports
    own = g['kind']
    if not g['template'] and g['ref']['type'] == 'region_in_space':
        return {'planar', 'volumetric'}, {own}
    return {own}, {own}


def satisfies(g, f):
    """'yes' | 'no' | 'either' for one group and one filter combination (kind not included)"""
    from gen import srreports
    amb = False
    if f.get('tracking_uid') is not None and g['tracking_uid'] != f['tracking_uid']:
        return 'no'
    if f.get('finding_type') is not None and (g['finding_type'] is None or tuple(g['finding_type']) != tuple(f['finding_type'])):
        return 'no'
    if f.get('finding_site') is not None and tuple(f['finding_site']) not in [tuple(s) for s in g['finding_sites']]:
        return 'no'
    if f.get('reference_type') is not None and srreports.REF_TYPE_OF[g['ref']['type']] != f['reference_type']:
        return 'no'
    if f.get('graphic_type') is not None:
        dim, name = f['graphic_type']
        ref = g['ref']
        t = ref['type']
        if dim == 2:
            if t == 'region2d':
                if ref['graphic'] != name:
                    return 'no'
            elif t == 'regions2d':
                gts = [a for a, _ in ref['regions']]
                if all(a != name for a in gts):
                    return 'no'
            else:
                return 'no'
        else:
            if t in ('region3d', 'surface'):
                if ref['graphic'] != name:
                    return 'no'
            else:
                return 'no'
    iu, cu = f.get('referenced_sop_instance_uid'), f.get('referenced_sop_class_uid')
    if iu is not None or cu is not None:
        if not any((iu is None or i == iu) and (cu is None or c == cu) for c, i in srreports.referenced_instances(g)):
            return 'no'
    return 'either' if amb else 'yes'


def expected(groups, method, f):
    """(refusal reason | None, [indices that must be returned], [indices that may be returned])"""
    why = must_refuse(method, f)
    if why:
        return why, [], []
    must, may = [], []
    for k, g in enumerate(groups):
        allowed, required = kinds_of(g)
        if method not in allowed:
            continue
        s = satisfies(g, f)
        if s == 'no':
            continue
        may.append(k)
        if s == 'yes' and method in required:
            must.append(k)
    return None, must, may


# ------------------------------------------------------------------ filters
def _filter_values(r, groups, pool, method=None):
    """one candidate value per filter, drawn so that hits (mostly the values of one target group, so that joint
    filters can all hold) and misses both occur"""
    from gen import srreports
    pick = {}
    of_kind = [x for x in groups if x['kind'] == method]
    g = r.choice(of_kind) if (of_kind and r.random() < 0.85) else r.choice(groups)
    hit = lambda p=0.7: r.random() < p   # noqa: E731
    pick['tracking_uid'] = g['tracking_uid'] if hit() else r.choice([pool['base'] + '.9.0', pool['base'] + '.9.99'])
    pick['finding_type'] = g['finding_type'] if (g['finding_type'] and hit()) else r.choice(srreports.FINDINGS)
    lats = [x for x in g.get('lateralities', []) if x]
    if lats and r.random() < 0.25:
        pick['finding_site'] = r.choice(lats)
    else:
        pick['finding_site'] = r.choice(g['finding_sites']) if (g['finding_sites'] and hit()) else r.choice(srreports.SITES)
    own_rt = srreports.REF_TYPE_OF[g['ref']['type']]
    pick['reference_type'] = own_rt if (own_rt and hit()) else r.choice(
        ['ImageRegion', 'ReferencedSegmentationFrame', 'ReferencedSegment', 'VolumeSurface', 'RegionInSpace', 'SourceImageForSegmentation'])
    t = g['ref']['type']
    if t in ('region2d', 'regions2d') and hit():
        pick['graphic_type'] = (2, g['ref']['graphic'] if t == 'region2d' else r.choice(g['ref']['regions'])[0])
    elif t in ('region3d', 'surface') and hit():
        pick['graphic_type'] = (3, g['ref']['graphic'])
    elif r.random() < 0.6:
        pick['graphic_type'] = (2, r.choice(srreports.G2D + ['MULTIPOINT']))
    else:
        pick['graphic_type'] = (3, r.choice(['POINT', 'POLYGON', 'ELLIPSE', 'ELLIPSOID', 'POLYLINE', 'MULTIPOINT']))
    own = srreports.referenced_instances(g)
    refs = [x for gg in groups for x in srreports.referenced_instances(gg)]
    if own and hit():
        c = r.choice(own)
    else:
        c = r.choice(refs + [r.choice(pool['images']), (srreports.CT, pool['base'] + '.1.99')])
    pick['referenced_sop_instance_uid'] = c[1]
    # class: usually the class of that instance (joint match), sometimes another one
    pick['referenced_sop_class_uid'] = c[0] if r.random() < 0.8 else r.choice([srreports.CT, srreports.MR, srreports.SEG, srreports.RTSS])
    return pick


def _pools(groups, pool):
    """the whole (small) value pool of every filter: single-filter sweeps try every value"""
    from gen import srreports
    refs = []
    for g in groups:
        for x in srreports.referenced_instances(g):
            if x not in refs:
                refs.append(x)
    lats = [tuple(x) for g in groups for x in g.get('lateralities', []) if x]
    return {
        'tracking_uid': sorted({g['tracking_uid'] for g in groups}) + [pool['base'] + '.9.99'],
        'finding_type': list(srreports.FINDINGS),
        'finding_site': list(srreports.SITES) + sorted(set(lats) - set(srreports.SITES)),
        'reference_type': ['ImageRegion', 'ReferencedSegmentationFrame', 'ReferencedSegment', 'VolumeSurface', 'RegionInSpace',
                           'SourceImageForSegmentation'],
        'graphic_type': [(2, x) for x in srreports.G2D + ['MULTIPOINT']] +
                        [(3, x) for x in ['POINT', 'POLYGON', 'ELLIPSE', 'ELLIPSOID', 'POLYLINE', 'MULTIPOINT']],
        'referenced_sop_instance_uid': [i for _, i in refs] + [pool['base'] + '.1.99'],
        'referenced_sop_class_uid': [srreports.CT, srreports.MR, srreports.SEG, srreports.RTSS],
    }


def _to_args(f):
    """filter dict -> keyword arguments of the real method"""
    import highdicom as hd
    from gen import srreports
    kw = {}
    for k, v in f.items():
        if v is None:
            continue
        if k in ('finding_type', 'finding_site'):
            kw[k] = srreports.cc(v)
        elif k == 'reference_type':
            c = REF_CODES[v]
            kw[k] = hd.sr.CodedConcept(value=c[0], scheme_designator=c[1], meaning=v)
        elif k == 'graphic_type':
            kw[k] = (hd.sr.GraphicTypeValues if v[0] == 2 else hd.sr.GraphicTypeValues3D)(v[1])
        else:
            kw[k] = v
    return kw


class _Sweep(dict):
    """a filter combination of the single-filter value sweeps (quick tier: evaluated on ONE of the two paths, alternating)"""


def _combos(r, method, values, exhaustive, pools=None):
    names = FILTERS[method]
    if pools is not None:
        # every value of every single filter (a filter must also be right for the values nobody thought of)
        for n in names:
            for v in pools[n]:
                if v != values[n]:
                    yield _Sweep({m: (v if m == n else None) for m in names})
    if exhaustive:
        for mask in range(2 ** len(names)):
            yield {n: (values[n] if mask >> i & 1 else None) for i, n in enumerate(names)}
    else:
        yield {n: None for n in names}
        for n in names:
            yield {m: (values[m] if m == n else None) for m in names}
        for _ in range(10):
            k = r.choice([2, 2, 3, 4])
            chosen = set(r.sample(names, min(k, len(names))))
            yield {m: (values[m] if m in chosen else None) for m in names}


# ------------------------------------------------------------------ accessors
def _norm(t):
    """a code as the library compares it (pydicom `Code.__eq__`, C17): (value, scheme[, version]) with ONLY the retired
    SNOMED-RT designator `SRT` mapped to SNOMED-CT (SNM3 / 99SDM spell other coding schemes for the library); the coding
    scheme version is part of the code"""
    from pydicom.sr._snomed_dict import mapping
    v, d = str(t[0]), str(t[1])
    rest = tuple(str(x) for x in t[2:] if x is not None)
    if d == 'SRT' and v in mapping['SRT']:
        return (mapping['SRT'][v], 'SCT') + rest
    return (v, d) + rest


def _code(c):
    ver = getattr(c, 'scheme_version', None)
    return _norm((c.value, c.scheme_designator) + ((ver,) if ver else ()))


def _name(c):
    """a concept NAME as the library identifies it: (value, scheme), in whatever version of the coding scheme"""
    return _code(c)[:2]


def _check_accessors(ctx, case, seq, g, method):
    """(wrapper) an accessor that RAISES on a group a query returned is a failure of the property, not of the harness"""
    try:
        _check_accessors_inner(ctx, case, seq, g, method)
    except Exception as e:  # noqa: BLE001
        ctx.fail(dict(case, accessor='raised'), {'what': 'an accessor of a returned group raised instead of reporting the construction values',
                                                 'error': f'{type(e).__name__}: {e}'[:300]}, site=f'accessors/{method}/raised')


def _check_accessors_inner(ctx, case, seq, g, method):
    """a returned group reports what it was constructed with.  Every query returns a fresh object for the group, so the
    accessors are checked on the first return of a group on a path and on every 8th return after that (the full check is a
    third of the run time otherwise); the tracking UID is checked on every return."""
    from gen import srreports
    import numpy as np
    seen = ctx.__dict__.setdefault('_acc_seen', {})
    key = (case.get('stream'), case.get('idx'), case.get('group'), case.get('path'), method)
    seen[key] = seen.get(key, 0) + 1
    if seen[key] % 8 != 1:
        if str(seq.tracking_uid) != g['tracking_uid']:
            ctx.fail(dict(case, accessor='tracking_uid'), {'what': 'returned group does not report its construction values',
                                                           'problems': [{'what': 'tracking_uid', 'got': str(seq.tracking_uid), 'want': g['tracking_uid']}]},
                     site=f'accessors/{method}/tracking_uid')
        return
    site = f'accessors/{method}'
    probs = []

    def chk(what, got, want):
        if got != want:
            probs.append({'what': what, 'got': got, 'want': want})
    chk('tracking_uid', str(seq.tracking_uid), g['tracking_uid'])
    chk('tracking_identifier', str(seq.tracking_identifier), g['tracking_id'])
    chk('finding_type', _code(seq.finding_type) if seq.finding_type is not None else None,
        tuple(g['finding_type']) if g['finding_type'] else None)
    chk('finding_category', _code(seq.finding_category) if seq.finding_category is not None else None,
        tuple(g['finding_category']) if g['finding_category'] else None)
    chk('finding_sites', [_code(s.value) for s in seq.finding_sites], [tuple(s) for s in g['finding_sites']])
    chk('lateralities', [_code(s.laterality) if s.laterality is not None else None for s in seq.finding_sites],
        [tuple(x) if x else None for x in g['lateralities']])
    chk('topographical modifiers', [_code(s.topographical_modifier) if s.topographical_modifier is not None else None for s in seq.finding_sites],
        [('TM1', '99VERIF') if (x and x[0] == 'L9') else None for x in g['lateralities']])
    chk('method', _code(seq.method) if seq.method is not None else None, tuple(g['method']) if g['method'] else None)
    def mdesc(m):
        return (_name(m.name), float(m.value), _code(m.unit), _code(m.qualifier) if m.qualifier is not None else None,
                _code(m.derivation) if m.derivation is not None else None, _code(m.method) if m.method is not None else None,
                [_code(s.value) for s in m.finding_sites],
                [(str(i.referenced_sop_class_uid), str(i.referenced_sop_instance_uid)) for i in m.referenced_images])
    chk('measurements', [mdesc(m) for m in seq.get_measurements()],
        [(tuple(n), float(v), tuple(u), tuple(x['qualifier']) if x.get('qualifier') else None,
          tuple(x['derivation']) if x.get('derivation') else None, tuple(x['method']) if x.get('method') else None,
          [tuple(t) for t in x.get('sites', [])], [tuple(i) for i in x.get('images', [])]) for n, v, u, x in g['measurements']])
    chk('evaluations', [(_name(e.name), _code(e.value)) for e in seq.get_qualitative_evaluations()],
        [(tuple(n), tuple(v)) for n, v in g['evaluations']])
    for _n, v_, _u, _x in g['measurements']:
        ctx.hist('measurement_value', srreports.value_kind(v_) + '/' + str(case.get('path', case.get('stream'))))
    # the name filter of both accessors, over the whole (small) pools of names: hits, misses, and the names of the OTHER
    # accessor / of the fixed items (a measurement name asked of the evaluations, "Finding" asked of the evaluations)
    for n in list(srreports.MEAS) + [srreports.EVALS[0], ('121071', 'DCM')]:
        got = [(_name(m.name), float(m.value)) for m in seq.get_measurements(name=srreports.cc(n))]
        want = [(tuple(n2), float(v2)) for n2, v2, _, _ in g['measurements'] if tuple(n2) == tuple(n)]
        chk(f'measurements by name {n[0]}', got, want)
    for n in list(srreports.EVALS) + [srreports.MEAS[0], ('121071', 'DCM'), ('363698007', 'SCT')]:
        got = [(_name(e.name), _code(e.value)) for e in seq.get_qualitative_evaluations(name=srreports.cc(n))]
        want = [(tuple(n2), tuple(v2)) for n2, v2 in g['evaluations'] if tuple(n2) == tuple(n)]
        chk(f'evaluations by name {n[0]}', got, want)
    ref = g['ref']
    t = ref['type']

    def sop(item):
        s = item.ReferencedSOPSequence[0]
        return (str(s.ReferencedSOPClassUID), str(s.ReferencedSOPInstanceUID))
    if method in ('planar', 'volumetric'):
        rt = seq.reference_type
        chk('reference_type', (str(rt.value), str(rt.scheme_designator)), REF_CODES[srreports.REF_TYPE_OF[t]])
    if method == 'planar':
        roi = seq.roi
        if t == 'region2d':
            chk('roi class', type(roi).__name__, 'ImageRegion')
            if roi is not None:
                chk('roi graphic type', str(roi.graphic_type.value), ref['graphic'])
                chk('roi source image', sop(roi.ContentSequence[0]), tuple(ref['source']))
                sf_ = roi.ContentSequence[0].ReferencedSOPSequence[0]
                fr_ = None
                if 'ReferencedFrameNumber' in sf_:
                    v_ = sf_.ReferencedFrameNumber
                    fr_ = [int(x) for x in v_] if sf_['ReferencedFrameNumber'].VM > 1 else [int(v_)]
                chk('roi source frames', fr_, ref.get('source_frames'))
                chk('roi pixel origin', str(roi.PixelOriginInterpretation) if 'PixelOriginInterpretation' in roi else None, ref.get('origin'))
        elif t == 'region3d':
            chk('roi class', type(roi).__name__, 'ImageRegion3D')
            if roi is not None:
                chk('roi graphic type', str(roi.graphic_type.value), ref['graphic'])
        else:
            chk('roi', roi, None)
        sf = seq.referenced_segmentation_frame
        if t == 'segframe':
            chk('segmentation frame present', sf is not None, True)
            if sf is not None:
                chk('segmentation instance', (str(sf.referenced_sop_class_uid), str(sf.referenced_sop_instance_uid)), tuple(ref['seg']))
                chk('segmentation frames', [int(x) for x in sf.referenced_frame_numbers], ref['frames'])
                chk('segment number', [int(x) for x in sf.referenced_segment_numbers], [ref['segment']])
                chk('source image', sop(sf.source_image_for_segmentation), tuple(ref['source']))
        else:
            chk('segmentation frame', sf, None)
    elif method == 'volumetric':
        roi = seq.roi
        if t == 'regions2d':
            chk('roi regions', [(str(x.graphic_type.value), sop(x.ContentSequence[0])) for x in (roi or [])],
                [(a, tuple(b)) for a, b in ref['regions']])
        elif t == 'surface':
            chk('roi class', type(roi).__name__, 'VolumeSurface')
            if roi is not None:
                chk('surface graphic type', str(roi.graphic_type.value), ref['graphic'])
                gd = roi.graphic_data
                chk('surface elements', 1 if isinstance(gd, np.ndarray) else len(gd), ref['n'])
                chk('surface sources', [sop(x) for x in roi.source_images_for_segmentation], [tuple(s) for s in (ref['sources'] or [])])
                ss = roi.source_series_for_segmentation
                chk('surface series', str(ss.value) if ss is not None else None, ref['series'])
        else:
            chk('roi', roi, None)
        rs = seq.referenced_segment
        if t == 'segment':
            chk('segment present', rs is not None, True)
            if rs is not None:
                chk('segmentation instance', (str(rs.referenced_sop_class_uid), str(rs.referenced_sop_instance_uid)), tuple(ref['seg']))
                chk('segment number', [int(x) for x in rs.referenced_segment_numbers], [ref['segment']])
                chk('segment frames', [int(x) for x in rs.referenced_frame_numbers] if rs.referenced_frame_numbers is not None else None,
                    ref.get('frames'))
                chk('segment sources', [sop(x) for x in rs.source_images_for_segmentation], [tuple(s) for s in (ref['sources'] or [])])
                ss = rs.source_series_for_segmentation
                chk('segment series', str(ss.value) if ss is not None else None, ref['series'])
        else:
            chk('segment', rs, None)
    else:
        chk('source images', [sop(x) for x in seq.source_images], [tuple(s) for s in ref['sources']])
    if probs:
        ctx.fail(dict(case, accessor=probs[0]['what']), {'what': 'returned group does not report its construction values', 'problems': probs[:4]},
                 site=site + '/' + probs[0]['what'].split(' ')[0])


# ------------------------------------------------------------------ one report
def _report_case(ctx, idx):
    from gen import srreports
    r = ctx.rng('report', idx)
    rep, groups, pool = srreports.report(r)
    return {'idx': idx, 'rep': rep, 'groups': groups, 'pool': pool}


def _as_document(c):
    """the report inside a Comprehensive 3D SR document, written and parsed back"""
    import highdicom as hd
    from gen import srdocs, srreports
    refs = []
    for g in c['groups']:
        for x in srreports.all_references(g):
            if x not in refs:
                refs.append(x)
    base = c['pool']['base']
    evidence = [srdocs.evidence_dataset(base + '.0', base + '.0.' + str(k % 2 + 1), i, cls, image=True)
                for k, (cls, i) in enumerate(refs)]
    if not evidence:
        evidence = [srdocs.evidence_dataset(base + '.0', base + '.0.1', base + '.0.1.1', srreports.CT)]
    evidence += list(c['pool'].get('library', []))         # the images of the report's image library are referenced, too
    doc = hd.sr.Comprehensive3DSR(evidence=evidence, content=c['rep'][0], series_instance_uid=base + '.5', series_number=5,
                                  sop_instance_uid=base + '.5.1', instance_number=1, manufacturer='verif')
    bio = io.BytesIO()
    doc.save_as(bio)
    return hd.sr.srread(io.BytesIO(bio.getvalue()))


def _tracking(seq):
    return str(seq.tracking_uid)


def _check_report(ctx, c, reqs, pending, only=None, spec_reqs=None, spec_pending=None):
    spec_reqs = spec_reqs if spec_reqs is not None else []
    spec_pending = spec_pending if spec_pending is not None else []
    from gen import srreports
    groups = c['groups']
    n = len(groups)
    r = ctx.rng('query', c['idx'])
    paths = [('memory', c['rep'])]
    rd = _call(_as_document, c)
    base_case = {'stream': 'report', 'seed': ctx.seed, 'idx': c['idx']}
    if rd[0] == 'ok':
        paths.append(('reread', rd[1].content))
        if type(rd[1].content).__name__ != 'MeasurementReport':
            ctx.fail(base_case, f'parsed document content is {type(rd[1].content).__name__}, not a MeasurementReport', site='srread/class')
            paths.pop()
    else:
        ctx.fail(base_case, f'report cannot be written and parsed back: {rd[2]}', site='srread')
    model_groups = [_model_params(g) for g in groups]
    o_ = c['pool'].get('report_options') or {}
    ctx.hist('report_options', f'library={o_.get("library")}/procedures={o_.get("procedures")}/title={o_.get("title")}')
    _check_layout(ctx, c, reqs, pending)
    exhaustive = n <= 2 and c['idx'] % 5 == 0
    sweep_no = [c['idx']]
    for method in ('planar', 'volumetric', 'image'):
        n_kind = sum(1 for g in groups if g['kind'] == method)
        values = _filter_values(r, groups, c['pool'], method)
        for f in _combos(r, method, values, exhaustive, pools=_pools(groups, c['pool'])):
            if only is not None and (method, f) != only:
                continue
            why, must, may = expected(groups, method, f)
            present = tuple(k for k in FILTERS[method] if f[k] is not None)
            reqs.append(('query', {'method': method, 'groups': model_groups,
                                   'filters': {k: (list(v) if isinstance(v, tuple) else v) for k, v in f.items()}}))
            spec_reqs.append(('spec', reqs[-1][1]))
            spec_pending.append(({'stream': 'report', 'seed': ctx.seed, 'idx': c['idx'], 'method': method,
                                  'filters': {k: v for k, v in f.items() if v is not None}, 'what': 'spec'}, why, must, may))
            first = True
            use_paths = paths
            if isinstance(f, _Sweep) and ctx.tier == 'quick' and not ctx.search_mode and len(paths) == 2:
                sweep_no[0] += 1
                use_paths = [paths[sweep_no[0] % 2]]
            for pname, rep in use_paths:
                case = dict(base_case, method=method, filters={k: v for k, v in f.items() if v is not None}, path=pname)
                res = _call(getattr(rep, METHODS[method]), **_to_args(f))
                ok = res[0] == 'ok'
                nontriv = None
                if why or (ok and n_kind >= 2 and 0 < len(must) < n_kind):
                    nontriv = (method, present, n_kind, len(must), sum(g['template'] for g in groups), pname, bool(why))
                ctx.case(sample=case if (c['idx'] % 29 == 0 and len(present) == 2 and first and pname == 'memory') else None,
                         nontrivial_key=nontriv, method=method, n_filters=len(present), n_groups=n, n_of_kind=n_kind,
                         outcome=('ok' if ok else res[2].split(':')[0]), expected=('refuse' if why else f'{min(len(must), 4)} match'),
                         path=pname, templates=f'{sum(g["template"] for g in groups)}/{n}')
                for k in present:
                    ctx.hist('filter', k)
                if first:
                    got_ids = None
                    if ok:
                        got_ids = [_tracking(s) for s in res[1]]
                    pending.append((case, ('ok', got_ids) if ok else ('err', res[1]), groups, 'query'))
                    first = False
                # ---- oracle
                if why:
                    if ok:
                        ctx.fail(case, f'filter combination accepted although it cannot apply: {why}', site=f'{method}/refusal')
                    continue
                if not ok:
                    ctx.fail(case, f'applicable query refused: {res[2]}', site=f'{method}/accept')
                    continue
                seqs = res[1]
                # identify returned groups by position: tracking UIDs may repeat, so match greedily in document order
                got_idx, pos = [], 0
                bad = False
                for s in seqs:
                    t = _tracking(s)
                    k = next((j for j in range(pos, n) if groups[j]['tracking_uid'] == t and j in may), None)
                    if k is None:
                        bad = True
                        break
                    got_idx.append(k)
                    pos = k + 1
                if bad or any(k not in got_idx for k in must):
                    ctx.fail(case, {'what': 'query result is not exactly the groups of that kind satisfying every filter, in document order',
                                    'got_tracking_uids': [_tracking(s) for s in seqs],
                                    'must': [groups[k]['tracking_uid'] for k in must], 'may': [groups[k]['tracking_uid'] for k in may],
                                    'kinds': [g['kind'] + ('' if g['template'] else '*') for g in groups],
                                    'refs': [g['ref']['type'] for g in groups]}, site=f'{method}/result')
                    continue
                want_cls = {'planar': 'PlanarROIMeasurementsAndQualitativeEvaluations',
                            'volumetric': 'VolumetricROIMeasurementsAndQualitativeEvaluations',
                            'image': 'MeasurementsAndQualitativeEvaluations'}[method]
                for s, k in zip(seqs, got_idx):
                    if type(s).__name__ != want_cls:
                        ctx.fail(case, f'returned object is a {type(s).__name__}', site=f'{method}/class')
                    if groups[k]['kind'] == method:
                        _check_accessors(ctx, dict(case, group=k), s, groups[k], method)


def _model_params(g):
    """construction parameters as sent to the model (numbers as text, tuples as lists)"""
    def conv(x):
        if isinstance(x, tuple):
            return [conv(y) for y in x]
        if isinstance(x, list):
            return [conv(y) for y in x]
        if isinstance(x, dict):
            return {k: conv(v) for k, v in x.items()}
        if isinstance(x, float):
            return str(x)
        return x
    from gen import srreports
    out = conv({k: v for k, v in g.items() if k != 'context'})
    a, b = srreports.context_items(g)
    out['ctx_a'], out['ctx_b'] = a, b
    return out


def _group_containers(rep):
    """the measurement-group containers of a report in document order, found through pydicom attributes only (not through
    the library's own `_find_measurement_groups`, whose answer is part of what is checked)"""
    for it in rep[0].get('ContentSequence', []):
        if str(it.ValueType) == 'CONTAINER' and _raw_code(it.ConceptNameCodeSequence) == '126010|DCM':
            return [g for g in it.get('ContentSequence', [])
                    if str(g.ValueType) == 'CONTAINER' and _raw_code(g.ConceptNameCodeSequence) == '125007|DCM']
    return []


def _raw_code(seq):
    """'value|scheme' of a concept NAME read from a data set: the retired SNOMED-RT designator `SRT` normalised to SNOMED-CT
    (pydicom's table; nothing else - `SNM3`, `99SDM` are other coding schemes for the library), the coding scheme version
    dropped (every name the library searches for carries no version, and a name without version matches the code in any
    version: `find_content_items`, `_unversioned_name`)"""
    from pydicom.sr._snomed_dict import mapping
    v, d = str(seq[0].CodeValue), str(seq[0].CodingSchemeDesignator)
    if d == 'SRT' and v in mapping['SRT']:
        return f'{mapping["SRT"][v]}|SCT'
    return f'{v}|{d}'


def _raw_value(seq):
    """'value|scheme[|version]' of a coded VALUE read from a data set: values are compared with pydicom's equality, of which
    the coding scheme version is a part (C17)"""
    base = _raw_code(seq)
    ver = seq[0].get('CodingSchemeVersion')
    return base + (f'|{ver}' if ver else '')


def _real_items(group_item):
    """top-level items of a real group container, read through pydicom attributes only"""
    def code(seq):
        return _raw_code(seq)

    def ref(it):
        if 'ReferencedSOPSequence' in it:
            s_ = it.ReferencedSOPSequence[0]
            return [str(s_.ReferencedSOPClassUID), str(s_.ReferencedSOPInstanceUID)]
        return None
    out = []
    for it in group_item.get('ContentSequence', []):
        vt = str(it.ValueType)
        value = ''
        if vt == 'CODE':
            value = _raw_value(it.ConceptCodeSequence)
        elif vt == 'UIDREF':
            value = str(it.UID)
        elif vt == 'TEXT':
            value = str(it.TextValue)
        elif vt == 'NUM':
            mv = it.MeasuredValueSequence[0]
            # the exact value is FloatingPointValue (FD) when the item has one; NumericValue (DS) holds at most 16 characters
            value = str(float(mv.FloatingPointValue)) if 'FloatingPointValue' in mv else str(float(mv.NumericValue))
        kids = []
        if vt in ('SCOORD', 'SCOORD3D'):
            for k in it.get('ContentSequence', []):
                kids.append({'name': code(k.ConceptNameCodeSequence), 'vt': str(k.ValueType), 'rel': str(k.RelationshipType), 'ref': ref(k)})
        out.append({'name': code(it.ConceptNameCodeSequence), 'vt': vt, 'rel': str(it.RelationshipType), 'value': value,
                    'graphic': str(it.GraphicType) if 'GraphicType' in it else '', 'ref': ref(it), 'kids': kids,
                    'has_seq': vt in ('SCOORD', 'SCOORD3D') and 'ContentSequence' in it})
    tid = None
    if 'ContentTemplateSequence' in group_item:
        tid = str(group_item.ContentTemplateSequence[0].TemplateIdentifier)
    return {'template_id': tid, 'items': out}


def _check_layout(ctx, c, reqs, pending):
    """L1: the container the constructors built has the layout the model's `mkGroup` (and the generator's own
    prediction) give for the construction parameters"""
    from gen import srreports
    containers = _group_containers(c['rep'])
    case0 = {'stream': 'report', 'seed': ctx.seed, 'idx': c['idx']}
    if len(containers) != len(c['groups']):
        ctx.fail(case0, f'report holds {len(containers)} measurement groups, constructed with {len(c["groups"])}', site='report/groups')
        return
    for k, (cont, g) in enumerate(zip(containers, c['groups'])):
        real = _real_items(cont)
        pred = srreports.items_of(g)
        for it in pred['items']:
            if it['vt'] == 'NUM':
                it['value'] = str(float(it['value']))
            it.setdefault('has_seq', bool(it.get('kids')))
        case = dict(case0, group=k, what='layout')
        ctx.case(path='layout', ref_type=g['ref']['type'], kind=g['kind'] + ('' if g['template'] else '*'))
        if real != pred:
            diff = [(a, b) for a, b in itertools.zip_longest(real['items'], pred['items']) if a != b][:2]
            ctx.fail(case, {'what': 'group container does not hold the items it was constructed with, in constructor order',
                            'template': (real['template_id'], pred['template_id']), 'first_differences': diff}, site='report/layout')
        reqs.append(('layout', _model_params(g)))
        pending.append((case, ('ok', real), c['groups'], 'layout'))


def _compare(ctx, pending, answers):
    for (case, impl, groups, kind), ans in zip(pending, answers):
        if 'proto_err' in ans:
            ctx.disagree('L0', case, impl, ans, 'model protocol error')
            continue
        if kind == 'layout':
            m = ans.get('ok', {})
            for it in m.get('items', []):
                if it['vt'] == 'NUM':
                    it['value'] = str(float(it['value']))
            got = {'template_id': m.get('template_id'), 'items': m.get('items')}
            if got != impl[1]:
                diff = [(a, b) for a, b in itertools.zip_longest(impl[1]['items'], got['items'] or []) if a != b][:2]
                ctx.disagree('L1', case, {'template': impl[1]['template_id'], 'diff': diff}, {'template': got['template_id']},
                             'layout: constructed container vs mkGroup')
            continue
        model = ('ok', ans['ok']) if 'ok' in ans else ('err', ans['err'])
        if impl[0] != model[0]:
            ctx.disagree('L0', case, impl, model, 'query: ok-vs-error')
        elif impl[0] == 'ok':
            want = [groups[k]['tracking_uid'] for k in model[1]]
            if impl[1] != want:
                ctx.disagree('L0', case, impl, ('ok', want), 'query: groups returned')


SHAPES = [('planar', t, tpl) for t in ('region2d', 'region3d', 'segframe', 'region_in_space') for tpl in (True, False)] + \
         [('volumetric', t, tpl) for t in ('regions2d', 'segment', 'surface', 'region_in_space') for tpl in (True, False)] + \
         [('volumetric', 'regions2d-1', True), ('image', 'images', True), ('image', 'images', False)]


def _shape_group(r, pool, idx, shape):
    """a group of the given (kind, reference type, template?) shape; everything else random"""
    from gen import srreports
    kind, t, tpl = shape
    for _ in range(200):
        g = srreports.group_params(r, pool, idx, kinds=(kind,))
        g['template'] = tpl
        want = 'regions2d' if t == 'regions2d-1' else t
        if g['ref']['type'] != want:
            continue
        if t == 'regions2d-1':
            g['ref']['regions'] = g['ref']['regions'][:1]
        elif t == 'regions2d' and len(g['ref']['regions']) < 2:
            continue
        g['tracking_uid'] = f'{pool["base"]}.9.{idx}'
        return g
    raise RuntimeError(f'could not draw a group of shape {shape}')


def _shapes(ctx, reqs, pending, spec_reqs, spec_pending, only_idx=None):
    """Every ORDERED PAIR of group shapes (kind x reference type x with/without template identification) and random
    triples, queried without filters and with a graphic-type sweep: kind classification must not depend on what came
    before in the document (state carried across loop iterations)."""
    from gen import srreports
    from pydicom.sr.codedict import codes
    import highdicom as hd
    pairs = [(a, b) for a in SHAPES for b in SHAPES]
    n_tri = ctx.n(16, 900)
    idxs = range(len(pairs) + n_tri) if only_idx is None else [only_idx]
    for idx in idxs:
        r = ctx.rng('shapes', idx)
        shapes = list(pairs[idx]) if idx < len(pairs) else [r.choice(SHAPES) for _ in range(3)]
        pool = srreports.instance_pool(r)
        res = _call(lambda: [_shape_group(r, pool, k + 1, sh) for k, sh in enumerate(shapes)])
        if res[0] != 'ok':
            ctx.note(f'shapes {idx}: {res[2]}')
            continue
        groups = res[1]
        oc = hd.sr.ObservationContext(observer_person_context=hd.sr.ObserverContext(
            observer_type=codes.DCM.Person, observer_identifying_attributes=hd.sr.PersonObserverIdentifyingAttributes(name='Doe^Jane')))
        res = _call(lambda: hd.sr.MeasurementReport(observation_context=oc, procedure_reported=codes.LN.CTUnspecifiedBodyRegion,
                                                    imaging_measurements=[srreports.build_group(r, g) for g in groups]))
        case0 = {'stream': 'shapes', 'seed': ctx.seed, 'idx': idx, 'shapes': [list(s_) for s_ in shapes]}
        if res[0] != 'ok':
            ctx.fail(case0, f'report of admissible groups not constructed: {res[2]}', site='report/construct')
            continue
        rep = res[1]
        model_groups = [_model_params(g) for g in groups]
        uids = [g['tracking_uid'] for g in groups]
        for method in ('planar', 'volumetric', 'image'):
            fl = [{n: None for n in FILTERS[method]}]
            if method != 'image' and idx % (9 if (ctx.tier == 'quick' and not ctx.search_mode) else 4) == 0:
                fl += [dict(fl[0], graphic_type=gt) for gt in _pools(groups, pool)['graphic_type']]
            for f in fl:
                why, must, may = expected(groups, method, f)
                res = _call(getattr(rep, METHODS[method]), **_to_args(f))
                case = dict(case0, method=method, filters={k: v for k, v in f.items() if v is not None})
                ok = res[0] == 'ok'
                ctx.case(path='shapes', method=method, outcome=('ok' if ok else res[2].split(':')[0]),
                         nontrivial_key=('shapes', tuple(shapes), method, f.get('graphic_type')))
                reqs.append(('query', {'method': method, 'groups': model_groups,
                                       'filters': {k: (list(v) if isinstance(v, tuple) else v) for k, v in f.items()}}))
                got = [uids.index(_tracking(s_)) for s_ in res[1]] if ok else None
                pending.append((case, ('ok', [uids[k] for k in got]) if ok else ('err', res[1]), groups, 'query'))
                spec_reqs.append(('spec', reqs[-1][1]))
                spec_pending.append((dict(case, what='spec'), why, must, may))
                if why:
                    if ok:
                        ctx.fail(case, f'filter combination accepted although it cannot apply: {why}', site=f'{method}/refusal')
                    continue
                if not ok:
                    ctx.fail(case, f'applicable query refused: {res[2]}', site=f'{method}/accept')
                elif got != sorted(set(got)) or not (set(must) <= set(got) <= set(may)):
                    ctx.fail(case, {'what': 'query result is not exactly the groups of that kind satisfying every filter, in document order',
                                    'got': got, 'must': must, 'may': may}, site=f'{method}/result')
    ctx.exhaustive.append(f'all {len(pairs)} ordered pairs of {len(SHAPES)} group shapes (kind x reference type x template id), three unfiltered queries each')


def _perturb(r, cont, what, pool):
    """one third-party perturbation of a group container, in place"""
    import highdicom as hd
    from gen import srreports
    items = list(cont.ContentSequence)
    is_ref = lambda it: it.ConceptNameCodeSequence[0].CodeValue in ('111030', '121214', '121191', '121231', '130488')  # noqa: E731
    refs_ = [i for i in items if is_ref(i)]
    if what == 'shuffle':
        r.shuffle(items)
    elif what == 'duplicate-ref' and refs_:
        items.append(__import__('copy').deepcopy(refs_[0]))
    elif what == 'second-type':
        items.append(hd.sr.CompositeContentItem(
            name=hd.sr.CodedConcept(value='130488', scheme_designator='DCM', meaning='Region in Space'),
            referenced_sop_class_uid=srreports.RTSS, referenced_sop_instance_uid=pool['rts'][0][1], relationship_type='CONTAINS'))
    elif what == 'remove-ref':
        items = [i for i in items if not is_ref(i)]
    elif what == 'ref-relationship' and refs_:
        refs_[0].RelationshipType = 'HAS PROPERTIES'
    elif what in ('bogus-graphic', 'no-graphic'):
        # a stored graphic type that is no member of the enumeration (or of the OTHER enumeration), or none at all
        gr = [i for i in refs_ if 'GraphicType' in i]
        if gr:
            tgt = r.choice(gr)
            if what == 'no-graphic':
                del tgt.GraphicType
            else:
                tgt.GraphicType = r.choice(['FOO', 'ELLIPSOID', 'CIRCLE', 'polyline'])
    elif what == 'no-sop':
        # the ROI reference item (segmentation frame / segment / region in space) without ReferencedSOPSequence
        cand = [i for i in refs_ if 'ReferencedSOPSequence' in i]
        if cand:
            del r.choice(cand).ReferencedSOPSequence
    elif what == 'no-sop-source':
        # a source image (top level, or the child of a region) without ReferencedSOPSequence
        cand = [i for i in items if str(i.ValueType) == 'IMAGE' and not is_ref(i) and 'ReferencedSOPSequence' in i]
        cand += [k2 for i in refs_ for k2 in i.get('ContentSequence', []) if 'ReferencedSOPSequence' in k2]
        if cand:
            del r.choice(cand).ReferencedSOPSequence
    elif what == 'no-children':
        cand = [i for i in refs_ if str(i.ValueType) == 'SCOORD' and 'ContentSequence' in i]
        if cand:
            del r.choice(cand).ContentSequence
    elif what == 'legacy-names':
        # concept names (and coded values) in the legacy SNOMED-RT spelling, as reports written before 2019 carry them:
        # equivalent codes, nothing the queries answer may change
        from pydicom.sr._snomed_dict import mapping

        def respell(seq):
            if str(seq[0].CodingSchemeDesignator) == 'SCT' and str(seq[0].CodeValue) in mapping['SCT']:
                seq[0].CodeValue = mapping['SCT'][str(seq[0].CodeValue)]
                seq[0].CodingSchemeDesignator = 'SRT'
        for i in items:
            respell(i.ConceptNameCodeSequence)
            if 'ConceptCodeSequence' in i:
                respell(i.ConceptCodeSequence)
            for k2 in i.get('ContentSequence', []):
                respell(k2.ConceptNameCodeSequence)
                if 'ConceptCodeSequence' in k2:
                    respell(k2.ConceptCodeSequence)
    elif what in ('versioned-names', 'versioned-values'):
        # the coding scheme version stated (CodingSchemeVersion is type 1C): on every concept NAME - the same concepts, nothing the
        # queries answer may change - or on every coded VALUE - another code for the library (pydicom compares the version)
        kw_ = 'ConceptNameCodeSequence' if what == 'versioned-names' else 'ConceptCodeSequence'
        for i in items:
            for j in [i] + list(i.get('ContentSequence', [])):
                if kw_ in j:
                    j[kw_].value[0].CodingSchemeVersion = '2.0'
    elif what == 'snm3-names':
        # concept names spelled with the designator SNM3 (SNOMED version 3): the library knows only SRT as an equivalent of
        # SCT, so these are names of another coding scheme for it
        from pydicom.sr._snomed_dict import mapping

        def respell3(seq):
            if str(seq[0].CodingSchemeDesignator) == 'SCT' and str(seq[0].CodeValue) in mapping['SCT']:
                seq[0].CodeValue = mapping['SCT'][str(seq[0].CodeValue)]
                seq[0].CodingSchemeDesignator = 'SNM3'
        for i in items:
            respell3(i.ConceptNameCodeSequence)
    elif what == 'reverse-regions':
        # same regions, other order: nothing the queries answer may change
        pos = [n for n, i in enumerate(items) if is_ref(i)]
        for a_, b_ in zip(pos, reversed([items[n] for n in pos])):
            items[a_] = b_
    if what == 'strip' or r.random() < 0.3:
        if 'ContentTemplateSequence' in cont:
            del cont.ContentTemplateSequence
    cont.ContentSequence = hd.sr.ContentSequence(items)


def _third_party(ctx, reqs3, pending3, only_idx=None):
    """Containers as a third party might write them (and as nobody should): items reordered, reference items duplicated, a
    second reference of another type added, the reference removed or given another relationship, template ids stripped.
    The construction parameters no longer describe such a group, so the oracle only demands a duplicate-free answer in
    document order; the model (`queryItems` over the items read back through pydicom) must agree on ok-vs-error and on the
    groups returned (L0) — this is what exercises the error paths of the ROI reference search."""
    import highdicom as hd
    from gen import srreports
    for idx in ([only_idx] if only_idx is not None else range(ctx.n(12, 160))):
        r = ctx.rng('thirdparty', idx)
        res = _call(srreports.report, r, r.choice([1, 2, 3]), ('planar', 'volumetric'))
        if res[0] != 'ok':
            ctx.fail({'stream': 'thirdparty', 'seed': ctx.seed, 'idx': idx}, f'report not constructed: {res[2]}', site='report/construct')
            continue
        rep, groups, pool = res[1]
        for k, g in enumerate(groups):
            g['tracking_uid'] = f'{pool["base"]}.9.{100 + k}'      # unique, so that answers identify groups
        conts = _group_containers(rep)
        kinds = []
        for k, cont in enumerate(conts):
            for u in cont.ContentSequence:
                if str(u.ValueType) == 'UIDREF' and u.ConceptNameCodeSequence[0].CodeValue == '112040':
                    u.UID = groups[k]['tracking_uid']
            what = r.choice(['none', 'shuffle', 'duplicate-ref', 'second-type', 'remove-ref', 'ref-relationship', 'strip',
                             'bogus-graphic', 'no-graphic', 'no-sop', 'no-sop-source', 'no-children', 'reverse-regions',
                             'legacy-names', 'versioned-names', 'versioned-values', 'snm3-names'])
            _perturb(r, cont, what, pool)
            kinds.append(what)
        # report level: no group at all (the container emptied / removed), or the container also holds items that are no
        # measurement groups (a comment, a container of another name) - "0..n groups"
        rl = r.choice(['none'] * 5 + ['no-groups', 'no-container', 'foreign-items'])
        root_ = rep[0]
        im_ = [it for it in root_.ContentSequence if _raw_code(it.ConceptNameCodeSequence) == '126010|DCM']
        if rl == 'no-groups' and im_:
            im_[0].ContentSequence = hd.sr.ContentSequence([])
        elif rl == 'no-container' and im_:
            root_.ContentSequence = hd.sr.ContentSequence([it for it in root_.ContentSequence if it is not im_[0]], is_root=False)
        elif rl == 'foreign-items' and im_:
            extra = [hd.sr.TextContentItem(name=hd.sr.CodedConcept('121106', 'DCM', 'Comment'), value='no group', relationship_type='CONTAINS'),
                     hd.sr.ContainerContentItem(name=hd.sr.CodedConcept('126011', 'DCM', 'Derived Imaging Measurements'), relationship_type='CONTAINS')]
            extra[1].ContentSequence = hd.sr.ContentSequence([hd.sr.TextContentItem(
                name=hd.sr.CodedConcept('121106', 'DCM', 'Comment'), value='x', relationship_type='CONTAINS')])
            seq_ = list(im_[0].ContentSequence)
            seq_.insert(r.randrange(len(seq_) + 1), extra[0])
            seq_.insert(r.randrange(len(seq_) + 1), extra[1])
            im_[0].ContentSequence = hd.sr.ContentSequence(seq_)
        if rl != 'none':
            kinds = kinds + ['report:' + rl]
        conts = _group_containers(rep)
        uids_all = [g['tracking_uid'] for g in groups]
        model_groups = [_real_items(c) for c in conts]
        uids = [_stored_uid(c) for c in conts]
        for method in ('planar', 'volumetric', 'image'):
            values = _filter_values(r, groups, pool, method)
            for f in itertools.islice(_combos(r, method, values, False), 10):
                res = _call(getattr(rep, METHODS[method]), **_to_args(f))
                case = {'stream': 'thirdparty', 'seed': ctx.seed, 'idx': idx, 'method': method,
                        'filters': {k: v for k, v in f.items() if v is not None}, 'perturbations': kinds}
                ok = res[0] == 'ok'
                ctx.case(path='third-party', method=method, perturbation='+'.join(sorted(set(kinds))),
                         outcome=('ok' if ok else res[2].split(':')[0]),
                         nontrivial_key=('thirdparty', method, tuple(kinds), ok, tuple(k for k in f if f[k] is not None)))
                got = None
                if ok:
                    got = [uids.index(_tracking(s_)) if _tracking(s_) in uids else -1 for s_ in res[1]]
                    if -1 in got or got != sorted(set(got)):
                        ctx.fail(case, {'what': 'answer is not a duplicate-free list of the report\'s groups in document order',
                                        'got': got}, site=f'{method}/third-party-order')
                reqs3.append(('queryItems', {'method': method, 'groups': model_groups,
                                             'filters': {k: (list(v) if isinstance(v, tuple) else v) for k, v in f.items()}}))
                pending3.append((case, ('ok', got) if ok else ('err', res[1])))


def _match_positions(groups, seqs, may):
    """positions of the returned groups: tracking UIDs may repeat, so match greedily in document order (None = no match)"""
    got_idx, pos = [], 0
    for s_ in seqs:
        t = _tracking(s_)
        k = next((j for j in range(pos, len(groups)) if groups[j]['tracking_uid'] == t and j in may), None)
        if k is None:
            return None
        got_idx.append(k)
        pos = k + 1
    return got_idx


def _twins(ctx, reqs, pending, spec_reqs, spec_pending, only_idx=None):
    """SEVERAL groups pass one filter: for every group shape a report [A, X, A', B] where A' is a twin of A (same tracking UID,
    finding type, finding sites, reference - only the tracking identifier text and the measurements differ), B shares the
    tracking UID with A but has another finding type and other sites, X is a group of a random shape with values of its own.
    Queried (kind of A) with every single filter naming A's value, every pair with the tracking UID, and all of them jointly;
    in memory and written / parsed back; the other two methods without filter.  'Never omitting one that passes': a query
    that stops at the first hit, or deduplicates by tracking UID, returns too few."""
    import copy
    import highdicom as hd
    from gen import srreports
    from pydicom.sr.codedict import codes
    n_extra = ctx.n(0, 120)
    for idx in ([only_idx] if only_idx is not None else range(len(SHAPES) + n_extra)):
        r = ctx.rng('twins', idx)
        shape = SHAPES[idx % len(SHAPES)]
        pool = srreports.instance_pool(r)
        res = _call(_shape_group, r, pool, 1, shape)
        if res[0] != 'ok':
            ctx.note(f'twins {idx}: {res[2]}')
            continue
        a = res[1]
        if a['finding_type'] is None:
            a['finding_type'] = r.choice(srreports.FINDINGS)
        if not a['finding_sites']:
            a['finding_sites'] = [r.choice(srreports.SITES)]
            a['lateralities'] = [None]
        a2 = copy.deepcopy(a)
        a2['tracking_id'] = 'lesion 1 (second outline)'
        a2['measurements'] = [(r.choice(srreports.MEAS), srreports.measurement_value(r), ('mm', 'UCUM'), {})]
        b = _shape_group(r, pool, 3, shape)
        b['tracking_uid'] = a['tracking_uid']
        b['finding_type'] = r.choice([x for x in srreports.FINDINGS if tuple(x) != tuple(a['finding_type'])])
        b['finding_sites'] = [x for x in srreports.SITES if tuple(x) not in [tuple(y) for y in a['finding_sites']]][:1]
        b['lateralities'] = [None for _ in b['finding_sites']]
        x = _shape_group(r, pool, 2, r.choice(SHAPES))
        order = [[a, x, a2, b], [x, a, b, a2], [a, a2, x, b], [b, a, x, a2]][idx % 4] if idx >= len(SHAPES) else [a, x, a2, b]
        groups = order
        oc = hd.sr.ObservationContext(observer_person_context=hd.sr.ObserverContext(
            observer_type=codes.DCM.Person, observer_identifying_attributes=hd.sr.PersonObserverIdentifyingAttributes(name='Doe^Jane')))
        res = _call(lambda: hd.sr.MeasurementReport(observation_context=oc, procedure_reported=codes.LN.CTUnspecifiedBodyRegion,
                                                    imaging_measurements=[srreports.build_group(r, g) for g in groups]))
        case0 = {'stream': 'twins', 'seed': ctx.seed, 'idx': idx, 'shape': list(shape)}
        if res[0] != 'ok':
            ctx.fail(case0, f'report of admissible groups not constructed: {res[2]}', site='report/construct')
            continue
        rep = res[1]
        paths = [('memory', rep)]
        rd = _call(_as_document, {'groups': groups, 'pool': pool, 'rep': rep})
        if rd[0] == 'ok' and type(rd[1].content).__name__ == 'MeasurementReport':
            paths.append(('reread', rd[1].content))
        else:
            ctx.fail(case0, f'report cannot be written and parsed back: {rd[2] if rd[0] != "ok" else type(rd[1].content).__name__}', site='srread')
        model_groups = [_model_params(g) for g in groups]
        kind = shape[0]
        # the filters A passes, each with A's own value
        own = {'tracking_uid': a['tracking_uid'], 'finding_type': tuple(a['finding_type']), 'finding_site': tuple(a['finding_sites'][0])}
        t = a['ref']['type']
        if kind != 'image':
            own['reference_type'] = srreports.REF_TYPE_OF[t]
            if t in ('region2d', 'regions2d'):
                own['graphic_type'] = (2, a['ref']['graphic'] if t == 'region2d' else a['ref']['regions'][0][0])
            elif t in ('region3d', 'surface'):
                own['graphic_type'] = (3, a['ref']['graphic'])
        refs = srreports.referenced_instances(a)
        if refs and own.get('graphic_type', (2,))[0] != 3:
            own['referenced_sop_instance_uid'] = refs[0][1]
            own['referenced_sop_class_uid'] = refs[0][0]
        names = FILTERS[kind]
        combos = [{}] + [{k: own[k]} for k in names if k in own]
        if ctx.tier != 'quick' or ctx.search_mode or idx % 4 == 0:
            combos += [{'tracking_uid': own['tracking_uid'], k: own[k]} for k in names if k in own and k != 'tracking_uid']
        joint = {k: own[k] for k in names if k in own}
        if 'graphic_type' in joint and joint['graphic_type'][0] == 3:
            joint.pop('referenced_sop_instance_uid', None)
            joint.pop('referenced_sop_class_uid', None)
        combos.append(joint)
        plan = [(kind, {n_: c.get(n_) for n_ in names}) for c in combos]
        if ctx.tier != 'quick' or ctx.search_mode:
            plan += [(m, {n_: None for n_ in FILTERS[m]}) for m in ('planar', 'volumetric', 'image') if m != kind]
        plan += [(m, {n_: (own['tracking_uid'] if n_ == 'tracking_uid' else None) for n_ in FILTERS[m]})
                 for m in ('planar', 'volumetric', 'image') if m != kind]
        for method, f in plan:
            why, must, may = expected(groups, method, f)
            reqs.append(('query', {'method': method, 'groups': model_groups,
                                   'filters': {k: (list(v) if isinstance(v, tuple) else v) for k, v in f.items()}}))
            spec_reqs.append(('spec', reqs[-1][1]))
            spec_pending.append((dict(case0, method=method, filters={k: v for k, v in f.items() if v is not None}, what='spec'), why, must, may))
            first = True
            given = [k_ for k_ in f if f[k_] is not None]
            both_paths = ctx.tier != 'quick' or ctx.search_mode or len(given) != 1 or given == ['tracking_uid']
            for pname, rp in (paths if both_paths else paths[:1]):
                case = dict(case0, method=method, filters={k: v for k, v in f.items() if v is not None}, path=pname)
                res = _call(getattr(rp, METHODS[method]), **_to_args(f))
                ok = res[0] == 'ok'
                ctx.case(path='twins/' + pname, method=method, outcome=('ok' if ok else res[2].split(':')[0]),
                         twins_expected=('refuse' if why else f'{len(must)} of {len(groups)}'),
                         nontrivial_key=('twins', tuple(shape), method, tuple(sorted(case['filters'])), pname) if len(must) >= 2 else None)
                if first:
                    pending.append((case, ('ok', [_tracking(s_) for s_ in res[1]]) if ok else ('err', res[1]), groups, 'query'))
                    first = False
                if why:
                    if ok:
                        ctx.fail(case, f'filter combination accepted although it cannot apply: {why}', site=f'{method}/refusal')
                    continue
                if not ok:
                    ctx.fail(case, f'applicable query refused: {res[2]}', site=f'{method}/accept')
                    continue
                got_idx = _match_positions(groups, res[1], may)
                if got_idx is None or any(k not in got_idx for k in must):
                    ctx.fail(case, {'what': 'query result is not exactly the groups of that kind satisfying every filter, in document order '
                                            '(several groups pass this filter)',
                                    'got_tracking_ids': [str(s_.tracking_identifier) for s_ in res[1]],
                                    'must': [groups[k]['tracking_id'] for k in must], 'may': [groups[k]['tracking_id'] for k in may]},
                             site=f'{method}/result')
                    continue
                for s_, k in zip(res[1], got_idx):
                    if groups[k]['kind'] == method:
                        _check_accessors(ctx, dict(case, group=k), s_, groups[k], method)
    ctx.exhaustive.append(f'twins: for each of the {len(SHAPES)} group shapes a report with two identical-valued groups and a third sharing '
                          'the tracking UID; every single filter, every pair with the tracking UID, all jointly; in memory and re-read')


def _pairs(ctx, reqs, pending, spec_reqs, spec_pending, only_idx=None):
    """COUPLED filters: the referenced class UID and the referenced instance UID must hold for ONE AND THE SAME referenced
    instance.  For every group shape a report [A, X] where A references several instances of DIFFERENT SOP classes wherever
    the shape allows it (image groups, segments and regions with several source images of alternating classes; a
    segmentation frame references the segmentation and its source image anyway), queried with the FULL cross product
    (class of reference i, instance UID of reference j) - the diagonal names a real instance, every other pair is satisfied
    by no single item - plus each UID alone; in memory and re-read."""
    import highdicom as hd
    from gen import srreports
    from pydicom.sr.codedict import codes
    n_extra = ctx.n(0, 60)
    for idx in ([only_idx] if only_idx is not None else range(len(SHAPES) + n_extra)):
        r = ctx.rng('pairs', idx)
        shape = SHAPES[idx % len(SHAPES)]
        pool = srreports.instance_pool(r)
        # instances of alternating classes, so that several references of one group differ in class
        imgs = [((srreports.CT, srreports.MR, srreports.RTSS)[k % 3], f'{pool["base"]}.1.{k + 1}') for k in range(6)]
        pool['images'] = imgs
        res = _call(_shape_group, r, pool, 1, shape)
        if res[0] != 'ok':
            ctx.note(f'pairs {idx}: {res[2]}')
            continue
        a = res[1]
        t = a['ref']['type']
        if t == 'images':
            a['ref']['sources'] = imgs[:r.choice([2, 3])]
        elif t in ('segment', 'surface') and a['ref'].get('sources') is not None:
            a['ref']['sources'] = imgs[1:1 + r.choice([2, 3])]
        elif t == 'regions2d':
            a['ref']['regions'] = [(g_, imgs[k]) for k, (g_, _) in enumerate(a['ref']['regions'])]
        x = _shape_group(r, pool, 2, r.choice(SHAPES))
        groups = [a, x] if idx % 2 == 0 else [x, a]
        oc = hd.sr.ObservationContext(observer_person_context=hd.sr.ObserverContext(
            observer_type=codes.DCM.Person, observer_identifying_attributes=hd.sr.PersonObserverIdentifyingAttributes(name='Doe^Jane')))
        res = _call(lambda: hd.sr.MeasurementReport(observation_context=oc, procedure_reported=codes.LN.CTUnspecifiedBodyRegion,
                                                    imaging_measurements=[srreports.build_group(r, g) for g in groups]))
        case0 = {'stream': 'pairs', 'seed': ctx.seed, 'idx': idx, 'shape': list(shape)}
        if res[0] != 'ok':
            ctx.fail(case0, f'report of admissible groups not constructed: {res[2]}', site='report/construct')
            continue
        rep = res[1]
        paths = [('memory', rep)]
        rd = _call(_as_document, {'groups': groups, 'pool': pool, 'rep': rep})
        if rd[0] == 'ok' and type(rd[1].content).__name__ == 'MeasurementReport':
            paths.append(('reread', rd[1].content))
        else:
            ctx.fail(case0, f'report cannot be written and parsed back: {rd[2] if rd[0] != "ok" else type(rd[1].content).__name__}', site='srread')
        model_groups = [_model_params(g) for g in groups]
        kind = shape[0]
        refs = []
        for ref_ in srreports.referenced_instances(a):
            if ref_ not in refs:
                refs.append(ref_)
        classes = list(dict.fromkeys(c_ for c_, _ in refs))
        insts = [i_ for _, i_ in refs]
        names = FILTERS[kind]
        combos = [{'referenced_sop_class_uid': c_, 'referenced_sop_instance_uid': i_} for c_ in classes for i_ in insts]
        combos += [{'referenced_sop_class_uid': c_} for c_ in classes] + [{'referenced_sop_instance_uid': i_} for i_ in insts[:2]]
        ctx.hist('pairs_references', f'{t}: {len(refs)} references of {len(classes)} classes')
        for cmb in combos:
            f = {n_: cmb.get(n_) for n_ in names}
            why, must, may = expected(groups, kind, f)
            reqs.append(('query', {'method': kind, 'groups': model_groups,
                                   'filters': {k: (list(v) if isinstance(v, tuple) else v) for k, v in f.items()}}))
            spec_reqs.append(('spec', reqs[-1][1]))
            spec_pending.append((dict(case0, method=kind, filters={k: v for k, v in f.items() if v is not None}, what='spec'), why, must, may))
            mixed = len(cmb) == 2 and (cmb['referenced_sop_class_uid'], cmb['referenced_sop_instance_uid']) not in refs
            first = True
            for pname, rp in paths:
                case = dict(case0, method=kind, filters={k: v for k, v in f.items() if v is not None}, path=pname)
                res = _call(getattr(rp, METHODS[kind]), **_to_args(f))
                ok = res[0] == 'ok'
                ctx.case(path='pairs/' + pname, method=kind, outcome=('ok' if ok else res[2].split(':')[0]),
                         pair=('mixed (no single reference has both)' if mixed else 'one reference has both' if len(cmb) == 2 else 'single filter'),
                         nontrivial_key=('pairs', tuple(shape), tuple(sorted(cmb.items())), pname) if mixed else None)
                if first:
                    pending.append((case, ('ok', [_tracking(s_) for s_ in res[1]]) if ok else ('err', res[1]), groups, 'query'))
                    first = False
                if why:
                    if ok:
                        ctx.fail(case, f'filter combination accepted although it cannot apply: {why}', site=f'{kind}/refusal')
                    continue
                if not ok:
                    ctx.fail(case, f'applicable query refused: {res[2]}', site=f'{kind}/accept')
                    continue
                got_idx = _match_positions(groups, res[1], may)
                if got_idx is None or any(k not in got_idx for k in must):
                    ctx.fail(case, {'what': 'query result is not exactly the groups of that kind satisfying every filter, in document order '
                                            '(class and instance UID must hold for one and the same referenced instance)',
                                    'got_tracking_uids': [_tracking(s_) for s_ in res[1]],
                                    'must': [groups[k]['tracking_uid'] for k in must], 'may': [groups[k]['tracking_uid'] for k in may],
                                    'references_of_the_group': refs}, site=f'{kind}/result')
    ctx.exhaustive.append(f'pairs: for each of the {len(SHAPES)} group shapes the full cross product (class of reference i, instance UID of '
                          'reference j) over the references of one group, which are of different SOP classes wherever the shape allows')


MALFORMED = ['bogus-graphic', 'no-graphic', 'no-sop', 'no-sop-source', 'no-children', 'reverse-regions', 'legacy-names',
             'swap-groups', 'versioned-names', 'versioned-values', 'snm3-names']
METAMORPHIC = ('reverse-regions', 'legacy-names', 'swap-groups', 'versioned-names')     # no malformation: the answers must not change
RULE_PERTURBATIONS = ('versioned-values', 'snm3-names')      # the answers change as the library's documented code matching rule says
ROI_SHAPES = [s_ for s_ in SHAPES if s_[0] != 'image' and s_[1] != 'regions2d-1']


def _malformed(ctx, reqs3, pending3, only_idx=None):
    """Every ROI group shape x every malformation of a stored item (graphic type outside its enumeration / absent,
    ReferencedSOPSequence of the reference item / of a source image removed, region without ContentSequence, regions in
    reverse order), the malformed group first or second of two, queried by all three methods without filter and with every
    value of every single filter: ok-vs-error, the groups returned (L0) and the kind of error (L1) against the model's
    arms.  `reverse-regions` is no malformation: the oracle demands the same answer as before the reversal."""
    import copy
    import highdicom as hd
    from gen import srreports
    from pydicom.sr.codedict import codes
    combos = [(sh, m, pos) for sh in ROI_SHAPES for m in MALFORMED for pos in (0, 1)]
    n = len(combos)
    # quick: every (shape, malformation), the position alternating; thorough: both positions
    # (quick additionally takes one of the with / without template-identification variants of a shape per malformation)
    nm_ = len(MALFORMED)

    def in_quick(i):
        sh, m, pos = i // (2 * nm_), i // 2 % nm_, i % 2
        if MALFORMED[m] in ('versioned-names', 'versioned-values', 'snm3-names', 'legacy-names'):
            # how codes are matched does not depend on the shape of the ROI reference: a quarter of the shapes (all in thorough)
            return sh % 4 == (m + ctx.seed) % 4 and (sh // 4 + m + ctx.seed) % 2 == pos
        return (sh // 2 + m + ctx.seed) % 2 == sh % 2 and (sh + m + ctx.seed) % 2 == pos
    idxs = [only_idx] if only_idx is not None else \
        [i for i in range(len(combos)) if ctx.tier != 'quick' or ctx.search_mode or in_quick(i)]
    for idx in idxs:
        shape, what, pos = combos[idx]
        r = ctx.rng('malformed', idx)
        pool = srreports.instance_pool(r)
        other = r.choice(ROI_SHAPES)
        res = _call(lambda: [_shape_group(r, pool, k + 1, sh) for k, sh in enumerate([shape, other] if pos == 0 else [other, shape])])
        if res[0] != 'ok':
            ctx.note(f'malformed {idx}: {res[2]}')
            continue
        groups = res[1]
        oc = hd.sr.ObservationContext(observer_person_context=hd.sr.ObserverContext(
            observer_type=codes.DCM.Person, observer_identifying_attributes=hd.sr.PersonObserverIdentifyingAttributes(name='Doe^Jane')))
        res = _call(lambda: hd.sr.MeasurementReport(observation_context=oc, procedure_reported=codes.LN.CTUnspecifiedBodyRegion,
                                                    imaging_measurements=[srreports.build_group(r, g) for g in groups]))
        case0 = {'stream': 'malformed', 'seed': ctx.seed, 'idx': idx, 'shape': list(shape), 'malformation': what, 'position': pos}
        if res[0] != 'ok':
            ctx.fail(case0, f'report of admissible groups not constructed: {res[2]}', site='report/construct')
            continue
        rep = res[1]
        uids = [g['tracking_uid'] for g in groups]
        pools = _pools(groups, pool)
        quick = ctx.tier == 'quick' and not ctx.search_mode
        about_graphics = what in ('bogus-graphic', 'no-graphic', 'reverse-regions')

        def filters_of(method):
            # quick tier: the full sweep only of the filters that read what the malformation touches
            fl = [{nm: None for nm in FILTERS[method]}]
            for nm in FILTERS[method]:
                if nm in ('finding_type', 'finding_site'):
                    # these filters read nothing a malformation touches; a respelling / a stated version touches names and values
                    vals = pools[nm] if what in ('legacy-names', 'versioned-names', 'versioned-values', 'snm3-names') else pools[nm][:1]
                    if what == 'versioned-values':
                        vals = list(vals) + [tuple(v_) + ('2.0',) for v_ in vals[:3]] + [tuple(vals[0]) + ('1.0',)]
                elif nm == 'graphic_type':
                    vals = pools[nm] if about_graphics or not quick else [pools[nm][idx % 5], pools[nm][6 + idx % 5]]
                elif nm == 'reference_type':
                    vals = pools[nm] if not quick else [pools[nm][idx % 5], pools[nm][(idx + 2) % 5]]
                elif quick and about_graphics:
                    vals = pools[nm][:1]
                else:
                    vals = pools[nm][:3] + pools[nm][-1:]
                fl += [{m: (v if m == nm else None) for m in FILTERS[method]} for v in vals]
            return fl

        def fkey(method, f):
            return (method, tuple(sorted((k, str(v)) for k, v in f.items() if v is not None)))
        before = {}

        def contexts_of(rp):
            """what the report-level accessors answer (they compare concept names, too)"""
            oc_ = _call(lambda: [(_code(c_[0].value), len(c_)) for c_ in rp.get_observer_contexts()])
            sc_ = _call(lambda: len(rp.get_subject_contexts()))
            return (oc_[1] if oc_[0] == 'ok' else ('err', oc_[1]), sc_[1] if sc_[0] == 'ok' else ('err', sc_[1]))
        ctx_before = contexts_of(rep) if what in METAMORPHIC else None
        if what in METAMORPHIC or what in RULE_PERTURBATIONS:
            # the answers of the untouched report (this also lets the report remember whatever it remembers between queries)
            for method in ('planar', 'volumetric', 'image'):
                for f in filters_of(method):
                    res = _call(getattr(rep, METHODS[method]), **_to_args(f))
                    before[fkey(method, f)] = [_tracking(s_) for s_ in res[1]] if res[0] == 'ok' else ('err', res[1])
        conts = _group_containers(rep)
        if what == 'swap-groups':
            # the two groups exchanged IN PLACE in the report's own sequence: same number of groups, other document order
            parent = [it for it in rep[0].ContentSequence if _raw_code(it.ConceptNameCodeSequence) == '126010|DCM'][0]
            a_, b_ = [n for n, it in enumerate(parent.ContentSequence) if any(it is c_ for c_ in conts)]
            parent.ContentSequence[a_], parent.ContentSequence[b_] = parent.ContentSequence[b_], parent.ContentSequence[a_]
            groups = [groups[1], groups[0]]
            uids = [uids[1], uids[0]]
            conts = _group_containers(rep)
        else:
            tpl = 'ContentTemplateSequence' in conts[pos]
            tpl_seq = copy.deepcopy(conts[pos].ContentTemplateSequence) if tpl else None
            _perturb(r, conts[pos], what, pool)
            if tpl and 'ContentTemplateSequence' not in conts[pos]:
                conts[pos].ContentTemplateSequence = tpl_seq        # the shape (with / without template id) is part of the case
            if what == 'versioned-names':
                # what a tool that states the coding scheme version writes: the version on EVERY concept name of the tree -
                # root, observation context, procedure, image library, containers, group containers, every child
                def version_all(ds_):
                    if 'ConceptNameCodeSequence' in ds_:
                        ds_.ConceptNameCodeSequence[0].CodingSchemeVersion = '2.0'
                    for x_ in ds_.get('ContentSequence', []):
                        version_all(x_)
                version_all(rep[0])
        model_groups = [_real_items(c) for c in conts]
        for method in ('planar', 'volumetric', 'image'):
            for f in filters_of(method):
                res = _call(getattr(rep, METHODS[method]), **_to_args(f))
                case = dict(case0, method=method, filters={k: v for k, v in f.items() if v is not None})
                ok = res[0] == 'ok'
                ctx.case(path='malformed', method=method, malformation=what, outcome=('ok' if ok else res[2].split(':')[0]),
                         nontrivial_key=('malformed', tuple(shape), what, pos, method, ok, tuple(k for k in f if f[k] is not None)))
                got = None
                if ok:
                    got = [uids.index(_tracking(s_)) if _tracking(s_) in uids else -1 for s_ in res[1]]
                    if -1 in got or got != sorted(set(got)):
                        ctx.fail(case, {'what': 'answer is not a duplicate-free list of the report\'s groups in document order',
                                        'got': got}, site=f'{method}/third-party-order')
                if what in METAMORPHIC:
                    now = [_tracking(s_) for s_ in res[1]] if ok else ('err', res[1])
                    was = before[fkey(method, f)]
                    if what == 'swap-groups' and isinstance(was, list):
                        was = sorted(was, key=uids.index)           # same groups, in the NEW document order
                    if now != was:
                        ctx.fail(case, {'what': {'reverse-regions': 'the answer changed when the regions of a volumetric ROI were stored in '
                                                                    'reverse order',
                                                 'legacy-names': 'the answer changed when concept names / coded values were respelled '
                                                                 'with the equivalent legacy SNOMED-RT codes',
                                                 'swap-groups': 'after two groups were exchanged in place the answer is not the same groups '
                                                                'in the new document order',
                                                 'versioned-names': 'the answer changed when every concept name stated the version of its '
                                                                    'coding scheme (the same concepts)'}[what],
                                        'before': before[fkey(method, f)], 'after': now}, site=f'{method}/metamorphic-{what}')
                if what in RULE_PERTURBATIONS:
                    # the library's documented matching rule, evaluated on the construction parameters: coded VALUES are equal iff
                    # (value, scheme, version) are (SRT normalised to SCT); a concept NAME spelled with SNM3 is not the SCT name
                    was = before[fkey(method, f)]
                    want = was
                    single = [k_ for k_ in f if f[k_] is not None]
                    if single and single[0] in ('finding_type', 'finding_site') and isinstance(before[fkey(method, {})], list):
                        nm_f = single[0]
                        want = []
                        for uid_ in before[fkey(method, {})]:
                            k_ = uids.index(uid_)
                            g_ = groups[k_]
                            ver_ = ('2.0',) if (what == 'versioned-values' and k_ == pos) else ()
                            if nm_f == 'finding_type':
                                stored_ = [tuple(g_['finding_type']) + ver_] if g_['finding_type'] else []
                            elif what == 'snm3-names' and k_ == pos:
                                stored_ = []                    # the site items are no longer named "Finding Site" for the library
                            else:
                                stored_ = [tuple(x_) + ver_ for x_ in g_['finding_sites']]
                            if any(_norm(x_) == _norm(f[nm_f]) for x_ in stored_):
                                want.append(uid_)
                    now = [_tracking(s_) for s_ in res[1]] if ok else ('err', res[1])
                    if now != want:
                        ctx.fail(case, {'what': {'versioned-values': 'coded values that state a coding scheme version are not matched as the '
                                                                     'documented rule says (equal iff value, scheme AND version are)',
                                                 'snm3-names': 'a report whose concept names are spelled with the SNM3 designator is not '
                                                               'answered as the documented rule says (only SRT is an equivalent of SCT)'}[what],
                                        'before': was, 'want': want, 'after': now}, site=f'{method}/code-rule-{what}')
                if what in ('legacy-names', 'versioned-names') and ok and not case['filters']:
                    # a returned group still reports what it was constructed with (its accessors search by name, too)
                    for s_ in res[1]:
                        _check_accessors(ctx, dict(case, what='accessors after respelling'), s_, groups[uids.index(_tracking(s_))], method)
                reqs3.append(('queryItems', {'method': method, 'groups': model_groups,
                                             'filters': {k: (list(v) if isinstance(v, tuple) else v) for k, v in f.items()}}))
                pending3.append((case, ('ok', got) if ok else ('err', res[1])))
        if what in METAMORPHIC:
            ctx_now = contexts_of(rep)
            if ctx_now != ctx_before:
                ctx.fail(dict(case0, method='contexts'), {'what': 'get_observer_contexts / get_subject_contexts answer differently after a change '
                                                                  'that names the same concepts', 'before': ctx_before, 'after': ctx_now},
                         site=f'contexts/metamorphic-{what}')
        if what in ('legacy-names', 'versioned-names'):
            # the same report written into a document and parsed back: still the answers of the untouched report
            rd = _call(_as_document, {'groups': groups, 'pool': pool, 'rep': rep})
            if rd[0] != 'ok' or type(rd[1].content).__name__ != 'MeasurementReport':
                ctx.fail(case0, f'report with {what} cannot be written and parsed back as a MeasurementReport: '
                                f'{rd[2] if rd[0] != "ok" else type(rd[1].content).__name__}', site=f'srread/{what}')
            else:
                for method in ('planar', 'volumetric', 'image'):
                    for f in filters_of(method):
                        res = _call(getattr(rd[1].content, METHODS[method]), **_to_args(f))
                        now = [_tracking(s_) for s_ in res[1]] if res[0] == 'ok' else ('err', res[1])
                        ctx.case(path='malformed-reread', method=method, malformation=what, outcome='ok' if res[0] == 'ok' else res[1])
                        if now != before[fkey(method, f)]:
                            ctx.fail(dict(case0, method=method, filters={k: v for k, v in f.items() if v is not None}, path='reread'),
                                     {'what': f'the answer of the re-read report ({what}) differs from the answer '
                                              'of the report as constructed', 'before': before[fkey(method, f)], 'after': now},
                                     site=f'{method}/metamorphic-{what}-reread')
                ctx_rr = contexts_of(rd[1].content)
                if ctx_rr != ctx_before:
                    ctx.fail(dict(case0, method='contexts', path='reread'),
                             {'what': 'get_observer_contexts / get_subject_contexts of the re-read report differ', 'before': ctx_before,
                              'after': ctx_rr}, site=f'contexts/metamorphic-{what}-reread')
    if only_idx is None:
        ctx.exhaustive.append(f'all {len(ROI_SHAPES) * len(MALFORMED)} (ROI group shape x malformation) combinations'
                              + (' x both positions' if len(idxs) == len(combos) else
                                 ' (quick: template-identification variant and position alternating)')
                              + ', every graphic type / reference type and 4 values of every UID filter')


FIXTURES = ['sr_document.dcm', 'sr_document_with_multiple_groups.dcm']


def _stored(cont, name):
    """normalised (value, scheme) of the CODE items of a container stored under the (normalised) concept name"""
    return [_norm((it.ConceptCodeSequence[0].CodeValue, it.ConceptCodeSequence[0].CodingSchemeDesignator))
            for it in cont.get('ContentSequence', [])
            if str(it.ValueType) == 'CODE' and _raw_code(it.ConceptNameCodeSequence) == name]


def _stored_uid(cont):
    for it in cont.get('ContentSequence', []):
        if str(it.ValueType) == 'UIDREF' and _raw_code(it.ConceptNameCodeSequence) == '112040|DCM':
            return str(it.UID)
    return None


def _fixtures(ctx, reqs3, pending3):
    """The measurement reports shipped with the repository (one of them written with the legacy SNOMED-RT concept names):
    all three queries without filter and with every finding type / finding site / tracking UID stored in the file (and one
    that is not), against the model over the items read through pydicom (L0) and against a linear scan: a group stored
    with a finding site is found by the filter on that site and reports it."""
    import os
    import hd_env
    import highdicom as hd
    from pydicom.sr._snomed_dict import mapping
    for name in FIXTURES:
        path = os.path.join(hd_env.HD_REPO, 'data', 'test_files', name)
        res = _call(lambda: hd.sr.srread(path).content)
        case0 = {'stream': 'fixture', 'seed': ctx.seed, 'file': name}
        if res[0] != 'ok' or type(res[1]).__name__ != 'MeasurementReport':
            ctx.fail(case0, f'shipped report not read as a MeasurementReport: {res[2] if res[0] != "ok" else type(res[1]).__name__}',
                     site='fixture/read')
            continue
        rep = res[1]
        conts = _group_containers(rep)
        uids = [_stored_uid(c) for c in conts]
        model_groups = [_real_items(c) for c in conts]
        sites = [_stored(c, '363698007|SCT') for c in conts]
        types = [_stored(c, '121071|DCM') for c in conts]
        pool_f = {'finding_site': sorted({x for l in sites for x in l}) + [('S9', '99VERIF')],
                  'finding_type': sorted({x for l in types for x in l}) + [('F9', '99VERIF')],
                  'tracking_uid': [u for u in uids if u] + ['1.2.3.4.5']}
        found_by_site = {x: set() for x in pool_f['finding_site']}
        for method in ('planar', 'volumetric', 'image'):
            fl = [{nm: None for nm in FILTERS[method]}]
            for nm, vals in pool_f.items():
                for v in vals:
                    fl.append({m: (v if m == nm else None) for m in FILTERS[method]})
                    if nm != 'tracking_uid' and v[1] == 'SCT' and v[0] in mapping['SCT']:
                        # the same concept asked for in the other spelling
                        fl.append({m: ((mapping['SCT'][v[0]], 'SRT') if m == nm else None) for m in FILTERS[method]})
            for f in fl:
                res = _call(getattr(rep, METHODS[method]), **_to_args(f))
                case = dict(case0, method=method, filters={k: v for k, v in f.items() if v is not None})
                ok = res[0] == 'ok'
                ctx.case(path='fixture', method=method, outcome=('ok' if ok else res[2].split(':')[0]),
                         nontrivial_key=('fixture', name, method, tuple(sorted(case['filters'].items()))))
                got = None
                if ok:
                    got = [uids.index(_tracking(s_)) if _tracking(s_) in uids else -1 for s_ in res[1]]
                    if -1 in got or got != sorted(set(got)):
                        ctx.fail(case, {'what': 'answer is not a duplicate-free list of the report\'s groups in document order', 'got': got},
                                 site=f'{method}/fixture-order')
                    for k, s_ in zip(got, res[1]):
                        if k >= 0:
                            have = [_code(x.value) for x in s_.finding_sites]
                            if have != sites[k]:
                                ctx.fail(case, {'what': 'returned group does not report the finding sites stored in its container',
                                                'got': have, 'stored': sites[k]}, site=f'{method}/fixture-finding-sites')
                            if f.get('finding_site') is not None:
                                found_by_site[_norm(f['finding_site'])].add(k)
                else:
                    ctx.fail(case, f'query on a shipped report refused: {res[2]}', site=f'{method}/fixture-accept')
                reqs3.append(('queryItems', {'method': method, 'groups': model_groups,
                                             'filters': {k: (list(_norm(v)) if isinstance(v, tuple) else v) for k, v in f.items()}}))
                pending3.append((case, ('ok', got) if ok else ('err', res[1])))
        for x, ks in found_by_site.items():
            want = {k for k, l in enumerate(sites) if x in l}
            if ks != want:
                ctx.fail(dict(case0, finding_site=list(x)),
                         {'what': 'the groups found by a finding-site filter (over the three queries) are not the groups stored with that site',
                          'got': sorted(ks), 'stored_with_site': sorted(want)}, site='fixture/finding-site')


HISTORY_EDITS = ['replace', 'swap', 'delete-append', 'delete', 'append', 'delete-all', 'none']


def _histories(ctx, reqs3, pending3, only_idx=None):
    """Several calls on ONE report object: query, edit the report in place (a group replaced by a group of another report,
    two groups exchanged, one deleted and one appended, one deleted, one appended), query again - twice over.  Every answer
    is compared with the model over the report AS IT IS NOW (items read through pydicom, L0), must name groups of the
    current report in document order, and a query must leave nothing behind on the report object (`vars(report)` keys and
    the identity of its list before / after)."""
    import highdicom as hd
    from gen import srreports
    from pydicom.sr.codedict import codes
    n = ctx.n(12, 150)
    for idx in ([only_idx] if only_idx is not None else range(n)):
        r = ctx.rng('history', idx)
        pool = srreports.instance_pool(r)
        oc = hd.sr.ObservationContext(observer_person_context=hd.sr.ObserverContext(
            observer_type=codes.DCM.Person, observer_identifying_attributes=hd.sr.PersonObserverIdentifyingAttributes(name='Doe^Jane')))

        def build(first):
            gs = [_shape_group(r, pool, first + k, r.choice(SHAPES)) for k in range(3)]
            return gs, hd.sr.MeasurementReport(observation_context=oc, procedure_reported=codes.LN.CTUnspecifiedBodyRegion,
                                               imaging_measurements=[srreports.build_group(r, g) for g in gs])
        res = _call(lambda: (build(1), build(11)))
        case0 = {'stream': 'history', 'seed': ctx.seed, 'idx': idx}
        if res[0] != 'ok':
            ctx.fail(case0, f'reports of admissible groups not constructed: {res[2]}', site='report/construct')
            continue
        (_, rep), (_, donor) = res[1]
        parent = [it for it in rep[0].ContentSequence if _raw_code(it.ConceptNameCodeSequence) == '126010|DCM'][0]
        spare = list(_group_containers(donor))
        edits = [HISTORY_EDITS[(idx + k) % len(HISTORY_EDITS)] if k else 'none' for k in range(3)]
        for step, edit in enumerate(edits):
            seq = parent.ContentSequence
            pos = [n_ for n_, it in enumerate(seq) if _raw_code(it.ConceptNameCodeSequence) == '125007|DCM']
            if edit == 'replace' and pos and spare:
                seq[r.choice(pos)] = spare.pop()
            elif edit == 'swap' and len(pos) >= 2:
                a_, b_ = r.sample(pos, 2)
                seq[a_], seq[b_] = seq[b_], seq[a_]
            elif edit == 'delete-append' and pos and spare:
                del seq[r.choice(pos)]
                seq.append(spare.pop())
            elif edit == 'delete' and pos:
                del seq[r.choice(pos)]
            elif edit == 'delete-all':
                for n_ in reversed(pos):           # a report that holds no group any more
                    del seq[n_]
            elif edit == 'append' and spare:
                seq.append(spare.pop())
            conts = _group_containers(rep)
            uids = [_stored_uid(c) for c in conts]
            model_groups = [_real_items(c) for c in conts]
            for method in ('planar', 'volumetric', 'image'):
                fl = [{nm: None for nm in FILTERS[method]}]
                if uids:
                    fl.append({nm: (r.choice(uids) if nm == 'tracking_uid' else None) for nm in FILTERS[method]})
                # and one filter of another kind (finding type / site, reference type, referenced instance), so that a stale
                # answer cannot hide behind the two simplest queries
                extra_nm = r.choice([n_ for n_ in FILTERS[method] if n_ not in ('tracking_uid', 'graphic_type', 'referenced_sop_class_uid')])
                extra_v = {'finding_type': r.choice(srreports.FINDINGS), 'finding_site': r.choice(srreports.SITES),
                           'reference_type': r.choice(ALLOWED_REF.get(method, ['ImageRegion'])),
                           'referenced_sop_instance_uid': r.choice(pool['images'])[1]}[extra_nm]
                fl.append({nm: (extra_v if nm == extra_nm else None) for nm in FILTERS[method]})
                for f in fl:
                    keys0, list0 = set(vars(rep)), id(getattr(rep, '_list', None))
                    res = _call(getattr(rep, METHODS[method]), **_to_args(f))
                    case = dict(case0, step=step, edits=edits[:step + 1], method=method, filters={k: v for k, v in f.items() if v is not None})
                    ok = res[0] == 'ok'
                    ctx.case(path='history', method=method, edit=edit, step=step, outcome=('ok' if ok else res[2].split(':')[0]),
                             nontrivial_key=('history', tuple(edits[:step + 1]), method, bool(case['filters'])))
                    if set(vars(rep)) != keys0 or id(getattr(rep, '_list', None)) != list0:
                        ctx.fail(case, {'what': 'a query left state behind on the report object',
                                        'new_attributes': sorted(set(vars(rep)) - keys0), 'lost': sorted(keys0 - set(vars(rep)))},
                                 site=f'{method}/query-leaves-state')
                    got = None
                    if ok:
                        got = [uids.index(_tracking(s_)) if _tracking(s_) in uids else -1 for s_ in res[1]]
                        if -1 in got or got != sorted(set(got)):
                            ctx.fail(case, {'what': 'after an in-place edit the answer is not a duplicate-free list of the groups the report '
                                                    'holds NOW, in document order', 'got': [_tracking(s_) for s_ in res[1]], 'report_holds': uids},
                                     site=f'{method}/history-order')
                    reqs3.append(('queryItems', {'method': method, 'groups': model_groups,
                                                 'filters': {k: (list(v) if isinstance(v, tuple) else v) for k, v in f.items()}}))
                    pending3.append((case, ('ok', got) if ok else ('err', res[1])))


def _helpers(ctx, reqs2, pending2):
    """L2: the translated classification against the private helpers on synthetic count vectors is covered by the
    public queries on template-less groups; here the argument checks are enumerated completely (no report needed)."""
    import highdicom as hd
    from gen import srreports
    r = ctx.rng('args', 0)
    rep, groups, pool = srreports.report(r, n_groups=1, kinds=('image',))
    gts = [None] + [(2, x) for x in srreports.G2D + ['MULTIPOINT']] + [(3, x) for x in ['POINT', 'POLYGON', 'ELLIPSE', 'ELLIPSOID', 'POLYLINE', 'MULTIPOINT']]
    rts = [None, 'ImageRegion', 'ReferencedSegmentationFrame', 'ReferencedSegment', 'VolumeSurface', 'RegionInSpace', 'SourceImageForSegmentation']
    for method in ('planar', 'volumetric'):
        for gt, rt, iu, cu in itertools.product(gts, rts, [None, '1.2.3'], [None, srreports.CT]):
            f = {'tracking_uid': None, 'finding_type': None, 'finding_site': None, 'reference_type': rt, 'graphic_type': gt,
                 'referenced_sop_instance_uid': iu, 'referenced_sop_class_uid': cu}
            why = must_refuse(method, f)
            res = _call(getattr(rep, METHODS[method]), **_to_args(f))
            case = {'stream': 'args', 'seed': ctx.seed, 'method': method, 'filters': {k: v for k, v in f.items() if v is not None}}
            ctx.case(path='argument-checks', method=method, expected=('refuse' if why else 'accept'))
            if why and res[0] == 'ok':
                ctx.fail(case, f'filter combination accepted although it cannot apply: {why}', site=f'{method}/refusal')
            if not why and res[0] != 'ok':
                ctx.fail(case, f'applicable filter combination refused: {res[2]}', site=f'{method}/accept')
            reqs2.append(('args', {'method': method, 'gt': list(gt) if gt else None, 'rt': rt, 'has_inst': iu is not None,
                                   'has_cls': cu is not None}))
            pending2.append((case, ('ok', None) if res[0] == 'ok' else ('err', res[1])))
    ctx.exhaustive.append('argument checks of both ROI queries: 13 graphic types x 7 reference types x {instance UID} x {class UID}')


def run(ctx):
    import hd_env  # noqa: F401
    import glob
    import json
    import os
    reqs, pending = [], []
    for f in sorted(glob.glob(os.path.join(os.path.dirname(os.path.dirname(os.path.dirname(os.path.abspath(__file__)))),
                                           'corpus', 'C16', '*.json'))):
        case = json.load(open(f))
        if case.get('stream') == 'report':
            _check_report(ctx, _report_case(ctx, case['idx']), reqs, pending)
    reqs2, pending2 = [], []
    spec_reqs, spec_pending = [], []
    import time
    t_ = [time.time()]

    def lap(name):
        ctx.note(f'time {name}: {time.time() - t_[0]:.1f}s')
        if os.environ.get('HDV_TIMING'):
            print(f'time {name}: {time.time() - t_[0]:.1f}s', flush=True)
        t_[0] = time.time()
    _helpers(ctx, reqs2, pending2)
    lap('argument checks')
    for idx in range(ctx.n(8, 250)):
        res = _call(_report_case, ctx, idx)
        if res[0] != 'ok':
            ctx.fail({'stream': 'report', 'seed': ctx.seed, 'idx': idx}, f'a valid report could not be constructed: {res[2]}',
                     site='report/construct')
            continue
        _check_report(ctx, res[1], reqs, pending, spec_reqs=spec_reqs, spec_pending=spec_pending)
    lap('reports')
    _shapes(ctx, reqs, pending, spec_reqs, spec_pending)
    lap('shapes')
    _twins(ctx, reqs, pending, spec_reqs, spec_pending)
    lap('twins')
    _pairs(ctx, reqs, pending, spec_reqs, spec_pending)
    lap('pairs')
    reqs3, pending3 = [], []
    _third_party(ctx, reqs3, pending3)
    lap('third party')
    _malformed(ctx, reqs3, pending3)
    lap('malformed')
    _fixtures(ctx, reqs3, pending3)
    lap('fixtures')
    _histories(ctx, reqs3, pending3)
    lap('histories')
    answers = ctx.model(reqs + reqs2 + spec_reqs + reqs3)
    lap('model')
    if answers is None:
        return
    for (case, impl), ans in zip(pending3, answers[len(reqs) + len(reqs2) + len(spec_reqs):]):
        if 'proto_err' in ans:
            ctx.disagree('L0', case, impl, ans, 'model protocol error')
            continue
        model = ('ok', ans['ok']) if 'ok' in ans else ('err', ans['err'])
        if impl[0] != model[0]:
            ctx.disagree('L0', case, impl, model, 'third-party query: ok-vs-error')
        elif impl[0] == 'ok' and impl[1] != model[1]:
            ctx.disagree('L0', case, impl, model, 'third-party query: groups returned')
        elif impl[0] == 'err' and impl[1] != model[1]:
            ctx.disagree('L1', case, impl, model, 'third-party query: error kind (which arm of the loop body failed)')
    _compare(ctx, pending, answers[:len(reqs)])
    # the declarative statement of the theorems (specKind && specFilters, Lean) against the oracle's statement (Python)
    for (case, why, must, may), ans in zip(spec_pending, answers[len(reqs) + len(reqs2):len(reqs) + len(reqs2) + len(spec_reqs)]):
        if 'ok' not in ans:
            ctx.disagree('L0', case, None, ans, 'spec: model protocol error')
            continue
        if why:
            continue
        got = ans['ok']['spec']
        if not (ans['ok']['consistent'] and ans['ok'].get('context_ok') and ans['ok'].get('clean_names')
                and ans['ok'].get('graphics_valid') and ans['ok'].get('sound')):
            ctx.disagree('L0', case, None, ans, 'spec: generated parameters violate a hypothesis of query_sound_complete '
                                                '(consistent / graphicsValid / ContextOK / CleanNames) or the constructed '
                                                'group is not sound')
        elif not (set(must) <= set(got) <= set(may)):
            ctx.disagree('L0', case, {'must': must, 'may': may}, got, 'spec: Lean specKind/specFilters vs oracle predicate')
    for (case, impl), ans in zip(pending2, answers[len(reqs):len(reqs) + len(reqs2)]):
        if 'proto_err' in ans:
            ctx.disagree('L0', case, impl, ans, 'model protocol error')
            continue
        model = 'ok' if 'ok' in ans else 'err'
        if impl[0] != model:
            ctx.disagree('L0', case, impl, ans, 'argument check: ok-vs-error')
        elif impl[0] == 'err' and impl[1] != ans['err']:
            # the property speaks about refusal; the kind (ValueError / TypeError) is the translated code's
            ctx.disagree('L2', dict(case, layer='L2'), impl, ans, 'argument check: error kind')


def search(ctx, broken):
    """Failing-input search after a tie broke (proof / translation / correspondence): the streams that exercise what no
    longer checks first (cheapest first), everything else after, and stop at the first oracle failure - the search is for
    ONE failing input, not for a census."""
    names = ' '.join(broken)
    hit = lambda *keys: any(k in names for k in keys)   # noqa: E731
    order = []
    if hit('T16d', 'filter_item_tests', 'T16h', 'filters_forward', 'T16l', 'filter_skeleton', 'T15c', 'search_item_test', 'query: groups returned'):
        order += ['pairs', 'twins', 'fixtures', 'thirdparty', 'reports']
    if hit('T16a', 'T16j', 'kind', 'T16e', 'no_state', 'T16k', 'every_group', 'countRoi', 'containsPlanar'):
        order += ['shapes', 'twins', 'histories']
    if hit('T16b', 'T16c', 'incompatible_filters', 'arg_checks', 'reference_tables', 'covered_', 'argument check'):
        order += ['helpers', 'shapes']
    if hit('T16f', 'graphic_entry', 'T15e'):
        order += ['shapes', 'malformed', 'thirdparty']
    if hit('T16g', 'queries_write_nothing'):
        order += ['histories', 'malformed', 'twins']
    if hit('T16i', 'roi_search'):
        order += ['thirdparty', 'shapes', 'reports']
    if hit('T16m', 'accessors_', 'layout'):
        order += ['twins', 'reports']
    order += ['pairs', 'helpers', 'twins', 'histories', 'fixtures', 'thirdparty', 'shapes', 'malformed', 'reports']
    done = set()
    import time
    t0 = time.time()
    for name in order:
        if name in done:
            continue
        done.add(name)
        if time.time() - t0 > 300:
            # a change that breaks a tie without breaking the property (a refactoring) has no failing input: do not spend the
            # whole cap on looking for one
            ctx.note(f'search: time budget used, streams not run: {[n_ for n_ in order if n_ not in done or n_ == name]}')
            return
        ctx.note(f'search: stream {name}')
        if name == 'helpers':
            _helpers(ctx, [], [])
        elif name == 'reports':
            for idx in range(min(ctx.n(8, 250), 40)):
                res = _call(_report_case, ctx, idx)
                if res[0] == 'ok':
                    _check_report(ctx, res[1], [], [])
                if ctx.failures or time.time() - t0 > 420:
                    return
        elif name == 'shapes':
            _shapes(ctx, [], [], [], [])
        elif name == 'twins':
            _twins(ctx, [], [], [], [])
        elif name == 'pairs':
            _pairs(ctx, [], [], [], [])
        elif name == 'thirdparty':
            _third_party(ctx, [], [])
        elif name == 'malformed':
            _malformed(ctx, [], [])
        elif name == 'fixtures':
            _fixtures(ctx, [], [])
        elif name == 'histories':
            _histories(ctx, [], [])
        if ctx.failures:
            return


def replay(ctx, case):
    sub = type(ctx)(ctx.prop, ctx.tier, case.get('seed', ctx.seed), 1, ctx.driver)
    if case.get('stream') == 'report':
        _check_report(sub, _report_case(sub, case['idx']), [], [])
    elif case.get('stream') == 'args':
        _helpers(sub, [], [])
    elif case.get('stream') == 'thirdparty':
        _third_party(sub, [], [], only_idx=case['idx'])
    elif case.get('stream') == 'malformed':
        _malformed(sub, [], [], only_idx=case['idx'])
    elif case.get('stream') == 'history':
        _histories(sub, [], [], only_idx=case['idx'])
    elif case.get('stream') == 'fixture':
        _fixtures(sub, [], [])
    elif case.get('stream') == 'shapes':
        _shapes(sub, [], [], [], [], only_idx=case['idx'])
    elif case.get('stream') == 'twins':
        _twins(sub, [], [], [], [], only_idx=case['idx'])
    elif case.get('stream') == 'pairs':
        _pairs(sub, [], [], [], [], only_idx=case['idx'])
    fl = [f for f in sub.failures if all(f['case'].get(k) == case.get(k) for k in ('method', 'path') if k in case)]
    return (fl or sub.failures)[:3] or None
