"""C19  Parametric maps and secondary captures store the given pixels.

Tie T: T19a (`ParametricMap._get_pixel_data_type_and_attr`), T19b (transfer syntax admission and bits allocated by
pixel data type), T19s (`SCImage` image pixel module decision block), plus C07's T13a/T13c/T12 (the SC frame goes
through `encode_frame`).
Tie C: the model of the constructor's data flow (`Model/PMap.lean`: frame order f = i*M + j, per-frame records, pixel
data = concatenation of the planes' cells, mapping attached to a frame, reading a frame back, applying the attached
real-world value mapping; SC pixel module) against the real objects on the same inputs.
Oracle (independent of the model): raw-byte equality (NaN / inf / -0.0 safe) between every input plane and every
read path -- pydicom `pixel_array` after a file round trip, `Image` eager and lazy: `pixel_array`, `get_stored_frame`,
`get_stored_frames` (batches, all), `get_volume`; `get_frame(apply_real_world_transform=True)` against
slope*x+intercept / LUT look-up computed here in exact arithmetic; per-frame plane position, dimension index and
mapping labels against the inputs; SC: pydicom decodes the written file to the given array; unsupported dtype /
shape / mapping layout raises.
"""
from __future__ import annotations

import io
import json
from fractions import Fraction

import numpy as np

PROP = 'C19'
TARGETS = ['T12', 'T13a', 'T13c', 'T13n', 'T13d', 'T13g', 'T19a', 'T19b', 'T19s', 'T19m', 'T19l', 'T19t', 'T19q', 'T19f',
           # the read skeletons of C05 (the read paths of Model/PMapRead.lean are written with them)
           'T1', 'T1b', 'T1c', 'T4', 'T11', 'T11b', 'T11c',
           # C11's stack assembly (Model/Stack.lean, used by Model/PMapVolume.lean) reads these
           'T13o', 'T13e']
LEAN_MODULES = ['HdVerif.Props.C19']
MODEL_MODULES = ['HdVerif.Model.PMap', 'HdVerif.Model.PMapRead', 'HdVerif.Model.PMapVolume']
NAMESPACE = 'HdVerif.C19'
DRIVER = 'Drivers/C19.lean'
RULE = ('parametric maps generated from (source kind series / multi-frame / slide, N planes 1..5, M mappings 1..3 or a '
        '2-D / 3-D array, rows, cols 1..9, dtype uint8/uint16/float32/float64 with extremes, NaN, inf, -0.0, memory '
        'layout, linear and LUT mappings (1..3 per channel), explicit or source plane positions, transfer syntax); one '
        'case = one (object, read path, frame) observation; non-trivial = accepted object whose planes differ, distinct '
        'by (dtype, source, N, M, syntax, layout, path); secondary captures from (dtype, bits allocated, shape, '
        'photometric interpretation, syntax, coordinate system) incl. invalid combinations')
ASSUMPTIONS = [
    'slopes / intercepts / LUT entries are dyadic rationals and stored values are integers below 2^16, so the float64 '
    'arithmetic of the real-world value mapping is exact and compared exactly',
    'values outside the mapped range of a real-world value mapping are undefined (PS3.3 C.7.6.16.2.11): a refusal is expected',
    'YBR_FULL secondary captures are compared with pydicom\'s raw decode (pydicom >= 3 converts to RGB by default)',
    'secondary captures the code refuses although the array is of a supported type are recorded as refusals, not failures: single-bit '
    'arrays whose size is not a multiple of 8 (encode_frame: a stand-alone frame cannot end inside a byte, C07), RLE with 1 or 12 bits, '
    'JPEG-LS / JPEG 2000 with 1 or 12 bits, JPEG 2000 / JPEG baseline (no encoder installed / lossy); the random stream avoids them',
    'histories (stream history): native maps only; thorough tier every 4th map; float maps follow the open finding in the model',
]
MODELLED_NOT_VERIFIED = ['pydicom file writer / reader', 'pydicom pixel decoders, RLE / JPEG-LS codecs',
                         'pixel transform machinery (property C06); the frame access arithmetic is C05\'s regenerated skeleton (tie_read_paths)',
                         'SQLite frame look-up table behind get_volume', 'numpy flatten / astype / tobytes / frombuffer']

IMPLICIT, EXPLICIT = '1.2.840.10008.1.2', '1.2.840.10008.1.2.1'
RLE, JLS, J2KL, JPG = '1.2.840.10008.1.2.5', '1.2.840.10008.1.2.4.80', '1.2.840.10008.1.2.4.90', '1.2.840.10008.1.2.4.50'
NATIVE = (IMPLICIT, EXPLICIT)
TSNAME = {IMPLICIT: 'implicit', EXPLICIT: 'explicit', RLE: 'rle', JLS: 'jpegls', J2KL: 'j2k-lossless', JPG: 'jpeg-baseline'}


# ------------------------------------------------------------------ helpers
def _raw_equal(a, b):
    """bit-exact equality of two arrays of the same dtype kind/width (NaN payloads, -0.0 included)"""
    a, b = np.ascontiguousarray(a), np.ascontiguousarray(b)
    if a.shape != b.shape or a.dtype.itemsize != b.dtype.itemsize or a.dtype.kind != b.dtype.kind:
        return False
    return a.astype(a.dtype.newbyteorder('<')).tobytes() == b.astype(b.dtype.newbyteorder('<')).tobytes()


def _as_shape(v, shape):
    """reshape when the sizes agree (pydicom / Image drop unit dimensions), else leave as is"""
    v = np.asarray(v)
    return v.reshape(shape) if v.size == int(np.prod(shape)) else v


def _try(f, *a, **k):
    try:
        return ('ok', f(*a, **k))
    except Exception as e:  # noqa: BLE001
        return ('err', f'{type(e).__name__}: {str(e)[:160]}')


def _written(ds):
    bio = io.BytesIO()
    ds.save_as(bio)
    return bio.getvalue()


def _special_floats(dt):
    fi = np.finfo(dt)
    return [np.nan, np.inf, -np.inf, -0.0, 0.0, fi.max, fi.min, fi.tiny, fi.eps, float(np.nextafter(dt(0), dt(1))), 1.5, -2.25]


def _pm_array(ctx, idx, r, dtype, shape):
    nr = ctx.np_rng('pmpix', idx)
    if dtype in ('float32', 'float64'):
        dt = np.dtype(dtype).type
        a = nr.standard_normal(shape).astype(dtype) * dt(10 ** r.choice([0, 3, 20]))
        sp = _special_floats(dt)
        flat = a.reshape(-1)
        for k in range(min(flat.size, r.randint(0, 6))):
            flat[r.randrange(flat.size)] = dt(r.choice(sp))
        if r.random() < 0.2 and flat.size:
            # a NaN with a payload
            bits = np.array([0x7fc00001 if dtype == 'float32' else 0x7ff8000000000123], dtype='<u4' if dtype == 'float32' else '<u8')
            flat[r.randrange(flat.size)] = bits.view(dtype)[0]
        return flat.reshape(shape)
    info = np.iinfo(dtype)
    hi = int(info.max)
    mode = r.choice(['full', 'full', 'small', 'zero'])
    if mode == 'zero':
        a = np.zeros(shape, dtype=dtype)
    else:
        a = nr.integers(0, hi if mode == 'full' else min(hi, 40), size=shape, endpoint=True).astype(dtype)
    if a.size >= 2 and mode == 'full':
        a.flat[0] = hi
        a.flat[-1] = 0
    return a


def _layout(a, layout):
    if layout == 'fortran':
        return np.asfortranarray(a)
    if layout == 'view':
        big = np.zeros(tuple(2 * s for s in a.shape), dtype=a.dtype)
        sl = tuple(slice(1, None, 2) for _ in a.shape)
        big[sl] = a
        return big[sl]
    if layout == 'bigendian' and a.dtype.itemsize > 1:
        return a.astype(a.dtype.newbyteorder('>'))
    if layout == 'negstride':
        # the same values seen through negative strides along every axis
        rev = tuple(slice(None, None, -1) for _ in a.shape)
        return np.ascontiguousarray(a[rev])[rev]
    if layout == 'readonly':
        b = np.array(a, copy=True)
        b.flags.writeable = False
        return b
    return a


def _dyadic(r, lo=-64, hi=64, den=(1, 2, 4, 8)):
    return r.randint(lo, hi) / r.choice(den)


def _mappings(r, dtype, M, nested, first_lut=False, single_firsts=None, equal_labels=False):
    """-> (mappings argument for the constructor, description list per channel of dicts)"""
    from highdicom.pm import RealWorldValueMapping
    from pydicom.sr.codedict import codes
    units = [codes.UCUM.NoUnits, codes.UCUM.Millimeter, codes.UCUM.Second]
    is_float = dtype.startswith('float')
    hi = 255 if dtype == 'uint8' else 65535
    out, desc = [], []
    for j in range(M):
        ms, ds_ = [], []
        if equal_labels and j > 0:
            n_maps = len(desc[0])         # the channels carry the SAME labels (and units), but different mappings
        else:
            n_maps = r.choice([1, 1, 2, 3])
        for k in range(n_maps):
            label = f'L_{k}' if equal_labels else f'L{j}_{k}'
            unit = units[(k if equal_labels else j + k) % 3]
            if single_firsts is not None and k == 0:
                # a table with ONE entry (first == last): pydicom hands such a table back as a bare number
                first = last = single_firsts[j]
                lut = [_dyadic(r)]
                ms.append(RealWorldValueMapping(label, 'e' + label, unit, (first, last), lut_data=lut))
                ds_.append({'kind': 'lut', 'label': label, 'first': first, 'last': last, 'lut': lut, 'unit': unit.value})
            elif first_lut and k == 0:
                lut = [_dyadic(r) for _ in range(64)]
                ms.append(RealWorldValueMapping(label, 'e' + label, unit, (0, 63), lut_data=lut))
                ds_.append({'kind': 'lut', 'label': label, 'first': 0, 'last': 63, 'lut': lut, 'unit': unit.value})
            elif not is_float and r.random() < 0.35:
                first = r.choice([0, 0, r.randint(0, 20)])
                last = r.choice([hi, hi, r.randint(first, min(hi, first + 300))])
                if last - first > 4000:
                    # keep LUTs small: restrict to a prefix, values above are outside the mapping
                    last = first + r.randint(10, 600)
                lut = [_dyadic(r) for _ in range(last - first + 1)]
                ms.append(RealWorldValueMapping(label, 'e' + label, unit, (first, last), lut_data=lut))
                ds_.append({'kind': 'lut', 'label': label, 'first': first, 'last': last, 'lut': lut, 'unit': unit.value})
            else:
                slope = r.choice([1.0, 1.0, _dyadic(r), _dyadic(r, 1, 32)])
                icpt = r.choice([0.0, 0.0, _dyadic(r)])
                if equal_labels:
                    icpt = float(int(icpt)) + 8.0 * j + 0.5 * k     # equal labels, certainly different mappings
                if is_float:
                    rng = r.choice([(-1e30, 1e30), (-1.0, 1.0), (0.0, 100.0)])
                else:
                    rng = r.choice([(0, hi), (0, hi), (r.randint(0, 10), r.randint(10, hi))])
                ms.append(RealWorldValueMapping(label, 'e' + label, unit, rng, slope=slope, intercept=icpt))
                ds_.append({'kind': 'linear', 'label': label, 'first': rng[0], 'last': rng[1], 'slope': slope, 'intercept': icpt,
                            'unit': unit.value})
        out.append(ms)
        desc.append(ds_)
    return (out if nested else out[0]), desc


def _sources(ctx, idx, r, kind, n, rows, cols):
    """-> (source_images, list of source plane position keys)"""
    from gen.sources import ct_series, enhanced_multiframe, slide_image
    order = list(range(n))
    r.shuffle(order)
    if kind == 'series':
        src = ct_series(n, rows, cols, origin=(r.choice([0.0, -3.5]), r.choice([0.0, 2.0]), r.choice([0.0, 10.0])),
                        slice_spacing=r.choice([1.0, 2.5, -1.5]), order=order)
        pos = [tuple(float(v) for v in s.ImagePositionPatient) for s in src]
        return src, pos, 'PATIENT'
    if kind == 'multiframe':
        mf = enhanced_multiframe(n, rows, cols, slice_spacing=r.choice([1.0, 0.5]), order=order)
        pos = [tuple(float(v) for v in p.PlanePositionSequence[0].ImagePositionPatient) for p in mf.PerFrameFunctionalGroupsSequence]
        return [mf], pos, 'PATIENT'
    if kind in ('slide', 'slide-full'):
        # n tiles of rows x cols out of a grid; TILED_SPARSE carries the positions, TILED_FULL implies them
        gc = r.choice([1, 2, 3]) if kind == 'slide' else r.choice([g for g in (1, 2, 3) if n % g == 0])
        gr = (n + gc - 1) // gc
        omit = [(a, b) for a in range(gr) for b in range(gc)][n:] if kind == 'slide' else []
        ds, _ = slide_image(gr * rows, gc * cols, rows, cols, tiled_full=(kind == 'slide-full'), omit=omit,
                            frame_order=(order if kind == 'slide' and len(order) == gr * gc - len(omit) else None))
        if kind == 'slide':
            pos = [_pos_of_item(it, 'SLIDE') for it in ds.PerFrameFunctionalGroupsSequence]
        else:
            from highdicom.utils import compute_plane_position_slide_per_frame
            pos = [_pos_of_item(type('I', (), {'PlanePositionSlideSequence': p})(), 'SLIDE')
                   for p in compute_plane_position_slide_per_frame(ds)]
        return [ds], pos, 'SLIDE'
    raise ValueError(kind)


def _pos_of_item(item, cs):
    if cs == 'SLIDE':
        p = item.PlanePositionSlideSequence[0]
        return (int(p.ColumnPositionInTotalImagePixelMatrix), int(p.RowPositionInTotalImagePixelMatrix),
                float(p.XOffsetInSlideCoordinateSystem), float(p.YOffsetInSlideCoordinateSystem), float(p.ZOffsetInSlideCoordinateSystem))
    return tuple(float(v) for v in item.PlanePositionSequence[0].ImagePositionPatient)


def _expected_real(plane, m):
    """exact real-world values of an integer plane under mapping description m; None where undefined"""
    v = plane.astype(np.int64)
    if v.min() < m['first'] or v.max() > m['last']:
        return None
    if m['kind'] == 'lut':
        lut = np.array(m['lut'], dtype=np.float64)
        return lut[v - m['first']]
    out = np.empty(v.shape, dtype=np.float64)
    s, c = Fraction(m['slope']), Fraction(m['intercept'])
    for ix in np.ndindex(v.shape):
        out[ix] = float(Fraction(int(v[ix])) * s + c)     # exact: dyadic operands, result fits float64
    return out



def _rat(x):
    f = Fraction(x) if not isinstance(x, Fraction) else x
    return str(f.numerator) if f.denominator == 1 else f'{f.numerator}/{f.denominator}'


def _map_json(m):
    return {'label': m['label'], 'unit': m['unit'], 'isLut': m['kind'] == 'lut', 'first': _rat(m['first']), 'last': _rat(m['last']),
            'slope': _rat(m.get('slope', 0)), 'intercept': _rat(m.get('intercept', 0)), 'lut': [_rat(v) for v in m.get('lut', [])]}


def _pm_request(a, desc, nested, n_lists, pos, n_positions, ts, queries):
    """the model's view of a constructor call: numpy facts of the array, its cells in C order of the normalised
    (n, rows*cols, m) array, the mapping lists, the plane positions"""
    nd = a.ndim
    if nd == 2:
        n, r, c, m = 1, a.shape[0], a.shape[1], 1
    elif nd == 3:
        n, r, c, m = a.shape[0], a.shape[1], a.shape[2], 1
    elif nd == 4:
        n, r, c, m = a.shape
    else:
        n, r, c, m = 0, 0, 0, 0
    cells = []
    if nd in (2, 3, 4) and a.dtype.kind in 'biufc' and a.size <= 6000:
        le = np.ascontiguousarray(a).astype(a.dtype.newbyteorder('<')).reshape(-1)
        raw = le.tobytes()
        k = a.dtype.itemsize
        cells = [list(raw[i * k:(i + 1) * k]) for i in range(le.size)]
    return ('pm', {'kind': a.dtype.kind, 'name': a.dtype.name, 'dtype': str(a.dtype), 'itemsize': a.dtype.itemsize, 'ndim': nd,
                   'n': n, 'r': r, 'c': c, 'm': m, 'cells': cells, 'nested': nested, 'nMappingLists': n_lists,
                   'maps': [[_map_json(mm) for mm in ch] for ch in desc], 'nPositions': n_positions,
                   'pos': [_pos_components(p) for p in pos], 'ts': ts, 'queries': queries})


def _pos_components(p):
    """patient: one vector-valued index (x, y, z); slide: five scalar indices (col, row, x, y, z)"""
    return [[_rat(v) for v in p]] if len(p) == 3 else [[_rat(v)] for v in p]


def _expected_div(pos, i):
    """Dimension Index Values written for plane i: rank among the distinct values, per indexed attribute"""
    if len(pos[i]) == 3:
        return [sorted(set(pos)).index(pos[i]) + 1]
    return [sorted({p[d] for p in pos}).index(pos[i][d]) + 1 for d in range(len(pos[i]))]


def _sel_json(sel):
    if isinstance(sel, int):
        return {'index': sel}
    if isinstance(sel, str):
        return {'label': sel}
    return {'unit': sel.value}

# ------------------------------------------------------------------ parametric maps
def _is_single(m):
    return m['kind'] == 'lut' and len(m['lut']) == 1


def _pm_case(ctx, idx):
    r = ctx.rng('pm', idx)
    dtype = r.choice(['uint8', 'uint16', 'uint16', 'float32', 'float64'])
    kind = r.choice(['series', 'series', 'multiframe', 'slide', 'slide-full'])
    ndim = r.choice([2, 3, 3, 4, 4, 4])
    n = 1 if ndim == 2 else r.choice([1, 2, 3, 3, 4, 5])
    M = r.choice([1, 2, 2, 3]) if ndim == 4 else 1
    ts = r.choice([EXPLICIT, EXPLICIT, IMPLICIT])
    if not dtype.startswith('float') and r.random() < 0.4:
        ts = r.choice([RLE, JLS])
        if ctx.rng('pm-j2k', idx).random() < 0.12:
            # admitted by the constructor (Gen.pmSyntaxAdmitted); no encoder is installed here, so the codec gives up
            ts = J2KL
    rows, cols = (r.randint(1, 7), r.randint(1, 7)) if r.random() < 0.8 else (r.randint(1, 20), r.randint(1, 20))
    if ts == JLS:
        rows, cols = max(rows, 8) + r.randint(0, 4), max(cols, 8) + r.randint(0, 4)
    if ts == J2KL:
        rows, cols = 32 + r.randint(0, 3), 32 + r.randint(0, 3)
    shape = {2: (rows, cols), 3: (n, rows, cols), 4: (n, rows, cols, M)}[ndim]
    layout = r.choice(['c', 'c', 'c', 'fortran', 'view', 'bigendian'])
    rl = ctx.rng('pm-layout2', idx).random()       # further memory layouts (guide 3a), drawn from their own stream
    if rl < 0.12:
        layout = 'negstride'
    elif rl < 0.24:
        layout = 'readonly'
    explicit_pos = r.random() < 0.3
    profile = 'general'
    if not dtype.startswith('float') and r.random() < 0.3:
        # every channel's FIRST mapping is a look-up table covering all values present, each channel its own table:
        # the input class on which a batch read must switch tables between frames
        profile, ndim, M = 'lut-per-channel', 4, r.choice([2, 2, 3])
        n = r.choice([1, 2, 3])
        shape = (n, rows, cols, M)
    elif not dtype.startswith('float') and ctx.rng('pm-profile', idx).random() < 0.07:
        # every channel's first mapping is a one-entry table and the channel's planes hold exactly that value (one pixel
        # of the last plane may lie outside: that frame must be refused)
        profile = 'lut-single'
    # several channels whose mappings carry the SAME labels (the library's own tests label everything '1') but differ in
    # slope / intercept / table: what is attached to a frame must be the mappings of ITS channel, not "the" mappings of a label
    equal_labels = M >= 2 and ctx.rng('pm-eqlabel', idx).random() < 0.6
    d = {'idx': idx, 'dtype': dtype, 'source': kind, 'ndim': ndim, 'N': n, 'M': M, 'ts': ts, 'rows': rows, 'cols': cols,
         'layout': layout, 'explicit_pos': explicit_pos, 'profile': profile, 'equal_labels': equal_labels}
    return d, r, shape


def _build_pm(ctx, d, r, shape):
    import highdicom as hd
    from highdicom.pm import ParametricMap
    a = _pm_array(ctx, d['idx'], r, d['dtype'], shape)
    if d.get('profile') == 'lut-per-channel':
        a = (a % 48).astype(a.dtype)
    single_firsts = None
    if d.get('profile') == 'lut-single':
        r2 = ctx.rng('pm-single', d['idx'])
        single_firsts = [r2.randint(0, 20) for _ in range(d['M'])]
        a = a.copy()
        for j, v in enumerate(single_firsts):
            if a.ndim == 4:
                a[..., j] = v
            else:
                a[...] = v
        if r2.random() < 0.3:
            a.reshape(-1)[-1] += 1
    a = _layout(a, d['layout'])
    maps, desc = _mappings(r, d['dtype'], d['M'], nested=(d['ndim'] == 4), first_lut=(d.get('profile') == 'lut-per-channel'),
                           single_firsts=single_firsts, equal_labels=d.get('equal_labels', False))
    src, src_pos, cs = _sources(ctx, d['idx'], r, d['source'], d['N'], d['rows'], d['cols'])
    kw = {}
    pos = src_pos
    if cs == 'SLIDE' and d['explicit_pos']:
        cols_, rows_ = d['cols'], d['rows']
        cells_ = r.sample([(a, b) for a in range(4) for b in range(4)], d['N'])
        pos = [(b * cols_ + 1, a * rows_ + 1, 10.0 - 0.5 * a * rows_, 20.0 - 0.5 * b * cols_, 0.0) for a, b in cells_]
        kw['plane_positions'] = [hd.PlanePositionSequence('SLIDE', image_position=p[2:], pixel_matrix_position=p[:2]) for p in pos]
    elif d['explicit_pos']:
        zs = r.sample(range(-5, 12), d['N'])
        pos = [(1.0, -2.0, float(z)) for z in zs]
        if r.random() < 0.3:
            pos = [(float(z), 0.0, 0.0) for z in zs]     # positions that differ in x only
        kw['plane_positions'] = [hd.PlanePositionSequence('PATIENT', list(p)) for p in pos]
    if r.random() < 0.25:
        # the source's own orientation / measures given explicitly: must change nothing
        if cs == 'SLIDE':
            kw['plane_orientation'] = hd.PlaneOrientationSequence('SLIDE', [float(v) for v in src[0].ImageOrientationSlide])
        else:
            kw['plane_orientation'] = hd.PlaneOrientationSequence('PATIENT', [1.0, 0.0, 0.0, 0.0, 1.0, 0.0])
    # SPELLING of the enum-valued arguments (str or enum member), a function of the case index
    from highdicom.pm import DerivedPixelContrastValues, ImageFlavorValues
    sp = d['idx'] % 4
    if sp in (1, 3):
        kw['content_qualification'] = [hd.ContentQualificationValues.RESEARCH, 'SERVICE'][sp // 2]
    if sp in (2, 3):
        kw['image_flavor'] = [ImageFlavorValues.VOLUME, 'WHOLE_BODY'][d['idx'] // 4 % 2]
        kw['derived_pixel_contrast'] = ['QUANTITY', DerivedPixelContrastValues.QUANTITY][d['idx'] // 4 % 2]
    before = np.ascontiguousarray(a).tobytes()
    st, pm = _try(ParametricMap, src, a, hd.UID(), 1, hd.UID(), 1, 'm', 'mm', '1', 'sn', False, maps,
                  r.choice([0.5, 128.0]), r.choice([1.0, 256.0]), transfer_syntax_uid=d['ts'], **kw)
    if np.ascontiguousarray(a).tobytes() != before:
        ctx.fail(dict(d, kind='pm'), 'the constructor modified the array it was given', site='pm-input-modified')
    return a, desc, pos, cs, st, pm


def _check_pm(ctx, idx, reqs, pending):
    import highdicom as hd
    import pydicom
    from pydicom.sr.coding import Code
    d, r, shape = _pm_case(ctx, idx)
    a, desc, pos, cs, st, pm = _build_pm(ctx, d, r, shape)
    N, M, rows, cols = d['N'], d['M'], d['rows'], d['cols']
    is_float = d['dtype'].startswith('float')
    big = d['layout'] == 'bigendian' and a.dtype.itemsize > 1
    case = dict(d, kind='pm')
    nested = d['ndim'] == 4
    # ---- refusal expectations written from the docstring: '>u2' is not np.uint16 (refused), float byte order is accepted
    must_refuse = big and not is_float
    if st != 'ok':
        ctx.case(kind='pm', outcome='refused', dtype=d['dtype'], layout=d['layout'], syntax=TSNAME[d['ts']])
        if d['ts'] in (JLS, RLE) and 'Unable to encode' in pm:
            ctx.hist('pm_codec_limit', TSNAME[d['ts']])          # the codec gave up on this frame: a refusal, not a defect
        elif d['ts'] == J2KL and not must_refuse and ('plugins are missing' in pm or 'Unable to' in pm):
            # admitted by the constructor's own checks (it got as far as the encoder); no JPEG 2000 encoder installed
            ctx.hist('pm_codec_limit', TSNAME[d['ts']] + ' (no encoder installed)')
        else:
            if not must_refuse:
                ctx.fail(case, f'valid parametric map refused: {pm}', site='pm-construct')
            reqs.append(_pm_request(a, desc, nested, len(desc), pos, len(pos), d['ts'], []))
            pending.append((case, 'pm', 'err'))
        return
    if must_refuse:
        ctx.fail(case, 'array with non-native unsigned dtype accepted', site='pm-construct')
    a4 = a.reshape((1,) + a.shape + (1,)) if a.ndim == 2 else (a[..., None] if a.ndim == 3 else a)
    planes = [np.ascontiguousarray(a4[i, :, :, j]) for i in range(N) for j in range(M)]
    want = np.stack(planes)
    nontriv = None
    first_item = want.astype(want.dtype.newbyteorder('<')).reshape(-1)[:1].tobytes()
    if want.size > 1 and want.astype(want.dtype.newbyteorder('<')).tobytes() != first_item * want.size:
        nontriv = (d['dtype'], d['source'], N, M, d['ts'], d['layout'])
    F = N * M

    def obs(path, ok, detail=None, frame=None, single_lut=False, **h):
        ctx.case(sample=dict(case, path=path) if ctx.evaluations % 389 == 0 else None,
                 nontrivial_key=(nontriv + (path,)) if (nontriv and ok) else None,
                 kind='pm', path=path, dtype=d['dtype'], syntax=TSNAME[d['ts']], source=d['source'], N=N, M=M,
                 layout=d['layout'], outcome='ok' if ok else 'FAIL', **h)
        if not ok:
            # the open finding C19-float-frames-unreadable fails on every frame of every float map: report the first
            # 60 such observations as failures (attributed), count the rest -- so that they cannot crowd other
            # failures out of the framework's failure list
            if is_float and isinstance(detail, str) and detail.startswith('AttributeError') \
                    and ('PixelData' in detail or 'PixelRepresentation' in detail):
                ctx._c19_float_errors = getattr(ctx, '_c19_float_errors', 0) + 1
                if ctx._c19_float_errors > 60:
                    ctx.hist('float_unreadable', path)
                    return
            ctx.fail(dict(case, path=path, frame=frame, **({'single_lut': True} if single_lut else {}),
                          **({'history': h['history']} if 'history' in h else {})),
                     detail or 'differs from the input plane', site=path)

    # ---- L1: the data set itself
    elem = {'uint8': 'PixelData', 'uint16': 'PixelData', 'float32': 'FloatPixelData', 'float64': 'DoubleFloatPixelData'}[d['dtype']]
    present = [k for k in ('PixelData', 'FloatPixelData', 'DoubleFloatPixelData') if k in pm]
    obs('element', present == [elem], f'pixel data elements present: {present}, expected only {elem}')
    bits = {'uint8': 8, 'uint16': 16, 'float32': 32, 'float64': 64}[d['dtype']]
    obs('bits', int(pm.BitsAllocated) == bits and int(pm.NumberOfFrames) == F and (int(pm.Rows), int(pm.Columns)) == (rows, cols),
        f'BitsAllocated {pm.BitsAllocated} NumberOfFrames {pm.NumberOfFrames} Rows {pm.Rows} Columns {pm.Columns}; '
        f'expected {bits} {F} {rows} {cols}')
    impl = {'element': present[0] if present else None, 'ba': int(pm.BitsAllocated), 'bs': int(pm.get('BitsStored', -1)),
            'hb': int(pm.get('HighBit', -1)), 'pr': int(pm.get('PixelRepresentation', -1)), 'rows': int(pm.Rows), 'cols': int(pm.Columns),
            'frames': int(pm.NumberOfFrames), 'pixelData': None, 'perFrame': [], 'answers': []}
    if d['ts'] in NATIVE and elem in pm:
        raw = bytes(getattr(pm, elem))
        exp = want.astype(want.dtype.newbyteorder('<')).tobytes()
        obs('stored-bytes', raw[:len(exp)] == exp and len(raw) in (len(exp), len(exp) + 1),
            'pixel data element is not the concatenation of the planes in frame order (little endian)')
        impl['pixelData'] = list(raw[:len(exp)]) if len(raw) in (len(exp), len(exp) + 1) else list(raw)
    # per-frame metadata in frame order
    pffg = pm.PerFrameFunctionalGroupsSequence
    shared = pm.SharedFunctionalGroupsSequence[0]
    uniq = sorted(set(pos))
    sh_labels = [m.LUTLabel for m in shared.RealWorldValueMappingSequence] if 'RealWorldValueMappingSequence' in shared else None
    impl['shared'] = sh_labels
    for f in range(F):
        i, j = divmod(f, M)
        item = pffg[f]
        okp = _pos_of_item(item, cs) == tuple(pos[i])
        div = item.FrameContentSequence[0].DimensionIndexValues
        div = [int(div)] if not hasattr(div, '__len__') else [int(x) for x in div]
        okd = div == _expected_div(pos, i)
        labels = [m.LUTLabel for m in item.RealWorldValueMappingSequence] if 'RealWorldValueMappingSequence' in item else None
        want_labels = [m['label'] for m in desc[j]]
        okm = (labels is None and sh_labels == want_labels) if M == 1 else (labels == want_labels and sh_labels is None)
        obs('per-frame-position', okp, f'frame {f + 1}: plane position {_pos_of_item(item, cs)}, expected that of plane {i}: {pos[i]}', f)
        obs('per-frame-dimension-index', okd, f'frame {f + 1}: DimensionIndexValues {div}, expected {_expected_div(pos, i)}', f)
        obs('per-frame-mapping', okm, f'frame {f + 1}: mappings per-frame {labels} shared {sh_labels}, expected {want_labels} '
            f'({"shared" if M == 1 else "per frame"})', f)
        impl['perFrame'].append({'pos': _pos_components(_pos_of_item(item, cs)), 'div': div, 'maps': labels})
    queries = []
    # ---- file round trip
    stw, blob = _try(_written, pm)
    if stw != 'ok':
        obs('write', False, f'cannot be written: {blob}')
        return
    stp, back = _try(lambda: pydicom.dcmread(io.BytesIO(blob)).pixel_array)
    obs('pydicom', stp == 'ok' and _raw_equal(_as_shape(back, want.shape), want),
        f'pydicom pixel_array after a file round trip: {back if stp != "ok" else "differs from the input planes"}')
    # ---- the image interface
    for lazy in (False, True):
        tag = 'lazy' if lazy else 'eager'
        sto, im = _try(hd.imread, io.BytesIO(blob), lazy_frame_retrieval=lazy)
        if sto != 'ok':
            obs(f'{tag}/open', False, f'imread fails: {im}')
            continue
        for f in list(range(F)) + [F]:
            s1, v = _try(im.get_stored_frame, f + 1)
            if f < F:
                obs(f'{tag}/get_stored_frame', s1 == 'ok' and _raw_equal(v, planes[f]), v if s1 != 'ok' else None, f, float=is_float)
            elif s1 == 'ok':
                obs(f'{tag}/get_stored_frame', False, 'frame number beyond the image accepted', f)
            if not lazy and d['ts'] in NATIVE:
                queries.append({'q': 'stored', 'f': f})
                impl['answers'].append(list(np.ascontiguousarray(v).astype(v.dtype.newbyteorder('<')).tobytes()) if s1 == 'ok' else 'err')
        sel = [r.randrange(F) for _ in range(r.randint(1, 4))]
        s2, v = _try(im.get_stored_frames, [s + 1 for s in sel])
        obs(f'{tag}/get_stored_frames', s2 == 'ok' and _raw_equal(v, want[sel]), v if s2 != 'ok' else None, sel, float=is_float)
        s3, v = _try(im.get_stored_frames)
        obs(f'{tag}/get_stored_frames-all', s3 == 'ok' and _raw_equal(v, want), v if s3 != 'ok' else None, None, float=is_float)
        s4, v = _try(lambda: im.pixel_array)
        obs(f'{tag}/pixel_array', s4 == 'ok' and _raw_equal(_as_shape(v, want.shape), want), v if s4 != 'ok' else None, None,
            float=is_float)
        # the same reads AGAIN on the same object, which now holds the decoded pixel array: what a read returns must not
        # depend on what was read before (single-frame maps included: a map built from a 2-D array has one frame)
        def shp(s_, v_):
            return v_ if s_ != 'ok' else f'shape {np.asarray(v_).shape} / values differ after pixel_array was read'
        s2, v = _try(im.get_stored_frames, [s + 1 for s in sel])
        obs(f'{tag}/reread-get_stored_frames', s2 == 'ok' and _raw_equal(v, want[sel]), shp(s2, v), sel, float=is_float, frames=F)
        s3, v = _try(im.get_stored_frames)
        obs(f'{tag}/reread-get_stored_frames-all', s3 == 'ok' and _raw_equal(v, want), shp(s3, v), None, float=is_float, frames=F)
        for f in sorted({0, F - 1}):
            s1, v = _try(im.get_stored_frame, f + 1)
            obs(f'{tag}/reread-get_stored_frame', s1 == 'ok' and _raw_equal(v, planes[f]), shp(s1, v), f, float=is_float, frames=F)
        if not is_float:
            s9, v = _try(im.get_frames, [s + 1 for s in sel], apply_real_world_transform=False, apply_modality_transform=False,
                         apply_voi_transform=False, apply_presentation_lut=False, dtype=want.dtype)
            obs(f'{tag}/reread-get_frames', s9 == 'ok' and _raw_equal(v, want[sel]), shp(s9, v), sel, frames=F)
        # real-world value mapping attached to the frame
        for f in range(F):
            i, j = divmod(f, M)
            for k, m in enumerate(desc[j]):
                selector = r.choice([k, k - len(desc[j]), m['label'], Code(m['unit'], 'UCUM', m['unit'])])
                # selecting by unit finds the FIRST mapping with that unit
                target = m
                if isinstance(selector, Code):
                    target = next(mm for mm in desc[j] if mm['unit'] == m['unit'])
                s5, v = _try(im.get_frame, f + 1, apply_real_world_transform=True, real_world_value_map_selector=selector)
                if is_float:
                    x = planes[f].astype(np.float64)
                    inside = bool(np.all(np.isfinite(x)) and x.min() >= target['first'] and x.max() <= target['last'])
                    exp = (x * target['slope'] + target['intercept']) if inside else None
                else:
                    exp = _expected_real(planes[f], target)
                if exp is None:
                    # undefined outside the mapped range: a refusal is the expected outcome
                    ctx.case(kind='pm', path=f'{tag}/rwvm-outside', outcome='refused' if s5 != 'ok' else 'values', mapping=m['kind'])
                    if s5 == 'ok' and not is_float:
                        obs(f'{tag}/rwvm-outside', False, 'values outside the mapped range were mapped silently', f, mapping=m['kind'])
                else:
                    good = s5 == 'ok' and np.asarray(v).shape == exp.shape and bool(np.array_equal(np.asarray(v, dtype=np.float64), exp))
                    obs(f'{tag}/rwvm', good, (v if s5 != 'ok' else {'what': 'real-world values differ from mapping %s of channel %d' % (target['label'], j),
                                                                      'got': np.asarray(v, dtype=np.float64).reshape(-1)[:8].tolist(),
                                                                      'want': exp.reshape(-1)[:8].tolist()}), f, float=is_float, mapping=m['kind'],
                        single_lut=_is_single(target))
                # the same frame addressed by its 0-based INDEX: same stored values, same (its own channel's) mapping
                s5i, vi = _try(im.get_frame, f, as_index=True, apply_real_world_transform=True, real_world_value_map_selector=selector)
                if exp is None:
                    if s5i == 'ok' and not is_float:
                        obs(f'{tag}/rwvm-as-index', False, 'values outside the mapped range were mapped silently (as_index=True)', f,
                            mapping=m['kind'])
                else:
                    good = s5i == 'ok' and np.asarray(vi).shape == exp.shape and bool(np.array_equal(np.asarray(vi, dtype=np.float64), exp))
                    obs(f'{tag}/rwvm-as-index', good,
                        (vi if s5i != 'ok' else {'what': 'get_frame(index, as_index=True) with the real-world transform differs from '
                                                          'mapping %s of channel %d' % (target['label'], j),
                                                 'got': np.asarray(vi, dtype=np.float64).reshape(-1)[:8].tolist(),
                                                 'want': exp.reshape(-1)[:8].tolist()}), f, float=is_float, mapping=m['kind'],
                        single_lut=_is_single(target))
                if not lazy and d['ts'] in NATIVE and not is_float:
                    queries.append(dict({'q': 'real', 'f': f}, **_sel_json(selector)))
                    impl['answers'].append([_rat(float(t)) for t in np.asarray(v, dtype=np.float64).reshape(-1)] if s5 == 'ok' else 'err')
            if not lazy and d['ts'] in NATIVE and not is_float and r.random() < 0.3:
                bad = r.choice([len(desc[j]), -len(desc[j]) - 1, 'nolabel'])
                s7, v = _try(im.get_frame, f + 1, apply_real_world_transform=True, real_world_value_map_selector=bad)
                queries.append(dict({'q': 'real', 'f': f}, **_sel_json(bad)))
                impl['answers'].append('err' if s7 != 'ok' else 'values')
        # batches with the real-world transform: every frame must get the mapping attached to IT (index 0 / label of
        # the first mapping of its channel), also when the frames of one call belong to different channels
        if not is_float and F >= 2:
            for sel_kind in ('index', 'all'):
                fs = list(range(F)) if sel_kind == 'all' else [r.randrange(F) for _ in range(r.randint(2, 5))]
                exps = [_expected_real(planes[f], desc[f % M][0]) for f in fs]
                s8, v = _try(im.get_frames, [f + 1 for f in fs], apply_real_world_transform=True, real_world_value_map_selector=0)
                if any(e is None for e in exps):
                    ctx.case(kind='pm', path=f'{tag}/rwvm-batch-outside', outcome='refused' if s8 != 'ok' else 'values')
                    if s8 == 'ok':
                        obs(f'{tag}/rwvm-batch', False, 'a batch containing values outside a mapped range was mapped silently', fs)
                else:
                    want_b = np.stack(exps)
                    good = s8 == 'ok' and np.asarray(v).shape == want_b.shape and bool(np.array_equal(np.asarray(v, dtype=np.float64), want_b))
                    obs(f'{tag}/rwvm-batch', good,
                        v if s8 != 'ok' else {'what': 'batch of real-world frames differs from the per-frame mappings', 'frames': fs,
                                              'got': np.asarray(v, dtype=np.float64).reshape(-1)[:8].tolist(),
                                              'want': want_b.reshape(-1)[:8].tolist()}, fs, mapping='/'.join(sorted({desc[f % M][0]['kind'] for f in fs})),
                        single_lut=any(_is_single(desc[f % M][0]) for f in fs))
        # batches of ONE channel's frames (for j >= 1 they do not contain frame 1) with selectors valid for THAT channel's mappings
        # (index, negative index, label, unit; the channels may carry different labels and different NUMBERS of mappings): every
        # returned frame is the stored frame under the mapping attached to that frame -- no other frame's mappings matter
        if not is_float and M >= 2:
            for j in range(M):
                fs = [f for f in range(F) if f % M == j]
                if len(fs) > 1 and r.random() < 0.5:
                    fs = fs[::-1]
                for k, m in enumerate(desc[j]):
                    for selector in (k, k - len(desc[j]), m['label'], Code(m['unit'], 'UCUM', m['unit'])):
                        target = m
                        if isinstance(selector, Code):
                            target = next(mm for mm in desc[j] if mm['unit'] == m['unit'])
                        exps = [_expected_real(planes[f], target) for f in fs]
                        for spell_idx in (False, True):
                            keys = [f if spell_idx else f + 1 for f in fs]
                            s11, v = _try(im.get_frames, keys, as_indices=spell_idx, apply_real_world_transform=True,
                                          real_world_value_map_selector=selector)
                            skind = type(selector).__name__ + ('-' if isinstance(selector, int) and selector < 0 else '')
                            if any(e is None for e in exps):
                                ctx.case(kind='pm', path=f'{tag}/rwvm-channel-batch-outside', outcome='refused' if s11 != 'ok' else 'values')
                                if s11 == 'ok':
                                    obs(f'{tag}/rwvm-channel-batch', False, 'a batch with values outside the mapped range was mapped silently', fs)
                                continue
                            want_b = np.stack(exps)
                            good = s11 == 'ok' and np.asarray(v).shape == want_b.shape and \
                                bool(np.array_equal(np.asarray(v, dtype=np.float64), want_b))
                            obs(f'{tag}/rwvm-channel-batch', good,
                                v if s11 != 'ok' else {'what': 'batch of one channel differs from the mapping attached to its frames',
                                                       'frames': fs, 'got': np.asarray(v, dtype=np.float64).reshape(-1)[:8].tolist(),
                                                       'want': want_b.reshape(-1)[:8].tolist()},
                                fs, mapping=m['kind'], selector=skind, channel=('first' if j == 0 else 'later'),
                                single_lut=_is_single(target))
        # several channels: every position carries several frames -> no volume (refused; the model refuses as well)
        if cs == 'PATIENT' and M >= 2 and not lazy and d['ts'] in NATIVE and not is_float:
            s6m, volm = _try(im.get_volume, dtype=np.float64, apply_real_world_transform=False, apply_modality_transform=False,
                             apply_voi_transform=False, apply_presentation_lut=False, allow_missing_positions=True)
            ctx.case(kind='pm', path=f'{tag}/get_volume-channels', outcome='refused' if s6m != 'ok' else 'volume')
            if s6m == 'ok':
                obs(f'{tag}/get_volume-channels', False, 'a map with several frames per position was assembled into one volume', None)
            sh0 = pm.SharedFunctionalGroupsSequence[0]
            if 'PlaneOrientationSequence' in sh0:
                queries.append({'q': 'volume', 'f': 0, 'cached': True, 'allow_missing': True, 'hint': None,
                                'ori': [_rat(float(v)) for v in sh0.PlaneOrientationSequence[0].ImageOrientationPatient]})
                impl['answers'].append('err' if s6m != 'ok' else 'values')
        # volume (one mapping per position, distinct positions along one direction)
        if cs == 'PATIENT' and M == 1 and N >= 2 and not (d['explicit_pos'] and len({p[:2] for p in pos}) > 1):
            s6, vol = _try(im.get_volume, dtype=np.float64, apply_real_world_transform=False, apply_modality_transform=False,
                           apply_voi_transform=False, apply_presentation_lut=False, allow_missing_positions=True)
            # ---- model (L0): `Model/PMapVolume.getVolume` = C11's stack assembly on the planes' positions + C05's frame fetch; the
            # slices of the volume against the model's, from the cache (this object has decoded its pixel array) and on a fresh object
            if not lazy and d['ts'] in NATIVE and not is_float:
                sh0 = pm.SharedFunctionalGroupsSequence[0]
                ori_ = [float(v) for v in sh0.PlaneOrientationSequence[0].ImageOrientationPatient]
                sbs_ = sh0.PixelMeasuresSequence[0].get('SpacingBetweenSlices') if 'PixelMeasuresSequence' in sh0 else None
                for cached_ in (True, False):
                    if cached_:
                        sv, vv = s6, vol
                    else:
                        stf, imf = _try(hd.imread, io.BytesIO(blob))
                        if stf != 'ok':
                            continue
                        sv, vv = _try(imf.get_volume, dtype=np.float64, apply_real_world_transform=False, apply_modality_transform=False,
                                      apply_voi_transform=False, apply_presentation_lut=False, allow_missing_positions=True)
                    queries.append({'q': 'volume', 'f': 0, 'cached': cached_, 'ori': [_rat(v) for v in ori_],
                                    'hint': None if sbs_ is None else _rat(float(sbs_)), 'allow_missing': True})
                    if sv != 'ok':
                        impl['answers'].append('err')
                    else:
                        arrv = np.asarray(vv.array)
                        impl['answers'].append({'volume': [[int(t) for t in sl.reshape(-1)] for sl in arrv]})
                    ctx.hist('volume_model', ('cached' if cached_ else 'fresh') + ('/ok' if sv == 'ok' else '/refused'))
            if s6 != 'ok':
                irregular = 'regular' in str(vol) or 'spacing' in str(vol).lower() or 'volume' in str(vol).lower()
                if irregular and not str(vol).startswith('AttributeError'):
                    ctx.hist('volume', 'not a regular volume')
                else:
                    obs(f'{tag}/get_volume', False, vol, None, float=is_float)
            else:
                arr = np.asarray(vol.array)
                vpos = [tuple(round(float(x), 6) for x in p[0].ImagePositionPatient) for p in vol.get_plane_positions()]
                okv = arr.shape[0] >= N
                for i in range(N):
                    key = tuple(round(float(x), 6) for x in pos[i])
                    if key not in vpos:
                        okv = False
                        break
                    sl = arr[vpos.index(key)]
                    okv = okv and bool(np.array_equal(sl, planes[i].astype(np.float64), equal_nan=True))
                obs(f'{tag}/get_volume', okv, 'volume slices differ from the planes at the same position', None, float=is_float)
                # the volume with the real-world transform, for EVERY mapping of the channel and every spelling of the selector
                # (index, negative index, label, unit): the selector must reach the transform as it does through get_frame(s)
                if okv and not is_float:
                    for k, m in enumerate(desc[0]):
                        for selector in (k, k - len(desc[0]), m['label'], Code(m['unit'], 'UCUM', m['unit'])):
                            target = m
                            if isinstance(selector, Code):
                                target = next(mm for mm in desc[0] if mm['unit'] == m['unit'])
                            exps = [_expected_real(planes[i], target) for i in range(N)]
                            s10, vol2 = _try(im.get_volume, dtype=np.float64, apply_real_world_transform=True,
                                             real_world_value_map_selector=selector, allow_missing_positions=True)
                            skind = type(selector).__name__ + ('-' if isinstance(selector, int) and selector < 0 else '')
                            # model (L0): `getVolumeReal` -- every slice under the mapping selected from ITS frame's mappings
                            if not lazy and d['ts'] in NATIVE:
                                sh0 = pm.SharedFunctionalGroupsSequence[0]
                                sbs_ = sh0.PixelMeasuresSequence[0].get('SpacingBetweenSlices') if 'PixelMeasuresSequence' in sh0 else None
                                queries.append({'q': 'volume', 'f': 0, 'cached': True, 'allow_missing': True, 'sel': _sel_json(selector),
                                                'hint': None if sbs_ is None else _rat(float(sbs_)),
                                                'ori': [_rat(float(v)) for v in sh0.PlaneOrientationSequence[0].ImageOrientationPatient]})
                                impl['answers'].append('err' if s10 != 'ok' else
                                                       {'volume': [[_rat(float(t)) for t in sl.reshape(-1)] for sl in np.asarray(vol2.array)],
                                                        'blank': '0'})
                                ctx.hist('volume_model', 'real-world/' + ('ok' if s10 == 'ok' else 'refused'))
                            if any(e is None for e in exps):
                                ctx.case(kind='pm', path=f'{tag}/rwvm-volume-outside', outcome='refused' if s10 != 'ok' else 'values')
                                if s10 == 'ok':
                                    obs(f'{tag}/rwvm-volume', False, 'a volume with values outside the mapped range was mapped silently', None)
                                continue
                            good = s10 == 'ok'
                            if good:
                                arr2 = np.asarray(vol2.array)
                                vpos2 = [tuple(round(float(x), 6) for x in p_[0].ImagePositionPatient) for p_ in vol2.get_plane_positions()]
                                for i in range(N):
                                    key = tuple(round(float(x), 6) for x in pos[i])
                                    good = good and key in vpos2 and bool(np.array_equal(arr2[vpos2.index(key)], exps[i]))
                            obs(f'{tag}/rwvm-volume', good,
                                vol2 if s10 != 'ok' else f'get_volume with selector {selector!r} differs from mapping {target["label"]} '
                                                          f'(the channel has {len(desc[0])} mappings)',
                                None, mapping=m['kind'], selector=skind, single_lut=_is_single(target))
    # ---- HISTORIES on one object: a drawn sequence of get_stored_frame / get_stored_frames / pixel_array / get_frame(real-world)
    # calls -- in range and beyond, by number and by index -- on ONE freshly opened image (in memory, lazily): every read must
    # return the stored plane (resp. the plane under the selected mapping of its channel) whatever was called before.  The same
    # sequence runs through the model's state machine (`Model/PMapRead.run`, L0): float maps follow the open finding there
    # (what a read returns depends on whether `pixel_array` was touched).
    if d['ts'] in NATIVE and (ctx.tier != 'thorough' or idx % 4 == 0):
        rh = ctx.rng('pm-history', idx)
        for lazy in (False, True):
            tag = 'lazy' if lazy else 'eager'
            sto, im = _try(hd.imread, io.BytesIO(blob), lazy_frame_retrieval=lazy)
            if sto != 'ok':
                continue
            ops, got = [], []
            touched = False
            for _step in range(rh.randint(5, 9)):
                kind = rh.choice(['stored', 'stored', 'storedBatch', 'pixelArray', 'real'])
                f = F if rh.random() < 0.12 else rh.randrange(F)
                ai = rh.random() < 0.5
                key = f if ai else f + 1
                if rh.random() < 0.3:
                    key = np.int64(key)
                state = 'after pixel_array' if touched else 'fresh'
                if kind == 'pixelArray':
                    s1, v = _try(lambda: im.pixel_array)
                    ops.append({'op': 'pixelArray'})
                    got.append('done' if s1 == 'ok' else 'err')
                    if s1 == 'ok':
                        touched = True
                        obs(f'{tag}/history-pixel_array', _raw_equal(_as_shape(v, want.shape), want), None, None, float=is_float, history=state)
                    else:
                        obs(f'{tag}/history-pixel_array', False, v, None, float=is_float, history=state)
                    continue
                if kind in ('stored', 'storedBatch'):
                    if kind == 'stored':
                        s1, v = _try(im.get_stored_frame, key, as_index=ai)
                    else:
                        s1, v = _try(im.get_stored_frames, [key], as_indices=ai)
                        if s1 == 'ok':
                            v = np.asarray(v)[0]
                    ops.append({'op': kind, 'f': f, 'ai': ai})
                    got.append(list(np.ascontiguousarray(v).astype(v.dtype.newbyteorder('<')).tobytes()) if s1 == 'ok' else 'err')
                    if s1 == 'ok' and isinstance(v, np.ndarray) and f < F:
                        good_ = _raw_equal(v, planes[f])
                        # the caller owns what a read returns: overwrite it in place (as windowing / masking code does); later
                        # reads of this object -- cached or not -- must be unaffected (audit 2; /repo d078db8)
                        if v.flags.writeable and v.size:
                            v[...] = 0 if v.dtype.kind != 'f' else np.nan
                            ctx.hist('history_write_into_result', state)
                        obs(f'{tag}/history-{kind}', good_, f'frame {f} read {state} differs from the stored plane', f, float=is_float,
                            history=state)
                        continue
                    if f < F:
                        obs(f'{tag}/history-{kind}', s1 == 'ok' and _raw_equal(v, planes[f]), v if s1 != 'ok' else
                            f'frame {f} read {state} differs from the stored plane', f, float=is_float, history=state)
                    elif s1 == 'ok':
                        obs(f'{tag}/history-{kind}', False, f'frame beyond the image accepted ({state})', f, history=state)
                    continue
                j = (f % M) if f < F else 0
                k = rh.randrange(len(desc[j]))
                m = desc[j][k]
                selector = rh.choice([k, k - len(desc[j]), m['label']])
                target = m
                s5, v = _try(im.get_frame, key, as_index=ai, apply_real_world_transform=True, real_world_value_map_selector=selector)
                ops.append({'op': 'real', 'f': f, 'ai': ai, 'sel': _sel_json(selector)})
                if is_float:
                    got.append('err' if s5 != 'ok' else 'values')
                    if s5 != 'ok' and f < F:
                        obs(f'{tag}/history-real', False, v, f, float=True, history=state)
                    continue
                exp = _expected_real(planes[f], target) if f < F else None
                got.append([_rat(float(t)) for t in np.asarray(v, dtype=np.float64).reshape(-1)] if s5 == 'ok' else 'err')
                if f >= F:
                    if s5 == 'ok':
                        obs(f'{tag}/history-real', False, f'frame beyond the image accepted ({state})', f, history=state)
                elif exp is None:
                    if s5 == 'ok':
                        obs(f'{tag}/history-real', False, 'values outside the mapped range were mapped silently', f, history=state)
                else:
                    good = s5 == 'ok' and np.asarray(v).shape == exp.shape and bool(np.array_equal(np.asarray(v, dtype=np.float64), exp))
                    obs(f'{tag}/history-real', good, v if s5 != 'ok' else f'real-world frame {f} read {state} differs from mapping '
                        f'{target["label"]} of channel {j}', f, mapping=m['kind'], history=state)
            queries.append({'q': 'history', 'f': 0, 'how': tag if lazy else 'memory', 'ops': ops})
            impl['answers'].append(got)
            ctx.hist('history_length', len(ops))
    reqs.append(_pm_request(a, desc, nested, len(desc), pos, len(pos), d['ts'], queries))
    pending.append((case, 'pm', impl))


# ------------------------------------------------------------------ parametric maps that must be refused
def _pm_refusals(ctx, reqs=None, pending=None):
    import highdicom as hd
    from highdicom.pm import ParametricMap
    from gen.sources import ct_series
    r = ctx.rng('pmref', 0)
    src = ct_series(2, 3, 4)
    maps, _ = _mappings(r, 'uint16', 1, nested=False)
    nested2, _ = _mappings(r, 'uint16', 2, nested=True)

    maps_d = [[{'kind': 'linear', 'label': 'a', 'unit': '1', 'first': 0, 'last': 65535, 'slope': 1, 'intercept': 0}]]
    src_pos = [tuple(float(v) for v in s_.ImagePositionPatient) for s_ in src]

    def build(a, m, s=src, ts=EXPLICIT, model=None, **kw):
        res = _try(ParametricMap, s, a, hd.UID(), 1, hd.UID(), 1, 'm', 'mm', '1', 'sn', False, m, 0.5, 1.0,
                   transfer_syntax_uid=ts, **kw)
        if reqs is not None and model is not None:
            nested, n_lists, n_pos = model
            reqs.append(_pm_request(a, maps_d * max(1, n_lists), nested, n_lists, src_pos, n_pos, ts, []))
            pending.append(({'kind': 'pm-refusal', 'what': f'{a.dtype} {a.shape} nested={nested} lists={n_lists} positions={n_pos} {ts}'},
                            'pm', 'err' if res[0] != 'ok' else 'accepted'))
        return res
    base = np.arange(24, dtype=np.uint16).reshape(2, 3, 4)
    cases = []
    for dt in ('int16', 'int8', 'int32', 'int64', 'uint32', 'uint64', 'float16', 'bool', 'complex64', '>u2', 'S1'):
        cases.append((f'dtype {dt}', lambda dt=dt: build(base.astype(dt), maps, model=(False, 1, 2))))
    for shp in ((24,), (1, 2, 3, 4, 1), (1, 1, 2, 3, 4, 1)):
        cases.append((f'shape {shp}', lambda shp=shp: build(base.reshape(shp), maps, model=(False, 1, 2))))
    # planes Rows / Columns (VR US, not 0) cannot describe: 0 or more than 65535 rows / columns, in 2-D, 3-D and 4-D arrays, every dtype
    # kind that is admitted (audit 2; /repo 5a4fe2e); the shapes at the edge (65535) must be accepted
    for dt_, shp in (('uint16', (2, 0, 4)), ('uint16', (2, 3, 0)), ('uint8', (2, 0, 0)), ('float32', (2, 0, 4)), ('float64', (2, 3, 0)),
                     ('uint8', (2, 65536, 1)), ('uint8', (2, 1, 65536)), ('uint8', (2, 70000, 1)), ('uint16', (2, 0, 4, 1)), ('uint8', (2, 1, 65536, 1))):
        nested_ = len(shp) == 4
        cases.append((f'shape {dt_} {shp}', lambda dt_=dt_, shp=shp, nested_=nested_: build(np.zeros(shp, dt_), [maps] if nested_ else maps,
                                                                                          model=(nested_, 1, 2))))
    cases.append(('2-D with 0 rows', lambda: build(np.zeros((0, 4), np.uint16), maps, s=src[:1])))
    for shp in ((2, 65535, 1), (2, 1, 65535)):
        st_e, v_e = build(np.zeros(shp, np.uint8), maps, model=(False, 1, 2))
        ctx.case(kind='pm-refusal', outcome='accepted' if st_e == 'ok' else 'REFUSED', what=f'edge shape {shp}')
        if st_e != 'ok':
            ctx.fail({'kind': 'pm-refusal', 'what': f'edge shape {shp}'}, f'a map with 65535 rows / columns was refused: {v_e}', site='pm-refusal')
    cases.append(('planes != positions', lambda: build(base[:1], maps, model=(False, 1, 2))))
    cases.append(('3 planes, 2 positions', lambda: build(np.zeros((3, 3, 4), np.uint16), maps, model=(False, 1, 2))))
    cases.append(('4-D with flat mappings', lambda: build(np.zeros((2, 3, 4, 2), np.uint16), maps, model=(False, 1, 2))))
    cases.append(('4-D with 2 channels, 1 mapping list', lambda: build(np.zeros((2, 3, 4, 2), np.uint16), [maps], model=(True, 1, 2))))
    cases.append(('4-D with 1 channel, 2 mapping lists', lambda: build(np.zeros((2, 3, 4, 1), np.uint16), nested2, model=(True, 2, 2))))
    cases.append(('3-D with nested mappings', lambda: build(base, nested2, model=(True, 2, 2))))
    cases.append(('empty mappings', lambda: build(base, [], model=(False, 0, 2))))
    cases.append(('float with RLE', lambda: build(base.astype('float32'), maps, ts=RLE, model=(False, 1, 2))))
    cases.append(('float with JPEG-LS', lambda: build(base.astype('float64'), maps, ts=JLS, model=(False, 1, 2))))
    cases.append(('uint with JPEG baseline', lambda: build(base.astype('uint8'), maps, ts=JPG, model=(False, 1, 2))))
    cases.append(('window width 0', lambda: _try(ParametricMap, src, base, hd.UID(), 1, hd.UID(), 1, 'm', 'mm', '1', 'sn', False, maps, 0.5, 0.0)))
    cases.append(('explicit positions, wrong number', lambda: build(base, maps, plane_positions=[hd.PlanePositionSequence('PATIENT', [0.0, 0.0, 1.0])], model=(False, 1, 1))))
    cases.append(('no source image', lambda: build(base, maps, s=[])))
    st0, _ = build(base, maps, model=(False, 1, 2))
    if st0 != 'ok':
        ctx.fail({'kind': 'pm-refusal', 'what': 'control'}, 'the valid control of the refusal list was refused', site='pm-refusal')
    for name, f in cases:
        st, val = f()
        ctx.case(kind='pm-refusal', outcome='refused' if st != 'ok' else 'ACCEPTED', what=name)
        if st == 'ok':
            ctx.fail({'kind': 'pm-refusal', 'what': name}, 'an array / argument layout the parametric map cannot represent was accepted',
                     site='pm-refusal')
    ctx.exhaustive.append(f'{len(cases)} kinds of unsupported parametric map input (dtype, rank, mapping layout, positions, syntax)')


# ------------------------------------------------------------------ RealWorldValueMapping itself
def _mapping_cells(ctx, reqs, pending):
    """constructor rules (exhaustive small grid, L0 ok-vs-error) and `apply` (oracle + model)"""
    import itertools
    from highdicom.pm import RealWorldValueMapping
    from pydicom.sr.codedict import codes
    k = 0
    for n_lut, slope, icpt, vr in itertools.product([None, 0, 1, 3, 4, 5, 6], [None, 2.0], [None, -1.5],
                                                   [(0, 3), (2, 5), (0, 0), (5, 2), (0.0, 1.0), (0, 2.5), (2.0, 5.0)]):
        lut = None if n_lut is None else [float(i) for i in range(n_lut)]
        st, m = _try(RealWorldValueMapping, 'l', 'e', codes.UCUM.NoUnits, vr, slope=slope, intercept=icpt, lut_data=lut)
        is_float = any(isinstance(v, float) for v in vr)
        reqs.append(('rwvmInit', {'lut': n_lut, 'slope': None if slope is None else 1, 'intercept': None if icpt is None else 1,
                                  'isFloat': is_float, 'first': int(vr[0]), 'last': int(vr[1])}))
        pending.append(({'kind': 'rwvm-init', 'lut': n_lut, 'slope': slope, 'intercept': icpt, 'range': list(vr)}, 'rwvm-init', st))
        ctx.case(kind='rwvm-init', outcome=st)
        # oracle: what was accepted is a LUT with one entry per value, or a linear mapping
        should = (n_lut is None and slope is not None and icpt is not None) or \
            (n_lut is not None and slope is None and icpt is None and not is_float and n_lut == int(vr[1]) - int(vr[0]) + 1)
        if should and st != 'ok':
            ctx.fail({'kind': 'rwvm-init', 'lut': n_lut, 'slope': slope, 'intercept': icpt, 'range': list(vr)},
                     f'a consistent real-world value mapping was refused: {m}', site='rwvm-init')
        if st == 'ok':
            good = (m.has_lut() and n_lut == int(vr[1]) - int(vr[0]) + 1 and not is_float and slope is None and icpt is None) or \
                (not m.has_lut() and slope is not None and icpt is not None and n_lut is None)
            if not good:
                ctx.fail({'kind': 'rwvm-init', 'lut': n_lut, 'slope': slope, 'intercept': icpt, 'range': list(vr)},
                         'an inconsistent real-world value mapping was accepted', site='rwvm-init')
        k += 1
    ctx.exhaustive.append(f'RealWorldValueMapping constructor rules on {k} cells')
    # apply(); the first 12 cases of the stream are one-entry tables (first == last), inside and outside their value
    singles = [(f, inside) for f in (0, 1, 7, 18, 255, 65535) for inside in (True, False)]
    for i in range(ctx.n(60, 1500)):
        r = ctx.rng('apply', i)
        if i < len(singles):
            _, desc = _mappings(r, 'uint16', 1, nested=True, single_firsts=[singles[i][0]])
        else:
            _, desc = _mappings(r, r.choice(['uint8', 'uint16']), 1, nested=True)
        m = desc[0][0]
        lo, hi = int(m['first']), int(m['last'])
        vals = [r.randint(max(0, lo - 2), min(65535, hi + 2)) for _ in range(r.randint(1, 6))]
        if r.random() < 0.7:
            vals = [min(max(v, lo), hi) for v in vals]
        if i < len(singles):
            vals = [lo] * r.randint(1, 4) if singles[i][1] else [lo] + [lo + 1 if lo < 65535 else lo - 1]
        arr = np.array(vals, dtype=np.uint16).reshape(1, -1)
        obj = RealWorldValueMapping(m['label'], 'e', codes.UCUM.NoUnits, (m['first'], m['last']),
                                    **({'lut_data': m['lut']} if m['kind'] == 'lut' else {'slope': m['slope'], 'intercept': m['intercept']}))
        st, out = _try(obj.apply, arr)
        exp = _expected_real(arr, m)
        case = {'kind': 'rwvm-apply', 'mapping': {k_: v for k_, v in m.items() if k_ != 'lut'}, 'values': vals}
        ctx.case(kind='rwvm-apply', outcome=st, mapping=m['kind'])
        if exp is None:
            if st == 'ok':
                ctx.fail(case, 'values outside the mapped range were mapped silently by RealWorldValueMapping.apply', site='rwvm-apply')
        elif st != 'ok' or not np.array_equal(np.asarray(out, dtype=np.float64), exp):
            ctx.fail(case, out if st != 'ok' else {'got': np.asarray(out).reshape(-1).tolist(), 'want': exp.reshape(-1).tolist()},
                     site='rwvm-apply')
        reqs.append(('applyMapping', dict(_map_json(m), values=vals)))
        pending.append((case, 'rwvm-apply', [_rat(float(t)) for t in np.asarray(out, dtype=np.float64).reshape(-1)] if st == 'ok' else 'err'))


# ------------------------------------------------------------------ secondary captures
SC_DTYPES = ['bool', 'uint8', 'uint16', 'int16', 'float32', 'uint32', 'int8']
SC_PIS = ['MONOCHROME1', 'MONOCHROME2', 'RGB', 'YBR_FULL', 'PALETTE COLOR', 'YBR_FULL_422']
SC_TS = [EXPLICIT, IMPLICIT, RLE, JLS, J2KL, JPG]


def _sc_valid(dt, ba, shape, pi, ts):
    """what the SCImage docstring + PS3.5 promise: True valid / False must be refused"""
    nd = len(shape)
    if dt not in ('bool', 'uint8', 'uint16'):
        return False
    if (dt == 'bool' and ba != 1) or (dt == 'uint8' and ba != 8) or (dt == 'uint16' and ba not in (12, 16)):
        return False
    if nd == 3:
        if shape[2] != 3 or ba != 8 or dt != 'uint8':
            return False
        allowed = {JPG: ['YBR_FULL_422'], J2KL: ['YBR_RCT']}.get(ts, ['RGB', 'YBR_FULL'])
        return pi in allowed
    if nd == 2:
        return pi in ('MONOCHROME1', 'MONOCHROME2')
    return False


def _sc_array(nr, dt, ba, shape, big_values=False):
    if isinstance(big_values, int) and not isinstance(big_values, bool):
        # 12-bit boundary probe: all values below 4096 except one that equals `big_values`
        a = nr.integers(0, 4095, size=shape, endpoint=True).astype(dt)
        a.flat[a.size // 2] = big_values
        return a
    if dt == 'bool':
        return nr.random(shape) < 0.5
    if dt.startswith('float'):
        return nr.random(shape).astype(dt)
    info = np.iinfo(dt)
    hi = int(info.max) if (ba != 12 or big_values) else min(4095, int(info.max))
    a = nr.integers(int(info.min), hi, size=shape, endpoint=True).astype(dt)
    if a.size > 1:
        a.flat[0] = hi
        a.flat[-1] = int(info.min)
    return a


def _twelve_fail(ctx, case, detail, site):
    """failures of SCImage(bits_allocated=12) objects (open finding C19-sc-bits-allocated-12): every such object fails
    the same way, so the first 40 are reported (and attributed), the rest counted -- they cannot crowd anything else
    out of the framework's failure list"""
    ctx._c19_twelve = getattr(ctx, '_c19_twelve', 0) + 1
    if ctx._c19_twelve > 40:
        ctx.hist('sc_bits_allocated_12', site)
        return
    ctx.fail(case, detail, site=site)


def _check_sc(ctx, label, dt, ba, shape, pi, ts, cs, idx, layout='c', big_values=False, reqs=None, pending=None):
    import highdicom as hd
    import pydicom
    from highdicom.sc import SCImage
    from pydicom.pixels import pixel_array as pyd_pixel_array
    a = _layout(_sc_array(ctx.np_rng('scpix', idx), dt, ba, shape, big_values), layout)
    built = None
    kw = {}
    if cs == 'PATIENT':
        kw['patient_orientation'] = ('L', 'P')
    else:
        kw.update(container_identifier='c1', specimen_descriptions=[hd.SpecimenDescription('s1', hd.UID())])
        if idx % 2 == 0:
            kw['issuer_of_container_identifier'] = hd.IssuerOfIdentifier('iss')
    if idx % 3 == 0:
        kw['pixel_spacing'] = (0.5, 0.25)
    # SPELLING of the enum-valued arguments (guide 3a): photometric interpretation and coordinate system as str or as
    # enum member, a function of the case index (all four combinations occur in every stream)
    spell = ('rr', 'mm', 'rm', 'mr')[idx % 4]
    pi_s, cs_s = pi, cs
    if spell[0] == 'm':
        try:
            pi_s = hd.PhotometricInterpretationValues(pi)
        except ValueError:
            pass
    if spell[1] == 'm':
        cs_s = hd.CoordinateSystemNames(cs)
    if label == 'random' and idx % 3 == 1:
        from gen.images import base_dataset
        ref = base_dataset('1.2.840.10008.5.1.4.1.1.2', EXPLICIT)
        st, sc = _try(SCImage.from_ref_dataset, ref, a, pi_s, ba, cs_s, hd.UID(), 1, hd.UID(), 1, 'm', transfer_syntax_uid=ts, **kw)
    else:
        st, sc = _try(SCImage, a, pi_s, ba, cs_s, hd.UID(), hd.UID(), 1, hd.UID(), 1, 'm', transfer_syntax_uid=ts, **kw)
    case = {'kind': 'sc', 'label': label, 'dtype': dt, 'ba': ba, 'shape': list(shape), 'pi': pi, 'ts': ts, 'cs': cs, 'idx': idx,
            'layout': layout, 'big_values': big_values, 'spell': spell}
    valid = _sc_valid(dt, ba, shape, pi, ts)
    fits = not (ba == 12 and dt == 'uint16' and a.size and int(a.max()) >= 4096)
    outcome = 'accepted' if st == 'ok' else 'refused'
    nontriv = None
    if st == 'ok' and a.size > 1 and a.min() != a.max():
        nontriv = ('sc', dt, ba, len(shape), pi, ts, cs, layout)
    ctx.case(sample=case if (st == 'ok' and ctx.evaluations % 97 == 0) else None, nontrivial_key=nontriv, kind='sc',
             dtype=dt, syntax=TSNAME[ts], outcome=outcome, valid=valid, bits=ba, cs=cs, spelling=spell)
    if reqs is not None:
        reqs.append(('scPixelModule', {'dtype': str(a.dtype), 'ba': ba, 'ndim': a.ndim, 'last': a.shape[-1] if a.ndim else 0,
                                       'pi': pi, 'ts': ts, 'max': int(a.max()) if a.dtype.kind in 'biu' else 0}))
        pending.append((case, 'sc-module', (st, sc if st != 'ok' else
                                            [int(sc.BitsAllocated), int(sc.BitsStored), int(sc.HighBit), int(sc.SamplesPerPixel),
                                             int(sc.PlanarConfiguration) if 'PlanarConfiguration' in sc else -1,
                                             int(sc.PixelRepresentation), str(sc.PhotometricInterpretation)])))
    if reqs is not None and ts in NATIVE and a.dtype.kind in 'biu' and a.ndim in (2, 3) and a.size <= 3000 \
            and a.dtype.name in ('bool', 'uint8', 'uint16', 'uint32', 'int8', 'int16', 'int32'):
        # the whole constructor path of the model (pixel module -> encode_frame -> bytes -> pydicom decode), native only
        reqs.append(('scBuild', {'ts': ts, 'pi': pi, 'ba': ba, 'rows': a.shape[0], 'cols': a.shape[1],
                                 'samples': (a.shape[2] if a.ndim == 3 else None), 'dtype': a.dtype.name,
                                 'data': np.asarray(a).astype(np.int64).reshape(-1).tolist()}))
        if st == 'ok':
            raw = bytes(sc.PixelData)
            n_exp = (a.size + 7) // 8 if ba == 1 else a.size * a.dtype.itemsize
            built = ['ok', list(raw[:n_exp + (n_exp % 2)]) if ba == 1 else list(raw[:n_exp]),
                     np.asarray(a).astype(np.int64).reshape(-1).tolist()]
            pending.append((case, 'sc-build', built))
        else:
            pending.append((case, 'sc-build', ('err', None, None)))
    if st != 'ok':
        codec_limit = ts in (JLS, J2KL, JPG) and ('Unable to' in sc or 'plugins' in sc or 'ModuleNotFound' in sc)
        if valid and fits and not codec_limit and not (ts == RLE and ba in (1, 12)) and not (ba == 1 and a.size % 8) \
                and not (ts in (JLS, J2KL) and ba in (1, 12) and 'Bits Allocated must be' in sc) \
                and not (ts == JLS and pi == 'YBR_FULL') and not (ts in (J2KL, JPG)):
            ctx.fail(case, f'valid secondary capture refused: {sc}', site='sc-construct')
        else:
            ctx.hist('sc_refusal', sc.split(':')[0])
        return
    if not valid:
        ctx.fail(case, 'an array the secondary capture cannot represent was accepted', site='sc-refusal')
        return
    twelve = ba == 12 and dt == 'uint16'
    if not fits:
        _twelve_fail(ctx, case, 'a uint16 array with a value >= 4096 was accepted as 12-bit data', 'sc-12bit-overflow')
    if ts == JPG:
        ctx.hist('sc_lossy', 'jpeg baseline accepted (lossy: not compared)')
        return
    stw, blob = _try(_written, sc)
    if stw != 'ok':
        ctx.fail(case, f'cannot be written: {blob}', site='sc-write')
        return
    ds = pydicom.dcmread(io.BytesIO(blob))
    want = np.asarray(a)
    for name, f in (('pydicom-raw', lambda: pyd_pixel_array(ds, raw=True)),) + \
            ((('pydicom', lambda: ds.pixel_array),) if pi not in ('YBR_FULL', 'YBR_FULL_422') else ()):
        s1, got = _try(f)
        if name == 'pydicom-raw' and built is not None:
            # what the model's decode is compared with: the values pydicom returns, or its refusal
            built[2] = np.asarray(got).astype(np.int64).reshape(-1).tolist() if s1 == 'ok' else 'err'
        ok = s1 == 'ok' and np.asarray(got).shape == want.shape and bool(np.array_equal(np.asarray(got).astype(np.int64), want.astype(np.int64)))
        ctx.case(kind='sc', path=name, outcome='ok' if ok else 'FAIL')
        if not ok:
            detail = got if s1 != 'ok' else {'what': 'pydicom decodes the secondary capture to a different array',
                                             'BitsAllocated': int(ds.BitsAllocated), 'BitsStored': int(ds.BitsStored),
                                             'got': np.asarray(got).reshape(-1)[:12].tolist(),
                                             'want': want.reshape(-1)[:12].astype(np.int64).tolist()}
            if twelve and isinstance(detail, str) and "'Bits Allocated' value of '12' is invalid" in detail:
                _twelve_fail(ctx, dict(case, path=name), detail, 'sc-decode')
            else:
                ctx.fail(dict(case, path=name), detail, site='sc-decode')
    # the one frame through highdicom's own image interface, before and AFTER the decoded pixel array was touched on the
    # same object (a read must not depend on what was read before); stored values, so not for YBR (decode converts)
    if pi not in ('YBR_FULL', 'YBR_FULL_422') and not twelve and idx % 2 == 0:
        for lazy in (False, True):
            tag = 'lazy' if lazy else 'eager'
            sI, im = _try(hd.imread, io.BytesIO(blob), lazy_frame_retrieval=lazy)
            if sI != 'ok':
                ctx.fail(dict(case, path=f'{tag}/open'), im, site='sc-image-read')
                continue
            for step in ('first', 'after-pixel_array'):
                s1, got = _try(im.get_stored_frames)
                ok = s1 == 'ok' and np.asarray(got).shape == (1,) + want.shape and \
                    bool(np.array_equal(np.asarray(got).astype(np.int64), want.astype(np.int64)[None]))
                ctx.case(kind='sc', path=f'{tag}/get_stored_frames/{step}', outcome='ok' if ok else 'FAIL')
                if not ok:
                    ctx.fail(dict(case, path=f'{tag}/get_stored_frames/{step}'),
                             got if s1 != 'ok' else f'shape {np.asarray(got).shape} instead of {(1,) + want.shape} / values differ',
                             site='sc-image-read')
                _try(lambda: im.pixel_array)
    # attributes of the image pixel module that a reader relies on (L1): PS3.5 8.1.1 -- Bits Allocated is 1 or a
    # multiple of 8; 12-bit data are 12 bits stored in 16 allocated
    exp_ba, exp_bs = (16, 12) if ba == 12 else (ba, ba)
    seen = (int(ds.BitsAllocated), int(ds.BitsStored), int(ds.HighBit), int(ds.PixelRepresentation), int(ds.SamplesPerPixel),
            str(ds.PhotometricInterpretation), (int(ds.Rows), int(ds.Columns)))
    okm = seen == (exp_ba, exp_bs, exp_bs - 1, 0, 3 if a.ndim == 3 else 1, pi, (a.shape[0], a.shape[1]))
    if not okm:
        if twelve and seen == (12, 12, 11, 0, 1, pi, (a.shape[0], a.shape[1])):
            _twelve_fail(ctx, case, 'Bits Allocated 12 written (PS3.5 8.1.1: 1 or a multiple of 8); 12-bit data are 12 bits stored in 16 allocated',
                         'sc-module')
        else:
            ctx.fail(case, f'image pixel module attributes do not describe the array: {seen}', site='sc-module')
    # what belongs to the coordinate system (either spelling of the argument)
    if cs == 'PATIENT' and [str(v) for v in ds.get('PatientOrientation', [])] != ['L', 'P']:
        ctx.fail(case, f"patient orientation not stored: {ds.get('PatientOrientation')}", site='sc-module')
    if cs == 'SLIDE' and str(ds.get('ContainerIdentifier', '')) != 'c1':
        ctx.fail(case, 'container identifier not stored', site='sc-module')
    if cs == 'SLIDE' and 'issuer_of_container_identifier' in kw and len(ds.IssuerOfTheContainerIdentifierSequence) != 1:
        ctx.fail(case, 'issuer of the container identifier not stored', site='sc-module')


def _sc_cells(ctx, reqs, pending):
    import itertools
    idx = 0
    bas = [1, 8, 12, 16, 32]
    shapes = [(4, 6), (4, 6, 3)]
    for dt, ba, shp, pi, ts in itertools.product(SC_DTYPES, bas, shapes, SC_PIS, SC_TS):
        if ts == JLS and dt in ('uint8', 'uint16') and ba in (8, 12, 16):
            shp = (16, 16) + shp[2:]
        _check_sc(ctx, 'cell', dt, ba, shp, pi, ts, 'PATIENT', idx, reqs=reqs, pending=pending)
        idx += 1
    ctx.exhaustive.append(f'SCImage on {idx} cells: {len(SC_DTYPES)} dtypes x {len(bas)} bits allocated x {{2-D, RGB}} x '
                          f'{len(SC_PIS)} photometric interpretations x {len(SC_TS)} transfer syntaxes')
    # side axes
    for shp in ((4, 6, 4), (4, 6, 1), (4, 6, 2), (24,), (2, 2, 3, 3), (3, 5), (1, 1), (1, 8)):
        for dt, ba in (('uint8', 8), ('bool', 1), ('uint16', 16)):
            pi = 'RGB' if len(shp) == 3 else 'MONOCHROME2'
            _check_sc(ctx, 'shape', dt, ba, shp, pi, EXPLICIT, 'PATIENT', idx, reqs=reqs, pending=pending)
            idx += 1
    for ts in (EXPLICIT, IMPLICIT, JLS):
        for big in (True, 4095, 4096, 4097, 8191):
            _check_sc(ctx, '12-bit overflow', 'uint16', 12, (16, 16), 'MONOCHROME2', ts, 'PATIENT', idx, big_values=big, reqs=reqs,
                      pending=pending)
            idx += 1


def _sc_random(ctx, reqs, pending):
    n = ctx.n(150, 8000)
    for i in range(n):
        r = ctx.rng('sc', i)
        ts = r.choice([EXPLICIT, IMPLICIT, RLE, JLS])
        colour = r.random() < 0.3
        if colour:
            dt, ba, pi = 'uint8', 8, r.choice(['RGB', 'RGB', 'YBR_FULL'] if ts != JLS else ['RGB'])
        else:
            dt, ba = r.choice([('bool', 1), ('uint8', 8), ('uint16', 16), ('uint16', 12)])
            pi = r.choice(['MONOCHROME1', 'MONOCHROME2'])
            if ts == RLE and ba in (1, 12):
                ts = EXPLICIT
            if ts == JLS and ba == 1:
                ts = IMPLICIT
        rows, cols = (r.randint(1, 9), r.randint(1, 9)) if r.random() < 0.7 else (r.randint(1, 40), r.randint(1, 40))
        if ts == JLS:
            rows, cols = max(rows, 8) + r.randint(0, 8), max(cols, 8) + r.randint(0, 8)
        if ba == 1 and (rows * cols) % 8:
            cols = 8
        shape = (rows, cols, 3) if colour else (rows, cols)
        layout = r.choice(['c', 'c', 'fortran', 'view', 'negstride', 'readonly'])
        _check_sc(ctx, 'random', dt, ba, shape, pi, ts, r.choice(['PATIENT', 'SLIDE']), 100000 + i, layout=layout, reqs=reqs, pending=pending)


def _is_rat(t):
    return isinstance(t, str) and t not in ('err', 'done', 'values')


def _compare_pm(ctx, case, impl, ans):
    if 'proto_err' in ans:
        ctx.disagree('L0', case, impl if impl == 'err' else 'object', ans, 'model protocol error')
        return
    if impl == 'err' or 'err' in ans:
        if (impl == 'err') != ('err' in ans):
            ctx.disagree('L0', case, 'refused' if impl == 'err' else 'accepted', ans if 'err' in ans else 'accepted', 'accept-vs-refuse')
        return
    if impl == 'accepted':
        return
    o = ans['ok']
    for k in ('element', 'ba', 'bs', 'hb', 'pr', 'rows', 'cols', 'frames'):
        if o[k] != impl[k]:
            ctx.disagree('L1', case, {k: impl[k]}, {k: o[k]}, f'image pixel attribute {k}')
            return
    if impl['pixelData'] is not None and o['pixelData'] != impl['pixelData']:
        ctx.disagree('L1', case, impl['pixelData'][:32], o['pixelData'][:32], 'pixel data bytes')
        return
    if o['shared'] != impl['shared']:
        ctx.disagree('L1', case, impl['shared'], o['shared'], 'shared real-world value mappings')
        return
    if len(o['perFrame']) != len(impl['perFrame']):
        ctx.disagree('L1', case, len(impl['perFrame']), len(o['perFrame']), 'number of per-frame items')
        return
    for f, (mo, io_) in enumerate(zip(o['perFrame'], impl['perFrame'])):
        if mo != io_:
            ctx.disagree('L1', dict(case, frame=f), io_, mo, 'per-frame functional group (position / dimension index / mappings)')
            return
    for q, (ma, ia) in enumerate(zip(o['answers'], impl['answers'])):
        m_ok = 'ok' in ma
        if ia == 'err' or not m_ok:
            if (ia == 'err') == m_ok:
                ctx.disagree('L0', dict(case, query=q), ia if ia == 'err' else 'values', ma if not m_ok else 'values', 'read: ok-vs-error')
                return
        elif isinstance(ia, dict) and 'volume' in ia:
            # slices of the volume: the model's blank slices (null) are zero-filled in the array
            ms = ma['ok'].get('slices') if isinstance(ma.get('ok'), dict) else None
            want_v = ia['volume']
            ok_v = isinstance(ms, list) and len(ms) == len(want_v) and all(
                (m_ == w_) if m_ is not None else all(t in (0, '0') for t in w_) for m_, w_ in zip(ms, want_v))
            if not ok_v:
                ctx.disagree('L0', dict(case, query=q), [w_[:6] for w_ in want_v[:4]], [m_[:6] if m_ else m_ for m_ in (ms or [])[:4]],
                             'get_volume: slices of the volume')
                return
        elif isinstance(ia, list) and ia and isinstance(ma['ok'], list) and any(isinstance(t, (list, str)) and not _is_rat(t) for t in ia):
            # a history: one result per operation ('err', 'done', 'values', bytes of a frame, exact rationals)
            for step, (mo, io_) in enumerate(zip(ma['ok'], ia)):
                if (io_ == 'err') != (mo == 'err') or (io_ not in ('err', 'values') and mo != io_):
                    ctx.disagree('L0', dict(case, query=q, step=step), io_ if isinstance(io_, str) else io_[:16],
                                 mo if isinstance(mo, str) else mo[:16], 'read after a history on one object')
                    return
        elif ia != 'values' and ma['ok'] != ia:
            ctx.disagree('L0', dict(case, query=q), ia[:16], ma['ok'][:16], 'read: values')
            return


def _compare_sc(ctx, case, impl, ans):
    st, val = impl
    if 'proto_err' in ans:
        ctx.disagree('L0', case, st, ans, 'model protocol error')
        return
    # the module block is followed by encode_frame, which may still refuse (C07): compare refusals one way only
    if 'err' in ans and st == 'ok':
        ctx.disagree('L0', case, 'accepted', ans, 'image pixel module: model refuses, implementation accepts')
    elif 'ok' in ans and st == 'ok':
        mo = ans['ok']
        if mo != [val[0], val[1], val[2], val[5], val[3], val[4]]:
            ctx.disagree('L1', case, val[:6], mo, 'image pixel module attributes')


def _compare_sc_build(ctx, case, impl, ans):
    st, raw, data = impl
    if 'proto_err' in ans:
        ctx.disagree('L0', case, st, ans, 'model protocol error')
        return
    if (st == 'ok') != ('ok' in ans):
        ctx.disagree('L0', case, st, ans if 'err' in ans else 'accepted', 'secondary capture: accept-vs-refuse')
        return
    if st == 'ok':
        o = ans['ok']
        if o['bytes'] != raw:
            ctx.disagree('L1', case, raw[:32], o['bytes'][:32], 'secondary capture: pixel data bytes')
        elif (('err' not in o['decoded']) if data == 'err' else (o['decoded'].get('ok') != data)):
            ctx.disagree('L0', case, data[:32], o['decoded'], 'secondary capture: decoded values')


def run(ctx):
    import hd_env  # noqa: F401
    import warnings
    warnings.simplefilter('ignore')
    reqs, pending = [], []
    crashed = []

    def section(f, *a):
        # a crash of one section (e.g. because a mutation makes the generator's own constructor calls fail) must not
        # hide what the other sections find; it is re-raised at the end
        try:
            f(*a)
        except Exception as e:  # noqa: BLE001
            import traceback
            crashed.append(e)
            ctx.note(f'section {f.__name__} crashed: ' + traceback.format_exc()[-600:])
    section(_mapping_cells, ctx, reqs, pending)
    section(_lut1_witness, ctx)
    section(_selector_scenarios, ctx)
    section(_pm_refusals, ctx, reqs, pending)
    for idx in range(ctx.n(60, 2500)):
        if len(crashed) > 3:
            break
        section(_check_pm, ctx, idx, reqs, pending)
    section(_sc_cells, ctx, reqs, pending)
    section(_sc_random, ctx, reqs, pending)
    _compare_all(ctx, reqs, pending)
    if crashed:
        raise crashed[0]


def _compare_all(ctx, reqs, pending):
    """the model's answers against what the implementation did, for every pending observation"""
    n_pairs = min(len(reqs), len(pending))
    reqs, pending = reqs[:n_pairs], pending[:n_pairs]
    if not reqs:
        return
    answers = ctx.model(reqs)
    if answers is None:
        return
    for (case, what, impl), ans in zip(pending, answers):
        if what == 'pm':
            _compare_pm(ctx, case, impl, ans)
        elif what == 'sc-module':
            _compare_sc(ctx, case, impl, ans)
        elif what == 'sc-build':
            _compare_sc_build(ctx, case, impl, ans)
        elif what == 'rwvm-init':
            if 'proto_err' in ans or (impl == 'ok') != ('ok' in ans):
                ctx.disagree('L0', case, impl, ans, 'RealWorldValueMapping constructor: ok-vs-error')
        elif what == 'rwvm-apply':
            if 'proto_err' in ans or (impl == 'err') != ('err' in ans) or (impl != 'err' and ans.get('ok') != impl):
                ctx.disagree('L0', case, impl, ans, 'RealWorldValueMapping.apply')


def _float_witness(ctx):
    """fixed scenario of the open finding C19-float-frames-unreadable: a 2-plane float32 map read through Image"""
    import highdicom as hd
    from highdicom.pm import ParametricMap, RealWorldValueMapping
    from pydicom.sr.codedict import codes
    from gen.sources import ct_series
    src = ct_series(2, 3, 4)
    arr = np.linspace(-1, 1, 24, dtype=np.float32).reshape(2, 3, 4)
    m = RealWorldValueMapping('a', 'ea', codes.UCUM.NoUnits, (-10.0, 10.0), slope=2.0, intercept=1.0)
    pm = ParametricMap(src, arr, hd.UID(), 1, hd.UID(), 1, 'm', 'mm', '1', 'sn', False, [m], 0.5, 1.0)
    blob = _written(pm)
    case = {'kind': 'pm', 'dtype': 'float32', 'scenario': 'float'}
    for lazy in (False, True):
        tag = 'lazy' if lazy else 'eager'
        im = hd.imread(io.BytesIO(blob), lazy_frame_retrieval=lazy)
        st, v = _try(im.get_stored_frame, 2)
        if st != 'ok' or not _raw_equal(v, arr[1]):
            ctx.fail(dict(case, path=f'{tag}/get_stored_frame'), v if st != 'ok' else 'differs', site=f'{tag}/get_stored_frame')


def _lut1_witness(ctx):
    """fixed scenario of the finding C19-rwvm-single-entry-lut (fixed): a 2-plane uint8 map holding only the value 7,
    mapping = the one-entry table (7, 7) -> [2.5]; every frame must read as 2.5"""
    import highdicom as hd
    from highdicom.pm import ParametricMap, RealWorldValueMapping
    from pydicom.sr.codedict import codes
    from gen.sources import ct_series
    src = ct_series(2, 3, 4)
    arr = np.full((2, 3, 4), 7, dtype=np.uint8)
    m = RealWorldValueMapping('a', 'ea', codes.UCUM.NoUnits, (7, 7), lut_data=[2.5])
    st, out = _try(m.apply, arr[0])
    ctx.case(kind='rwvm-apply', outcome=st, mapping='lut')
    if st != 'ok' or not np.array_equal(np.asarray(out, dtype=np.float64), np.full((3, 4), 2.5)):
        ctx.fail({'kind': 'rwvm-apply', 'scenario': 'lut1', 'mapping': {'first': 7, 'last': 7, 'kind': 'lut'}, 'values': [7]},
                 out if st != 'ok' else 'differs', site='rwvm-apply')
    pm = ParametricMap(src, arr, hd.UID(), 1, hd.UID(), 1, 'm', 'mm', '1', 'sn', False, [m], 0.5, 1.0)
    blob = _written(pm)
    case = {'kind': 'pm', 'dtype': 'uint8', 'scenario': 'lut1', 'single_lut': True}
    for lazy in (False, True):
        tag = 'lazy' if lazy else 'eager'
        im = hd.imread(io.BytesIO(blob), lazy_frame_retrieval=lazy)
        st, v = _try(im.get_frame, 2, apply_real_world_transform=True)
        ctx.case(kind='pm', path=f'{tag}/rwvm', outcome='ok' if st == 'ok' else 'FAIL', mapping='lut')
        if st != 'ok' or not np.array_equal(np.asarray(v, dtype=np.float64), np.full((3, 4), 2.5)):
            ctx.fail(dict(case, path=f'{tag}/rwvm'), v if st != 'ok' else 'differs', site=f'{tag}/rwvm')


def _selector_scenarios(ctx):
    """fixed scenarios, run in every tier and seed: (a) a 3-plane map whose channel has three alternative mappings (two linear, one
    table), read as a VOLUME with every mapping selected in every spelling (index, negative index, label, unit) and compared with
    the same selector through get_frames; (b) a 2-plane, 2-channel map with different mappings per channel, every frame read by
    NUMBER and by INDEX (as_index=True) with the real-world transform"""
    import highdicom as hd
    from highdicom.pm import ParametricMap, RealWorldValueMapping
    from pydicom.sr.codedict import codes
    from pydicom.sr.coding import Code
    from gen.sources import ct_series
    units = [codes.UCUM.NoUnits, codes.UCUM.Millimeter, codes.UCUM.Second]
    # (a)
    src = ct_series(3, 3, 4)
    arr = (np.arange(36, dtype=np.uint8).reshape(3, 3, 4) % 16)
    lut = [float(2 * i) + 0.5 for i in range(16)]
    desc = [{'kind': 'linear', 'label': 'one', 'first': 0, 'last': 255, 'slope': 1.0, 'intercept': 0.0, 'unit': units[0].value},
            {'kind': 'linear', 'label': 'two', 'first': 0, 'last': 255, 'slope': 2.0, 'intercept': -3.0, 'unit': units[1].value},
            {'kind': 'lut', 'label': 'three', 'first': 0, 'last': 15, 'lut': lut, 'unit': units[2].value}]
    maps = [RealWorldValueMapping(m['label'], 'e', units[k], (m['first'], m['last']),
                                  **({'lut_data': m['lut']} if m['kind'] == 'lut' else {'slope': m['slope'], 'intercept': m['intercept']}))
            for k, m in enumerate(desc)]
    pm = ParametricMap(src, arr, hd.UID(), 1, hd.UID(), 1, 'm', 'mm', '1', 'sn', False, maps, 0.5, 1.0)
    blob = _written(pm)
    pos = [tuple(round(float(v), 6) for v in s_.ImagePositionPatient) for s_ in src]
    for lazy in (False, True):
        tag = 'lazy' if lazy else 'eager'
        im = hd.imread(io.BytesIO(blob), lazy_frame_retrieval=lazy)
        for k, m in enumerate(desc):
            for selector in (k, k - len(desc), m['label'], Code(m['unit'], 'UCUM', m['unit'])):
                case = {'kind': 'pm', 'scenario': 'selectors', 'path': f'{tag}/rwvm-volume', 'mapping': m['label'],
                        'selector': repr(selector)[:40]}
                exps = [_expected_real(arr[i], m) for i in range(3)]
                s1, vol = _try(im.get_volume, dtype=np.float64, apply_real_world_transform=True, real_world_value_map_selector=selector)
                s2, frs = _try(im.get_frames, [1, 2, 3], dtype=np.float64, apply_real_world_transform=True,
                               real_world_value_map_selector=selector)
                ok = s1 == 'ok' and s2 == 'ok'
                if ok:
                    a2 = np.asarray(vol.array)
                    vpos = [tuple(round(float(x), 6) for x in p_[0].ImagePositionPatient) for p_ in vol.get_plane_positions()]
                    for i in range(3):
                        ok = ok and pos[i] in vpos and bool(np.array_equal(a2[vpos.index(pos[i])], exps[i])) \
                            and bool(np.array_equal(np.asarray(frs)[i], exps[i]))
                ctx.case(kind='pm', path=f'{tag}/rwvm-volume', outcome='ok' if ok else 'FAIL', mapping=m['kind'],
                         selector=type(selector).__name__)
                if not ok:
                    ctx.fail(case, vol if s1 != 'ok' else (frs if s2 != 'ok' else
                             f'get_volume / get_frames with selector {selector!r} differ from mapping {m["label"]}'), site=f'{tag}/rwvm-volume')
    # (b)
    src = ct_series(2, 3, 4)
    arr4 = (np.arange(48, dtype=np.uint8).reshape(2, 3, 4, 2) % 16)
    chans = [[{'kind': 'linear', 'label': 'L', 'first': 0, 'last': 255, 'slope': 1.0, 'intercept': 0.0}],
             [{'kind': 'linear', 'label': 'L', 'first': 0, 'last': 255, 'slope': 4.0, 'intercept': 7.0}]]
    maps4 = [[RealWorldValueMapping('L', 'e', units[0], (0, 255), slope=c[0]['slope'], intercept=c[0]['intercept'])] for c in chans]
    pm = ParametricMap(src, arr4, hd.UID(), 1, hd.UID(), 1, 'm', 'mm', '1', 'sn', False, maps4, 0.5, 1.0)
    blob = _written(pm)
    for lazy in (False, True):
        tag = 'lazy' if lazy else 'eager'
        im = hd.imread(io.BytesIO(blob), lazy_frame_retrieval=lazy)
        for f in range(4):
            i, j = divmod(f, 2)
            exp = _expected_real(arr4[i, :, :, j], chans[j][0])
            for how, call in (('number', lambda: im.get_frame(f + 1, apply_real_world_transform=True)),
                              ('index', lambda: im.get_frame(f, as_index=True, apply_real_world_transform=True))):
                s1, v = _try(call)
                ok = s1 == 'ok' and bool(np.array_equal(np.asarray(v, dtype=np.float64), exp))
                ctx.case(kind='pm', path=f'{tag}/rwvm-as-index' if how == 'index' else f'{tag}/rwvm', outcome='ok' if ok else 'FAIL')
                if not ok:
                    ctx.fail({'kind': 'pm', 'scenario': 'selectors', 'path': f'{tag}/rwvm-by-{how}', 'frame': f},
                             v if s1 != 'ok' else f'frame {f} (channel {j}) read by {how} is not mapped with its channel\'s mapping',
                             site=f'{tag}/rwvm-by-{how}')


def replay(ctx, case):
    """Re-run one stored case (a pure function of seed, tier, stream and index) on the implementation; returns the oracle
    failures of that case, or None when it passes on the current tree.  Failures that
    belong to an OPEN known finding do not count -- except when the case is the stored witness of such a finding."""
    import hd_env  # noqa: F401
    import warnings
    import contextlib
    import io as _io
    from framework import load_findings
    warnings.simplefilter('ignore')
    sub = type(ctx)(ctx.prop, ctx.tier, ctx.seed, 1, ctx.driver)
    # implementation side only: a replay does not regenerate / rebuild the model, which may stem from another tree
    sub.model_available = False
    reqs, pending = [], []
    kind = case.get('kind')
    # the stored witness of an OPEN finding (findings/C19.json): its failures are what must reproduce
    witness = kind == 'pm-float-witness' or case.get('label') == 'witness' or case.get('scenario') == 'float'
    with contextlib.redirect_stdout(_io.StringIO()):
        if kind == 'pm-float-witness':
            _float_witness(sub)
        elif kind == 'pm-lut1-witness':
            _lut1_witness(sub)
        elif case.get('scenario') == 'float':
            _float_witness(sub)
        elif case.get('scenario') == 'lut1':
            _lut1_witness(sub)
        elif case.get('scenario') == 'selectors':
            _selector_scenarios(sub)
        elif kind == 'pm' and 'idx' in case:
            _check_pm(sub, case['idx'], reqs, pending)
        elif kind == 'sc':
            _check_sc(sub, case.get('label', 'replay'), case['dtype'], case['ba'], tuple(case['shape']), case['pi'], case['ts'],
                      case['cs'], case['idx'], layout=case.get('layout', 'c'), big_values=case.get('big_values', False),
                      reqs=reqs, pending=pending)
        elif kind == 'pm-refusal':
            _pm_refusals(sub, reqs, pending)
        elif kind in ('rwvm-init', 'rwvm-apply'):
            _mapping_cells(sub, reqs, pending)
        else:
            return None
        _compare_all(sub, reqs, pending)

    def same(c):
        """does a failure / disagreement of the re-run belong to the stored case?"""
        if witness or case.get('scenario'):
            return True
        if not isinstance(c, dict) or c.get('kind') != kind:
            return False
        if kind in ('pm', 'sc') and 'idx' in case:
            return c.get('idx') == case.get('idx')
        if kind in ('rwvm-init', 'rwvm-apply', 'pm-refusal'):
            strip = lambda d: {k: v for k, v in d.items() if k not in ('path', 'frame')}   # noqa: E731
            return json.dumps(strip(c), sort_keys=True, default=repr) == json.dumps(strip(case), sort_keys=True, default=repr)
        return True
    open_findings = [] if witness else [f for f in load_findings() if f.get('property') == 'C19' and f.get('status') == 'open']
    hits = [f for f in sub.failures if same(f['case']) and attribute(f, open_findings) is None]
    hits += [d for d in sub.disagreements if same(d['case'])]
    return hits[:3] or None


def attribute(failure, open_findings):
    """C19-float-frames-unreadable: frames of float parametric maps cannot be read through the Image interface
    (get_stored_frame(s), lazy pixel_array, get_frame, get_volume): AttributeError on PixelData / PixelRepresentation.
    C19-sc-bits-allocated-12: SCImage(bits_allocated=12) writes Bits Allocated 12, which pydicom does not decode."""
    ids = {f['id'] for f in open_findings}
    c = failure.get('case') or {}
    d = failure.get('detail')
    site = failure.get('site') or ''
    if 'C19-float-frames-unreadable' in ids and c.get('kind') == 'pm' and str(c.get('dtype', '')).startswith('float') \
            and (site.startswith('eager/') or site.startswith('lazy/')) and site not in ('eager/pixel_array', 'eager/open', 'lazy/open') \
            and isinstance(d, str) and d.startswith('AttributeError') and ('PixelData' in d or 'PixelRepresentation' in d):
        # on the in-memory object the stored-frame reads SUCCEED once pixel_array was decoded (float_reads_depend_on_history): an
        # AttributeError there is not the finding
        stored_read = any(k in site for k in ('get_stored_frame', 'history-stored', 'history-pixel_array'))
        after_cache = 'reread-' in site or c.get('history') == 'after pixel_array'
        if site.startswith('eager/') and stored_read and after_cache:
            return None
        return 'C19-float-frames-unreadable'
    # C19-sc-bits-allocated-12: only SCImage(uint16 array, bits_allocated=12) in a native syntax, and only its three faces:
    # the object says Bits Allocated 12, pydicom refuses exactly that value, values >= 4096 are not checked
    if 'C19-sc-bits-allocated-12' in ids and c.get('kind') == 'sc' and c.get('ba') == 12 and c.get('dtype') == 'uint16' \
            and c.get('ts') in NATIVE and len(c.get('shape') or ()) == 2 and isinstance(d, str):
        if site == 'sc-decode' and "'Bits Allocated' value of '12' is invalid" in d:
            return 'C19-sc-bits-allocated-12'
        if site == 'sc-module' and d.startswith('Bits Allocated 12 written'):
            return 'C19-sc-bits-allocated-12'
        if site == 'sc-12bit-overflow' and c.get('big_values'):
            return 'C19-sc-bits-allocated-12'
    return None
